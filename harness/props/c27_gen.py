"""C27 generators: abstract PDL patterns (match DAG + rewrite) and payloads derived from them
(instantiation of the pattern, then near-miss mutations, noise and consumers)."""
from __future__ import annotations

import copy
import random
from typing import Any

TYPES = ["i32", "i64", "i1", "f32", "index"]
# attribute values by type (typed) and untyped ones; falsy values first
TYPED_ATTRS = {
    "i32": ["0 : i32", "1 : i32", "7 : i32"],
    "i64": ["0 : i64", "1 : i64"],
    "i1": ["false", "true"],
    "f32": ["0.0 : f32", "1.5 : f32"],
    "index": ["0 : index", "2 : index"],
}
UNTYPED_ATTRS = ['"s"', '""', "unit", "i32", "[]", "[1 : i32]"]
ALL_ATTRS = [a for l in TYPED_ATTRS.values() for a in l] + UNTYPED_ATTRS
OP_NAMES = ["test.op", "test.pureop", "test.op_with_memread"]
# ops that are never trivially dead (apply-pdl erases trivially dead ops while walking, apply-pdl-interp does not)
EFFECT_NAMES = ["test.op", "test.op_with_memwrite"]
_NAMES = OP_NAMES
ATTR_NAMES = ["value", "a", "prop1", "b", "prop2"]


# header of the pdl.pattern op.  Benefits: I16, non-negative; 0 is the lowest priority (NOT "never applies" — MLIR's
# impossible-to-match sentinel is 65535), the boundary values around the signed/unsigned 16-bit limits.  Symbol names:
# absent, ordinary, and the names the conversion / the pdl_interp interpreter use themselves (the conversion names the
# rewriter function after the pattern: @matcher, @rewriters, @pdl_generated_rewriter collide with generated symbols).
BENEFITS = [0, 1, 2, 3, 42, 255, 256, 32767, 32768, 65534, 65535]
BENEFIT_W = [24, 10, 10, 4, 4, 3, 3, 8, 8, 6, 20]
SYM_NAMES = [None, "pat", "matcher", "rewriter", "rewriters", "pdl_generated_rewriter", "pdl_generated_rewriter_0",
             "finalize", "a.b"]
SYM_W = [30, 14, 16, 6, 8, 8, 3, 3, 4]


def gen_header(rng: random.Random) -> dict:
    if rng.random() < 0.3:
        return {"benefit": 1, "sym": None}
    return {"benefit": _w(rng, BENEFITS, BENEFIT_W), "sym": _w(rng, SYM_NAMES, SYM_W)}


def _w(rng: random.Random, items: list, weights: list[int]):
    return rng.choices(items, weights=weights, k=1)[0]


def gen_pattern(rng: random.Random, rich: bool = True, effect_only: bool = False) -> dict:
    global _NAMES
    _NAMES = EFFECT_NAMES if effect_only else OP_NAMES
    try:
        return _gen_pattern(rng, rich)
    finally:
        _NAMES = OP_NAMES


def gen_payload(rng: random.Random, p: dict, effect_only: bool = False) -> tuple[dict, list[str]]:
    global _NAMES
    _NAMES = EFFECT_NAMES if effect_only else OP_NAMES
    try:
        return _gen_payload(rng, p)
    finally:
        _NAMES = OP_NAMES


def _gen_pattern(rng: random.Random, rich: bool = True) -> dict:
    nops = _w(rng, [1, 2, 3], [45, 40, 15])
    ntypes = rng.randint(1, 3)
    types: list = [(rng.choice(TYPES) if rng.random() < 0.4 else None) for _ in range(ntypes)]
    nattrs = rng.randint(0, 3)
    attrs: list = []
    for _ in range(nattrs):
        k = rng.random()
        if k < 0.5:
            attrs.append({"v": rng.choice(ALL_ATTRS if rng.random() < 0.5 else ["0 : i32", "false", "0 : i64", '""', "0.0 : f32"]), "t": None})
        elif k < 0.7:
            attrs.append({"v": None, "t": rng.randrange(ntypes)})
        else:
            attrs.append({"v": None, "t": None})
    nvals = rng.randint(0, 3)
    vals: list = [(rng.randrange(ntypes) if rng.random() < 0.4 else None) for _ in range(nvals)]
    ops: list = []
    for i in range(nops):
        nres = _w(rng, [0, 1, 2], [15, 65, 20]) if i == nops - 1 else _w(rng, [1, 2], [70, 30])
        o = {"name": (rng.choice(_NAMES) if rng.random() < 0.93 else None), "attrs": [], "operands": [],
             "results": [rng.randrange(ntypes) for _ in range(nres)]}
        if nattrs:
            names = rng.sample(ATTR_NAMES, k=min(len(ATTR_NAMES), _w(rng, [0, 1, 2], [45, 40, 15])))
            o["attrs"] = [[n, rng.randrange(nattrs)] for n in names]
        nop = _w(rng, [0, 1, 2, 3], [25, 35, 30, 10]) if nvals else 0
        o["operands"] = [["v", rng.randrange(nvals)] for _ in range(nop)]
        ops.append(o)
    # connect every non-root op to a later op through one of its results (possibly several times)
    for j in range(nops - 1):
        parent = rng.randint(j + 1, nops - 1)
        for _ in range(_w(rng, [1, 2], [80, 20])):
            ref = ["r", j, rng.randrange(len(ops[j]["results"]))]
            ops[parent]["operands"].insert(rng.randint(0, len(ops[parent]["operands"])), ref)
        if rng.random() < 0.15 and j + 1 < nops - 1:
            other = rng.randint(j + 1, nops - 1)
            ops[other]["operands"].append(["r", j, rng.randrange(len(ops[j]["results"]))])
    root = ops[-1]
    if root["name"] is None and not root["operands"] and not root["results"]:
        root["name"] = "test.op"
    p = {"types": types, "attrs": attrs, "vals": vals, "ops": ops, "rw": [],
         "layout": rng.choice(["grouped", "lazy"]), "mres": rng.choice(["match", "rewrite"])}
    p["rw"] = gen_rewrite(rng, p, rich)
    p["hdr"] = gen_header(rng)
    return p


def gen_diamond_pattern(rng: random.Random, rich: bool = True, effect_only: bool = False) -> dict:
    """a multi-result producer (2–3 results) reached through several DISTINCT `pdl.result i of %prod` ops:
    depth 1 = the root consumes two or three different results of the producer; depth 2 = some of the results reach
    the root through intermediate ops (one or two of them), possibly next to a direct use"""
    global _NAMES
    _NAMES = EFFECT_NAMES if effect_only else OP_NAMES
    try:
        nres = _w(rng, [2, 3], [65, 35])
        shared_type = rng.random() < 0.6
        ntypes = 1 if shared_type else nres
        types: list = [(rng.choice(TYPES) if rng.random() < 0.25 else None) for _ in range(ntypes)]
        types.append(None)                                  # result type of the consumers
        tcons = len(types) - 1
        attrs: list = []
        prod_attrs: list = []
        if rng.random() < 0.5:
            attrs.append({"v": rng.choice(['"pair"', "0 : i32", "false", "1 : i64"]), "t": None})
            prod_attrs = [[rng.choice(ATTR_NAMES), 0]]
        vals: list = [None] * rng.randint(0, 2)
        prod = {"name": rng.choice(_NAMES) if rng.random() < 0.9 else None, "attrs": prod_attrs,
                "operands": [["v", rng.randrange(len(vals))] for _ in range(rng.randint(0, min(2, len(vals))))] if vals else [],
                "results": [(0 if shared_type else k) for k in range(nres)]}
        ops = [prod]
        used_idx = rng.sample(range(nres), k=_w(rng, [2, 3], [75, 25]) if nres == 3 else 2)
        depth = _w(rng, [1, 2], [55, 45])
        root_operands: list = []
        if depth == 1:
            root_operands = [["r", 0, k] for k in used_idx]
        else:
            # each used result goes either directly to the root or through its own / a shared intermediate op
            mids: list[int] = []
            for n, k in enumerate(used_idx):
                via_mid = rng.random() < 0.6 or (n == len(used_idx) - 1 and not mids)
                if not via_mid:
                    root_operands.append(["r", 0, k])
                    continue
                if mids and rng.random() < 0.3:
                    ops[mids[-1]]["operands"].append(["r", 0, k])         # one intermediate op takes two results
                    continue
                mid = {"name": rng.choice(_NAMES), "attrs": [], "operands": [["r", 0, k]], "results": [tcons]}
                if vals and rng.random() < 0.4:
                    mid["operands"].insert(rng.randint(0, 1), ["v", rng.randrange(len(vals))])
                ops.append(mid)
                mids.append(len(ops) - 1)
                root_operands.append(["r", len(ops) - 1, 0])
        if vals and rng.random() < 0.4:
            root_operands.insert(rng.randint(0, len(root_operands)), ["v", rng.randrange(len(vals))])
        if rng.random() < 0.3:
            rng.shuffle(root_operands)
        root = {"name": rng.choice(_NAMES) if rng.random() < 0.9 else None, "attrs": [], "operands": root_operands,
                "results": [tcons] if rng.random() < 0.8 else []}
        ops.append(root)
        p = {"types": types, "attrs": attrs, "vals": vals, "ops": ops, "rw": [],
             "layout": rng.choice(["grouped", "lazy"]), "mres": rng.choice(["match", "rewrite"]), "diamond": True}
        p["rw"] = gen_rewrite(rng, p, rich)
        p["hdr"] = gen_header(rng)
        return p
    finally:
        _NAMES = OP_NAMES


CHAIN_TAGS = ['"hot"', '"cold"', "0 : i32", "1 : i32", "unit"]


def gen_chain_pattern(rng: random.Random, rich: bool = True) -> dict:
    """SELF-OVERLAPPING pattern: the root op-pattern and the op-pattern(s) producing one of its operands accept the
    same payload operations (same name / arity / result count / attribute constraints), so that in a def-use chain of
    such operations every link is the root of one match site and the producer inside the next one.  The rewrites are
    the ones for which the ORDER of application is observable (not confluent): they change whether the neighbouring
    sites still match — the root is replaced by a value from deeper in the chain, by its producer, or by a new
    operation that does / does not satisfy the producer constraints any more (other attribute value, other name,
    other operands).  Only operation names that are never trivially dead (see EFFECT_NAMES) are used, so that the
    passes apply-pdl / apply-pdl-interp themselves can be compared on these cases."""
    global _NAMES
    _NAMES = EFFECT_NAMES
    try:
        # STACK mode: the root is told from its producers (name or attribute) and the rewrite puts a new root one link
        # deeper — on a stack of producer-only links the created op matches again and again
        stack_mode = rng.random() < 0.3
        depth = _w(rng, [2, 3], [75, 25])                    # number of pdl.operation nodes
        arity = _w(rng, [1, 2, 3], [50, 40, 10])
        nres = _w(rng, [1, 2], [85, 15])
        name = rng.choice(EFFECT_NAMES) if rng.random() < 0.85 or stack_mode else None
        types: list = [rng.choice(TYPES) if rng.random() < 0.3 else None]
        if rng.random() < 0.25:
            types.append(None)
        attrs: list = []
        tagged = rng.random() < 0.55
        root_named = stack_mode and rng.random() < 0.5
        if stack_mode and not root_named:
            tagged = True
        tag_name = rng.choice(["a", "b", "value"])
        if tagged:
            attrs.append({"v": rng.choice(CHAIN_TAGS), "t": None})
        # who carries the attribute constraint: every op, only the producers, only the root
        carriers = _w(rng, ["all", "producers", "root"], [45, 20, 35]) if tagged else "none"
        if stack_mode and not root_named:
            carriers = "root"
        vals: list = []

        def new_val() -> int:
            vals.append(0 if rng.random() < 0.25 else None)
            return len(vals) - 1

        ops: list = []
        for i in range(depth):
            opnds: list = []
            pos = rng.randrange(arity)
            for k in range(arity):
                if i > 0 and k == pos:
                    opnds.append(["r", i - 1, rng.randrange(nres)])
                elif vals and rng.random() < 0.25:
                    opnds.append(["v", rng.randrange(len(vals))])         # shared pdl.operand (same value twice)
                else:
                    opnds.append(["v", new_val()])
            has_tag = tagged and (carriers == "all" or (carriers == "producers" and i < depth - 1) or (carriers == "root" and i == depth - 1))
            ops.append({"name": name, "attrs": [[tag_name, 0]] if has_tag else [], "operands": opnds,
                        "results": [(0 if rng.random() < 0.8 else len(types) - 1) for _ in range(nres)]})
        if name is not None and (root_named or (not stack_mode and rng.random() < 0.2)):
            # the root has another name than its producers: a chain of producer-named links under one root
            ops[-1]["name"] = next(n for n in EFFECT_NAMES if n != name)
        elif rng.random() < 0.08:
            ops[rng.randrange(depth)]["name"] = rng.choice(EFFECT_NAMES)    # one link of another name
        p = {"types": types, "attrs": attrs, "vals": vals, "ops": ops, "rw": [], "chain": True, "stack": stack_mode,
             "layout": rng.choice(["grouped", "lazy"]), "mres": rng.choice(["match", "rewrite"])}
        root = depth - 1
        bv, ba, bt = _bound_nodes(p)
        root_vals = [["v", r[1]] if r[0] == "v" else ["mr", r[1], r[2]] for r in ops[root]["operands"]]
        deep_vals = [["v", r[1]] for o in ops[:root] for r in o["operands"] if r[0] == "v"]
        prod_res = [["mr", j, k] for j in range(root) for k in range(nres)]
        other_tag = rng.choice([t for t in CHAIN_TAGS if not tagged or t != attrs[0]["v"]])
        kind = _w(rng, ["skip", "to-producer", "retag", "rename", "reassoc", "multi", "random"], [22, 10, 22, 8, 16, 10, 12])
        if stack_mode:
            kind = "reassoc"
        acts: list = []

        def new_like_root(nm: str | None, opnds: list, tag: str | None) -> None:
            if tag == "other":
                al = [[tag_name, ["k", other_tag]]]
            elif tag == "same" and tagged:
                al = [[tag_name, ["c", 0]]]
            else:
                al = []
            acts.append(["op", nm if nm is not None else "test.op", opnds, al, [["c", t] for t in ops[root]["results"]]])

        if kind == "rename" and name is None:
            kind = "retag"
        if kind == "skip" and deep_vals:
            acts.append(["replace_vals", ["m", root], [rng.choice(deep_vals) for _ in range(nres)]])
        elif kind == "to-producer" or (kind == "skip" and not deep_vals):
            acts.append(["replace_vals", ["m", root], [rng.choice(prod_res) for _ in range(nres)]])
        elif kind == "retag":
            opnds = list(root_vals)
            if rng.random() < 0.5:
                rng.shuffle(opnds)
            if not tagged:
                # no attribute to tell the new op from the old one: another operand count does it
                opnds = opnds[:-1] if rng.random() < 0.5 else opnds + [rng.choice(opnds)]
            new_like_root(ops[root]["name"], opnds, "other")
            acts.append(["replace_op", ["m", root], ["n", 0]])
        elif kind == "rename":
            other = [n for n in EFFECT_NAMES if n != ops[root]["name"]] or EFFECT_NAMES
            new_like_root(rng.choice(other), list(root_vals), "same")
            acts.append(["replace_op", ["m", root], ["n", 0]])
        elif kind == "reassoc":
            # REGROW: the new op has the root's name and attributes and sits one link deeper (at the position where the
            # root takes its producer's result it takes what the producer takes there): it matches again wherever the
            # chain goes on below — visiting created ops and walking to a fixpoint are observable
            pool = deep_vals + [v for v in root_vals if v[0] == "v"]
            if not pool:
                pool = prod_res
            opnds = [rng.choice(pool) for _ in range(arity)]
            ppos = next(k for k, r in enumerate(ops[root]["operands"]) if r[0] == "r")
            below = ops[root - 1]["operands"][ppos] if ppos < len(ops[root - 1]["operands"]) else None
            if below is not None and (stack_mode or rng.random() < 0.8):
                opnds[ppos] = ["v", below[1]] if below[0] == "v" else ["mr", below[1], below[2]]
            new_like_root(ops[root]["name"], opnds, "same")
            if tagged and not ops[root]["attrs"] and rng.random() < 0.5:
                acts[-1][3] = []                                         # (producers carry the tag, the root does not)
            acts.append(["replace_op", ["m", root], ["n", 0]])
        elif kind == "multi":
            # the root is replaced and a producer is replaced / erased as well (well formed only where the producer
            # has no other user: the fan-out links of the payloads are the ill-formed sites)
            pool = deep_vals + [v for v in root_vals if v[0] == "v"]
            if pool:
                acts.append(["replace_vals", ["m", root], [rng.choice(pool) for _ in range(nres)]])
            else:
                new_like_root(name, [], "other")
                acts.append(["replace_op", ["m", root], ["n", 0]])
            j = rng.randrange(root)
            if rng.random() < 0.5 or not pool:
                acts.append(["erase", ["m", j]])
            else:
                acts.append(["replace_vals", ["m", j], [rng.choice(pool) for _ in range(nres)]])
        else:
            acts = gen_rewrite(rng, p, rich)
        p["rw"] = acts
        p["hdr"] = gen_header(rng)
        return p
    finally:
        _NAMES = OP_NAMES


def gen_chain_payload(rng: random.Random, p: dict) -> tuple[dict, list[str]]:
    """def-use chains / trees whose links are overlapping instances of `p`: every new instance reuses an earlier root
    instance (mostly the latest: a chain; sometimes an older one: fan-out, i.e. values with several users) as the
    producer of its root; some links are near misses; where the pattern tells the root from its producers (name or
    attribute) lower links are turned into producer-only links (stacks under a root); effectful sinks keep the ends alive"""
    global _NAMES
    _NAMES = EFFECT_NAMES
    try:
        b = Builder(rng)
        muts: list[str] = []
        nops = len(p["ops"])
        prod = next((r[1] for r in p["ops"][-1]["operands"] if r[0] == "r"), None)
        root_only = {n for n, _ in p["ops"][-1]["attrs"]} - ({n for n, _ in p["ops"][prod]["attrs"]} if prod is not None else set())
        prod_name = p["ops"][prod]["name"] if prod is not None else None
        other_name = prod_name is not None and p["ops"][-1]["name"] != prod_name

        def demote(i: int) -> None:
            # PRODUCER-ONLY link: fits the producer op-pattern but not the root's (it has the producers' name / lacks
            # the attribute only the root demands).  Stacks of such links under a root keep their depth until a rewrite
            # creates a new root on top of them: the created op matches again, so visiting created ops / walking to a
            # fixpoint is observable
            o = b.ops[i]
            o["attrs"] = [x for x in o["attrs"] if x[0] not in root_only]
            o["props"] = [x for x in o["props"] if x[0] not in root_only]
            if other_name:
                o["name"] = prod_name
            muts.append("producer-only-link")

        for _chain in range(_w(rng, [1, 2], [80, 20])):
            roots = [b.instantiate(p, True)]
            nlinks = _w(rng, [1, 2, 3, 4, 5], [15, 30, 25, 20, 10])
            stack = (root_only or other_name) and rng.random() < (0.9 if p.get("stack") else 0.4)   # producer-only links below, roots on top
            for k in range(nlinks):
                if (root_only or other_name) and (rng.random() < 0.8 if stack and k < nlinks - 1 else rng.random() < 0.15):
                    demote(roots[-1])
                lo = len(b.ops)
                perfect = rng.random() < 0.8
                at = roots[-1] if rng.random() < 0.75 else rng.choice(roots)
                reuse = {prod: at} if prod is not None and nops > 1 else None
                roots.append(b.instantiate(p, perfect, reuse))
                if not perfect:
                    muts.append(b.mutate(lo))
            # sinks: the last link always, other links sometimes
            for r in [roots[-1]] + [x for x in roots[:-1] if rng.random() < 0.2]:
                if r < len(b.ops) and b.ops[r]["results"]:
                    k = rng.randrange(len(b.ops[r]["results"]))
                    b.ops.append({"name": rng.choice(["test.op", "unreg.use"]), "operands": [["r", r, k] for _ in range(rng.randint(1, 2))],
                                  "attrs": [], "props": [], "results": []})
        return b.payload(), ["chain"] + muts
    finally:
        _NAMES = OP_NAMES


def _bound_nodes(p: dict) -> tuple[list[int], list[int], list[int]]:
    """indices of operand / attribute / type nodes reachable from the root (bound by every match)"""
    vs: set[int] = set()
    as_: set[int] = set()
    ts: set[int] = set()
    for o in p["ops"]:
        for r in o["operands"]:
            if r[0] == "v":
                vs.add(r[1])
        for _, a in o["attrs"]:
            as_.add(a)
        ts.update(o["results"])
    for v in vs:
        if p["vals"][v] is not None:
            ts.add(p["vals"][v])
    for a in as_:
        if p["attrs"][a].get("t") is not None:
            ts.add(p["attrs"][a]["t"])
    return sorted(vs), sorted(as_), sorted(ts)


def gen_rewrite(rng: random.Random, p: dict, rich: bool = True) -> list:
    nops = len(p["ops"])
    root = nops - 1
    bv, ba, bt = _bound_nodes(p)
    acts: list = []
    created: list[int] = []      # number of results of each created op

    def some_val(allow_new: bool = True) -> list | None:
        c: list = [["v", v] for v in bv]
        for j in range(nops - 1):
            c += [["mr", j, k] for k in range(len(p["ops"][j]["results"]))]
        if allow_new:
            for k, n in enumerate(created):
                c += [["nr", k, i] for i in range(n)]
        if rng.random() < 0.04:
            c += [["mr", root, k] for k in range(len(p["ops"][root]["results"]))]
        return rng.choice(c) if c else None

    def new_op(ntys: int | None = None, like_root: bool = False) -> int:
        name = rng.choice(_NAMES + (["test.op_with_memwrite"] if rich else []))
        if rich and rng.random() < 0.03:
            name = "unreg.op"
        opnds = []
        for _ in range(_w(rng, [0, 1, 2], [30, 45, 25])):
            v = some_val()
            if v is not None:
                opnds.append(v)
        attrs = []
        for n in rng.sample(ATTR_NAMES, k=_w(rng, [0, 1, 2], [50, 35, 15])):
            if ba and rng.random() < 0.5:
                attrs.append([n, ["c", rng.choice(ba)]])
            else:
                attrs.append([n, ["k", rng.choice(ALL_ATTRS)]])
        if like_root:
            tys = [["c", t] for t in p["ops"][root]["results"]]
            if rng.random() < 0.2:
                tys = [["k", rng.choice(TYPES)] for _ in tys]
        else:
            n = ntys if ntys is not None else _w(rng, [0, 1, 2], [25, 60, 15])
            tys = [(["c", rng.choice(bt)] if bt and rng.random() < 0.6 else ["k", rng.choice(TYPES)]) for _ in range(n)]
        acts.append(["op", name, opnds, attrs, tys])
        created.append(len(tys))
        return len(created) - 1

    nroot = len(p["ops"][root]["results"])
    kind = _w(rng, ["vals", "newop", "erase", "insert", "multi"], [30, 30, 14, 6, 20] if rich else [40, 40, 20, 0, 0])
    if kind == "vals":
        n = nroot if rng.random() < 0.9 else max(0, nroot + rng.choice([-1, 1]))
        vs = [some_val() for _ in range(n)]
        if any(v is None for v in vs):
            kind = "newop"
        else:
            if rng.random() < 0.3:
                new_op()
                vs2 = [some_val() for _ in range(n)]
                if all(v is not None for v in vs2):
                    vs = vs2
            acts.append(["replace_vals", ["m", root], vs])
    if kind == "newop":
        for _ in range(_w(rng, [0, 1], [75, 25])):
            new_op()
        k = new_op(like_root=rng.random() < 0.9)
        acts.append(["replace_op", ["m", root], ["n", k]])
    elif kind == "erase":
        if rng.random() < 0.3:
            new_op()
        acts.append(["erase", ["m", root]])
    elif kind == "insert":
        new_op()
    elif kind == "multi":
        # several actions, also on non-root matched ops and on created ops
        for _ in range(rng.randint(1, 2)):
            new_op()
        k = new_op(like_root=True)
        if rng.random() < 0.5:
            acts.append(["replace_op", ["m", root], ["n", k]])
        else:
            vs = [["nr", k, i] for i in range(nroot)]
            acts.append(["replace_vals", ["m", root], vs])
        r = rng.random()
        if r < 0.3 and nops > 1:
            j = rng.randrange(nops - 1)
            acts.append(["erase", ["m", j]])
        elif r < 0.5 and nops > 1:
            j = rng.randrange(nops - 1)
            vs = [some_val(False) for _ in p["ops"][j]["results"]]
            if all(v is not None for v in vs):
                acts.append(["replace_vals", ["m", j], vs])
        elif r < 0.6 and len(created) > 1:
            acts.append(["erase", ["n", 0]])
        elif r < 0.7:
            new_op()
    # `pdl.replace … with ()` is not valid PDL: an op without results is erased instead
    acts = [(["erase", a[1]] if a[0] == "replace_vals" and not a[2] else a) for a in acts]
    return acts


# ---------------------------------------------------------------------------------------------
# payloads
# ---------------------------------------------------------------------------------------------

def attr_of_type(rng: random.Random, t: str) -> str:
    return rng.choice(TYPED_ATTRS[t]) if t in TYPED_ATTRS else "0 : i32"


class Builder:
    def __init__(self, rng: random.Random):
        self.rng = rng
        self.args: list[str] = []
        self.ops: list[dict] = []

    def value_of_type(self, t: str, fresh: bool = False) -> list:
        rng = self.rng
        c: list = []
        if not fresh:
            c += [["a", k] for k, at in enumerate(self.args) if at == t]
            for i, o in enumerate(self.ops):
                c += [["r", i, k] for k, rt in enumerate(o["results"]) if rt == t]
        if c and rng.random() < 0.6:
            return rng.choice(c)
        if rng.random() < 0.5:
            self.args.append(t)
            return ["a", len(self.args) - 1]
        self.ops.append({"name": rng.choice(_NAMES), "operands": [], "attrs": [], "props": [], "results": [t]})
        return ["r", len(self.ops) - 1, 0]

    def instantiate(self, p: dict, perfect: bool, reuse: dict[int, int] | None = None) -> int:
        """append ops realising the pattern; returns the position of the root instance.
        `reuse` = {pattern op: existing payload op}: these pattern ops are not created again, the existing op plays
        their part (overlapping match sites: one payload op is root of one instance and producer in another); the
        map is closed downwards along the existing op's operands, and the types / values / attributes the existing
        ops fix are taken over, so that the overlapping instance is a perfect one whenever the existing ops fit"""
        rng = self.rng
        where: dict[int, int] = {}
        fixed_t: dict[int, str] = {}
        fixed_v: dict[int, list] = {}
        fixed_a: dict[int, str] = {}
        todo = list((reuse or {}).items())
        while todo:
            j, e = todo.pop()
            if j in where or not (0 <= j < len(p["ops"]) - 1) or not (0 <= e < len(self.ops)):
                continue
            where[j] = e
            x, po = self.ops[e], p["ops"][j]
            for t, actual in zip(po["results"], x["results"]):
                fixed_t.setdefault(t, actual)
            for ref, actual in zip(po["operands"], x["operands"]):
                if ref[0] == "v":
                    fixed_v.setdefault(ref[1], list(actual))
                    if p["vals"][ref[1]] is not None:
                        fixed_t.setdefault(p["vals"][ref[1]], self.type_of(actual))
                elif actual[0] == "r":
                    todo.append((ref[1], actual[1]))
            for n, a in po["attrs"]:
                for m, av in x["props"] + x["attrs"]:
                    if m == n:
                        fixed_a.setdefault(a, av)
                        break
        tys = [fixed_t.get(k, t if t is not None else rng.choice(TYPES)) for k, t in enumerate(p["types"])]
        if not perfect and rng.random() < 0.15 and tys:
            tys[rng.randrange(len(tys))] = rng.choice(TYPES)       # violates a constant type
        # attributes: typed constraints need an attribute of the bound type
        avs = []
        for k, d in enumerate(p["attrs"]):
            if k in fixed_a:
                avs.append(fixed_a[k])
            elif d.get("t") is not None:
                avs.append(attr_of_type(rng, tys[d["t"]]))
            elif d.get("v") is not None:
                avs.append(d["v"])
            else:
                avs.append(rng.choice(ALL_ATTRS))
        vals = []
        for k, t in enumerate(p["vals"]):
            if k in fixed_v:
                vals.append(fixed_v[k])
            else:
                vals.append(self.value_of_type(tys[t] if t is not None else rng.choice(TYPES), fresh=rng.random() < 0.5))
        for i, po in enumerate(p["ops"]):
            if i in where:
                continue
            opnds = []
            for r in po["operands"]:
                if r[0] == "v":
                    opnds.append(list(vals[r[1]]))
                else:
                    k = min(r[2], max(0, len(self.ops[where[r[1]]]["results"]) - 1))     # (a reused op may have fewer results)
                    opnds.append(["r", where[r[1]], k] if self.ops[where[r[1]]]["results"] else list(self.value_of_type(rng.choice(TYPES))))
            al = [[n, avs[a]] for n, a in po["attrs"]]
            o = {"name": po["name"] if po["name"] is not None else rng.choice(_NAMES + ["unreg.any"]),
                 "operands": opnds,
                 "attrs": [x for x in al if not x[0].startswith("prop")],
                 "props": [x for x in al if x[0].startswith("prop")],
                 "results": [tys[t] for t in po["results"]]}
            if rng.random() < 0.2:
                o["attrs"].append(["extra", rng.choice(ALL_ATTRS)])
            if al and rng.random() < 0.3:
                self.shadow(o)
            self.ops.append(o)
            where[i] = len(self.ops) - 1
        return where[len(p["ops"]) - 1]

    def shadow(self, o: dict) -> bool:
        """an attribute AND a property of the same name on one op (generic syntax `<{"n" = x}> {"n" = y}`; legal where
        the op may carry a property of that name: prop1..3 of the test ops, any name on unregistered ops).  An
        operation's named attribute is the property when both exist (Operation.get_attr_or_prop, MLIR's getAttr):
        the copy that is looked at keeps its value, the shadowed copy gets the same or another value; or the other
        way round (then the op is a near miss)"""
        rng = self.rng
        unreg = not o["name"].startswith("test.")
        c = [("p", e) for e in o["props"] if not any(a[0] == e[0] for a in o["attrs"])]
        c += [("a", e) for e in o["attrs"] if (unreg or e[0] in ("prop1", "prop2", "prop3")) and not any(x[0] == e[0] for x in o["props"])]
        if not c:
            return False
        side, e = rng.choice(c)
        other = rng.choice([x for x in ALL_ATTRS if x != e[1]])
        r = rng.random()
        if side == "p":
            # the property decides: the attribute of the same name is noise (r < .7) — or the two values are exchanged
            if r < 0.7:
                o["attrs"].append([e[0], other if r < 0.55 else e[1]])
            else:
                o["attrs"].append([e[0], e[1]])
                e[1] = other
        else:
            # an attribute so far: a property of the same name takes over
            if r < 0.5:
                o["props"].append([e[0], e[1]])
                e[1] = other
            else:
                o["props"].append([e[0], other if r < 0.85 else e[1]])
        return True

    def mutate(self, lo: int, only: str | None = None) -> str:
        """one near-miss mutation of an op at position ≥ lo; returns its kind"""
        rng = self.rng
        if lo >= len(self.ops):
            return "none"
        i = rng.randrange(lo, len(self.ops))
        o = self.ops[i]
        used = any(r[0] == "r" and r[1] == i for x in self.ops for r in x["operands"])
        kinds = ["attr-value", "attr-drop", "attr-to-prop", "operand-drop", "operand-add", "operand-other-def",
                 "operand-same", "operand-other-result", "type", "name", "result-add", "operand-arg", "attr-type",
                 "operand-twin-producer", "operand-swap-index", "attr-and-prop"]
        k = only if only is not None else rng.choice(kinds)
        if k == "attr-and-prop":
            return k if self.shadow(o) else "none"
        if k == "operand-twin-producer":
            # the same result index, but of a second producer op with the same name / attributes / operands
            cands = [(a, j) for a in range(lo, len(self.ops)) for j, r in enumerate(self.ops[a]["operands"]) if r[0] == "r"]
            if not cands:
                return "none"
            a, j = rng.choice(cands)
            d, idx = self.ops[a]["operands"][j][1], self.ops[a]["operands"][j][2]
            twin = copy.deepcopy(self.ops[d])
            if rng.random() < 0.3 and (twin["attrs"] or twin["props"]):
                rng.choice([x for x in (twin["attrs"], twin["props"]) if x])[0][1] = rng.choice(ALL_ATTRS)
            self.insert_at(d + 1, twin)
            self.ops[a + 1]["operands"][j] = ["r", d + 1, idx]
            return k
        if k == "operand-swap-index":
            # two operands that are different results of one producer exchange their result indices
            for a in rng.sample(range(lo, len(self.ops)), len(self.ops) - lo):
                rs = [(j, r) for j, r in enumerate(self.ops[a]["operands"]) if r[0] == "r"]
                pairs = [(x, y) for x in rs for y in rs if x[0] < y[0] and x[1][1] == y[1][1] and x[1][2] != y[1][2]]
                if pairs:
                    (j1, r1), (j2, r2) = rng.choice(pairs)
                    r1[2], r2[2] = r2[2], r1[2]
                    return k
            # otherwise: one operand takes another result index of its producer (which has several results)
            cands = [(a, j) for a in range(lo, len(self.ops)) for j, r in enumerate(self.ops[a]["operands"])
                     if r[0] == "r" and len(self.ops[r[1]]["results"]) > 1]
            if not cands:
                return "none"
            a, j = rng.choice(cands)
            r = self.ops[a]["operands"][j]
            r[2] = (r[2] + 1) % len(self.ops[r[1]]["results"])
            return k
        if k == "attr-value" and (o["attrs"] or o["props"]):
            l = rng.choice([x for x in (o["attrs"], o["props"]) if x])
            e = rng.choice(l)
            e[1] = rng.choice(ALL_ATTRS)
        elif k == "attr-type" and (o["attrs"] or o["props"]):
            l = rng.choice([x for x in (o["attrs"], o["props"]) if x])
            e = rng.choice(l)
            e[1] = rng.choice(UNTYPED_ATTRS + ["0 : i64", "0 : i32", "false"])
        elif k == "attr-drop" and o["attrs"]:
            o["attrs"].pop(rng.randrange(len(o["attrs"])))
        elif k == "attr-to-prop" and o["attrs"] and not o["props"]:
            e = o["attrs"].pop(rng.randrange(len(o["attrs"])))
            if rng.random() < 0.5:
                o["props"].append(["prop2", e[1]])
            else:
                o["attrs"].append([e[0] + "x", e[1]])
        elif k == "operand-drop" and o["operands"]:
            o["operands"].pop(rng.randrange(len(o["operands"])))
        elif k == "operand-add":
            c = [["a", a] for a in range(len(self.args))] + [["r", j, 0] for j in range(i) if self.ops[j]["results"]]
            if c:
                o["operands"].insert(rng.randint(0, len(o["operands"])), rng.choice(c))
        elif k == "operand-other-def" and o["operands"]:
            # same type, but defined by a different (fresh) op
            j = rng.randrange(len(o["operands"]))
            t = self.type_of(o["operands"][j])
            new = {"name": rng.choice(_NAMES), "operands": [], "attrs": [["value", rng.choice(ALL_ATTRS)]], "props": [],
                   "results": [t] if rng.random() < 0.7 else [t, t]}
            self.insert_at(i, new)
            self.ops[i + 1]["operands"][j] = ["r", i, len(new["results"]) - 1]
        elif k == "operand-same" and len(o["operands"]) >= 2:
            a, b = rng.sample(range(len(o["operands"])), 2)
            o["operands"][a] = list(o["operands"][b])
        elif k == "operand-other-result" and o["operands"]:
            # use another result of the same defining op (the defining op gets a second result)
            js = [j for j, r in enumerate(o["operands"]) if r[0] == "r"]
            if js:
                j = rng.choice(js)
                d = self.ops[o["operands"][j][1]]
                t = d["results"][o["operands"][j][2]]
                if len(d["results"]) == 1:
                    d["results"].append(t)
                o["operands"][j] = ["r", o["operands"][j][1], (o["operands"][j][2] + 1) % len(d["results"])]
        elif k == "operand-arg" and o["operands"]:
            j = rng.randrange(len(o["operands"]))
            t = self.type_of(o["operands"][j])
            self.args.append(t)
            o["operands"][j] = ["a", len(self.args) - 1]
        elif k == "type" and o["results"] and not used:
            o["results"][rng.randrange(len(o["results"]))] = rng.choice(TYPES)
        elif k == "name":
            o["name"] = rng.choice(_NAMES + ["unreg.other"])
        elif k == "result-add" :
            o["results"].append(rng.choice(TYPES))
        else:
            return "none"
        return k

    def type_of(self, ref: list) -> str:
        return self.args[ref[1]] if ref[0] == "a" else self.ops[ref[1]]["results"][ref[2]]

    def insert_at(self, i: int, new: dict) -> None:
        for x in self.ops:
            for r in x["operands"]:
                if r[0] == "r" and r[1] >= i:
                    r[1] += 1
        self.ops.insert(i, new)

    def consumers(self, n: int) -> None:
        rng = self.rng
        for _ in range(n):
            c = [["r", i, k] for i, o in enumerate(self.ops) for k in range(len(o["results"]))]
            c += [["a", k] for k in range(len(self.args))]
            if not c:
                return
            opnds = [rng.choice(c) for _ in range(rng.randint(1, 2))]
            self.ops.append({"name": rng.choice(["test.op", "unreg.use"]), "operands": opnds, "attrs": [], "props": [],
                             "results": [rng.choice(TYPES)] if rng.random() < 0.3 else []})

    def payload(self) -> dict:
        return {"args": list(self.args), "ops": self.ops}


def _gen_payload(rng: random.Random, p: dict) -> tuple[dict, list[str]]:
    b = Builder(rng)
    muts: list[str] = []
    last_root: int | None = None
    prod = next((r[1] for r in p["ops"][-1]["operands"] if r[0] == "r"), None)
    for inst in range(_w(rng, [1, 2, 3], [50, 35, 15])):
        lo = len(b.ops)
        perfect = rng.random() < (0.35 if p.get("diamond") else 0.45)
        # overlapping instances: the previous root instance plays the producer of this root (fits or is a near miss)
        overlap = last_root is not None and prod is not None and last_root < len(b.ops) and rng.random() < 0.3
        if overlap:
            muts.append("overlap")
        last_root = b.instantiate(p, perfect, {prod: last_root} if overlap else None)
        if not perfect and p.get("diamond") and rng.random() < 0.75:
            # the decisive near-misses of a diamond: results of two different producers / swapped result indices
            muts.append(b.mutate(lo, rng.choice(["operand-twin-producer", "operand-twin-producer", "operand-swap-index"])))
        elif not perfect:
            for _ in range(_w(rng, [1, 2], [75, 25])):
                muts.append(b.mutate(lo))
        if rng.random() < 0.7:
            b.consumers(rng.randint(1, 2))
    if rng.random() < 0.3:
        b.consumers(1)
    return b.payload(), muts


def payload_well_formed(pl: dict) -> bool:
    for i, o in enumerate(pl["ops"]):
        for r in o["operands"]:
            if r[0] == "a":
                if r[1] >= len(pl["args"]):
                    return False
            elif not (r[1] < i and r[2] < len(pl["ops"][r[1]]["results"])):
                return False
    return True


# ---------------------------------------------------------------------------------------------
# shrinking
# ---------------------------------------------------------------------------------------------

def shrink_payload(pl: dict, still: Any, keep: int | None = None, budget: int = 200) -> tuple[dict, int | None]:
    """greedy: drop ops (uses redirected to a fresh block argument of the same type); `keep` = probed position"""
    cur, k = copy.deepcopy(pl), keep
    steps = 0
    changed = True
    while changed and steps < budget:
        changed = False
        for i in range(len(cur["ops"]) - 1, -1, -1):
            if i == k:
                continue
            cand = copy.deepcopy(cur)
            o = cand["ops"].pop(i)
            base = len(cand["args"])
            cand["args"] += list(o["results"])
            for x in cand["ops"]:
                for r in x["operands"]:
                    if r[0] == "r":
                        if r[1] == i:
                            r[:] = ["a", base + r[2]]
                        elif r[1] > i:
                            r[1] -= 1
            nk = None if k is None else (k - 1 if k > i else k)
            steps += 1
            if still(cand, nk):
                cur, k, changed = cand, nk, True
                break
            if steps >= budget:
                break
    # drop unused block arguments
    used = {r[1] for x in cur["ops"] for r in x["operands"] if r[0] == "a"}
    if len(used) < len(cur["args"]):
        remap = {a: n for n, a in enumerate(sorted(used))}
        cand = copy.deepcopy(cur)
        cand["args"] = [cur["args"][a] for a in sorted(used)]
        for x in cand["ops"]:
            for r in x["operands"]:
                if r[0] == "a":
                    r[1] = remap[r[1]]
        if still(cand, k):
            cur = cand
    return cur, k


def pattern_variants(p: dict):
    """simpler patterns (one local simplification each)"""
    # drop trailing / single rewrite actions that nothing refers to
    for i in range(len(p["rw"]) - 1, -1, -1):
        a = p["rw"][i]
        if a[0] != "op":
            q = copy.deepcopy(p)
            q["rw"].pop(i)
            if q["rw"]:
                yield q
        else:
            k = sum(1 for x in p["rw"][:i] if x[0] == "op")
            refd = False
            for x in p["rw"]:
                for r in (x[2] if x[0] in ("op", "replace_vals") else []):
                    refd |= r[0] == "nr" and r[1] == k
                for r in ([x[1], x[2]] if x[0] == "replace_op" else [x[1]] if x[0] in ("erase", "replace_vals") else []):
                    refd |= r[0] == "n" and r[1] == k
            if not refd:
                q = copy.deepcopy(p)
                q["rw"].pop(i)
                for x in q["rw"]:
                    for r in (x[2] if x[0] in ("op", "replace_vals") else []):
                        if r[0] == "nr" and r[1] > k:
                            r[1] -= 1
                    for r in ([x[1], x[2]] if x[0] == "replace_op" else [x[1]] if x[0] in ("erase", "replace_vals") else []):
                        if r[0] == "n" and r[1] > k:
                            r[1] -= 1
                if q["rw"]:
                    yield q
    for i, a in enumerate(p["rw"]):
        if a[0] == "op":
            for j in range(len(a[2])):
                q = copy.deepcopy(p); q["rw"][i][2].pop(j); yield q
            for j in range(len(a[3])):
                q = copy.deepcopy(p); q["rw"][i][3].pop(j); yield q
    for i, o in enumerate(p["ops"]):
        for j in range(len(o["attrs"])):
            q = copy.deepcopy(p); q["ops"][i]["attrs"].pop(j); yield q
        for j, r in enumerate(o["operands"]):
            if r[0] == "v":
                q = copy.deepcopy(p); q["ops"][i]["operands"].pop(j); yield q
        if o["name"] is not None and (o["operands"] or o["results"]):
            q = copy.deepcopy(p); q["ops"][i]["name"] = None; yield q
    for i, t in enumerate(p["types"]):
        if t is not None:
            q = copy.deepcopy(p); q["types"][i] = None; yield q
    for i, d in enumerate(p["attrs"]):
        if d.get("v") is not None or d.get("t") is not None:
            q = copy.deepcopy(p); q["attrs"][i] = {"v": None, "t": None}; yield q
    for i, t in enumerate(p["vals"]):
        if t is not None:
            q = copy.deepcopy(p); q["vals"][i] = None; yield q
    if p.get("layout") != "grouped" or p.get("mres") != "rewrite":
        q = copy.deepcopy(p); q["layout"] = "grouped"; q["mres"] = "rewrite"; yield q
    h = p.get("hdr")
    if h is not None:
        q = copy.deepcopy(p); q.pop("hdr"); yield q
        if h.get("sym") is not None:
            q = copy.deepcopy(p); q["hdr"]["sym"] = None; yield q
        if h.get("benefit", 1) != 1:
            q = copy.deepcopy(p); q["hdr"]["benefit"] = 1; yield q


def shrink_pattern(p: dict, still: Any, budget: int = 120) -> dict:
    cur = p
    steps = 0
    changed = True
    while changed and steps < budget:
        changed = False
        for q in pattern_variants(cur):
            steps += 1
            if still(q):
                cur, changed = q, True
                break
            if steps >= budget:
                break
    return cur
