"""C21 — native side: assemble emitted x86 text with the system assembler, link it with a small C
harness + assembly trampoline, call the functions on argument vectors and record the return value,
the callee-saved registers and rsp after the call.

The trampoline (`tramp`) saves its own callee-saved registers, pushes the stack arguments (keeping
the 16-byte call alignment), loads rbx/rbp/r12-r15 with the requested sentinel values and the six
argument registers, records rsp, calls the function, then stores rax, rbx, rbp, r12-r15 and rsp
into the record and restores its own frame from a global (so that a callee that returns with a
shifted rsp does not take the harness down with it, as long as its `ret` found the return address).
"""
from __future__ import annotations

import hashlib
import os
import shutil
import subprocess
import tempfile
from pathlib import Path
from typing import Any, Sequence

from vp import core

MAXARGS = 24

TRAMP_S = r"""
.intel_syntax noprefix
.text
.globl tramp
tramp:
    push rbx
    push rbp
    push r12
    push r13
    push r14
    push r15
    sub rsp, 8
    mov QWORD PTR tramp_rec[rip], rsi
    mov QWORD PTR tramp_fn[rip], rdi
    mov QWORD PTR tramp_base[rip], rsp
    mov r11, rsi
    mov rcx, [r11 + 192]
    test rcx, 1
    jz .Lpush
    sub rsp, 8
.Lpush:
    test rcx, rcx
    jz .Lload
    mov rax, [r11 + 40 + 8*rcx]
    push rax
    dec rcx
    jmp .Lpush
.Lload:
    mov rbx, [r11 + 200]
    mov rbp, [r11 + 208]
    mov r12, [r11 + 216]
    mov r13, [r11 + 224]
    mov r14, [r11 + 232]
    mov r15, [r11 + 240]
    mov rdi, [r11 + 0]
    mov rsi, [r11 + 8]
    mov rdx, [r11 + 16]
    mov rcx, [r11 + 24]
    mov r8, [r11 + 32]
    mov r9, [r11 + 40]
    mov [r11 + 296], rsp
    mov rax, [r11 + 320]
    mov r10, [r11 + 336]
    mov r11, [r11 + 328]
    call QWORD PTR tramp_fn[rip]
    mov r11, QWORD PTR tramp_rec[rip]
    mov [r11 + 312], rax
    mov [r11 + 248], rbx
    mov [r11 + 256], rbp
    mov [r11 + 264], r12
    mov [r11 + 272], r13
    mov [r11 + 280], r14
    mov [r11 + 288], r15
    mov [r11 + 304], rsp
    mov rsp, QWORD PTR tramp_base[rip]
    add rsp, 8
    pop r15
    pop r14
    pop r13
    pop r12
    pop rbp
    pop rbx
    ret
.bss
.globl tramp_rec
.globl tramp_fn
.globl tramp_base
tramp_rec: .quad 0
tramp_fn: .quad 0
tramp_base: .quad 0
.section .note.GNU-stack,"",@progbits
"""

HARNESS_C = r"""
#include <stdio.h>
#include <stdlib.h>
#include <string.h>
#include <stdint.h>
#include <inttypes.h>

struct rec {
  uint64_t args[24];      /*   0 */
  uint64_t nstack;        /* 192 */
  uint64_t cs_in[6];      /* 200 */
  uint64_t cs_out[6];     /* 248 */
  uint64_t rsp_before;    /* 296 */
  uint64_t rsp_after;     /* 304 */
  uint64_t ret;           /* 312 */
  uint64_t rax_in;        /* 320 */
  uint64_t r11_in;        /* 328 */
  uint64_t r10_in;        /* 336 */
};
extern void tramp(void *fn, struct rec *r);
extern void *fn_table[];
extern uint64_t fn_count;

/* input lines:  <fn index> <nargs> <6 callee-saved values> <args...>   (decimal u64)
   output lines: <fn index> <rax> <6 callee-saved values after> <rsp_after - rsp_before> */
int main(void) {
  static char line[8192];
  while (fgets(line, sizeof line, stdin)) {
    struct rec r;
    memset(&r, 0, sizeof r);
    char *p = line;
    uint64_t idx = strtoull(p, &p, 10);
    uint64_t nargs = strtoull(p, &p, 10);
    if (idx >= fn_count || nargs > 24) { printf("bad\n"); fflush(stdout); continue; }
    for (int i = 0; i < 6; i++) r.cs_in[i] = strtoull(p, &p, 10);
    for (uint64_t i = 0; i < nargs; i++) r.args[i] = strtoull(p, &p, 10);
    for (uint64_t i = nargs; i < 6; i++) r.args[i] = 0x6a6a6a6a00000000ull + i;
    r.nstack = nargs > 6 ? nargs - 6 : 0;
    r.rax_in = 0x7171717171717171ull;
    r.r11_in = 0x7272727272727272ull;
    r.r10_in = 0x7373737373737373ull;
    printf("%" PRIu64 " start\n", idx);
    fflush(stdout);
    tramp(fn_table[idx], &r);
    printf("%" PRIu64 " %" PRIu64, idx, r.ret);
    for (int i = 0; i < 6; i++) printf(" %" PRIu64, r.cs_out[i]);
    printf(" %" PRId64 "\n", (int64_t)(r.rsp_after - r.rsp_before));
    fflush(stdout);
  }
  return 0;
}
"""


def _run(cmd: Sequence[str], **kw: Any) -> subprocess.CompletedProcess[str]:
    return subprocess.run(list(cmd), capture_output=True, text=True, **kw)


class Native:
    """One work directory; the C harness and the trampoline are compiled once."""

    def __init__(self) -> None:
        for tool in ("as", "gcc"):
            if shutil.which(tool) is None:
                raise core.InfraError(f"system tool `{tool}` not found")
        self.dir = Path(tempfile.mkdtemp(prefix="c21_native_"))
        (self.dir / "harness.c").write_text(HARNESS_C)
        (self.dir / "tramp.s").write_text(TRAMP_S)
        p = _run(["gcc", "-O1", "-c", "harness.c", "-o", "harness.o"], cwd=self.dir)
        if p.returncode != 0:
            raise core.InfraError("gcc failed on the C harness: " + p.stderr[-500:])
        p = _run(["as", "tramp.s", "-o", "tramp.o"], cwd=self.dir)
        if p.returncode != 0:
            raise core.InfraError("as failed on the trampoline: " + p.stderr[-500:])
        self.batch = 0

    def close(self) -> None:
        shutil.rmtree(self.dir, ignore_errors=True)

    # ------------------------------------------------------------------------------------
    def assemble_one(self, text: str) -> tuple[bool, str]:
        """Assemble exactly the emitted text; (ok, first error lines)."""
        f = self.dir / f"one_{os.getpid()}.s"
        f.write_text(text)
        p = _run(["as", str(f), "-o", str(f.with_suffix(".o"))])
        msg = "\n".join(l.split(":", 2)[-1].strip() for l in p.stderr.splitlines() if "Error" in l)[:400]
        return p.returncode == 0, msg

    def build(self, texts: Sequence[str], symbols: Sequence[str]) -> tuple[Path | None, list[int], dict[int, str]]:
        """Assemble the concatenation of the emitted texts (each defines `symbols[i]`) plus a trailer
        with the function table.  Returns (executable | None, indices in the table, {index: assembler
        message} for the texts the assembler refuses)."""
        self.batch += 1
        bad: dict[int, str] = {}
        good = list(range(len(texts)))
        ok, _ = self._assemble_batch([texts[i] for i in good], [symbols[i] for i in good])
        if not ok:
            good = []
            for i, t in enumerate(texts):
                o, msg = self.assemble_one(t)
                if o:
                    good.append(i)
                else:
                    bad[i] = msg
            if good:
                ok, err = self._assemble_batch([texts[i] for i in good], [symbols[i] for i in good])
                if not ok:
                    raise core.InfraError("batch of individually assembling texts does not assemble: " + err[-400:])
        if not good:
            return None, [], bad
        exe = self.dir / f"runner_{self.batch}"
        p = _run(["gcc", "-no-pie", "harness.o", "tramp.o", f"batch_{self.batch}.o", "-o", str(exe)], cwd=self.dir)
        if p.returncode != 0:
            raise core.InfraError("link failed: " + p.stderr[-600:])
        return exe, good, bad

    def _assemble_batch(self, texts: Sequence[str], symbols: Sequence[str]) -> tuple[bool, str]:
        trailer = [".intel_syntax noprefix"]
        trailer += [f".globl {s}" for s in symbols]
        trailer += [".globl fn_table", ".globl fn_count", ".data", "fn_table:"]
        trailer += [f"    .quad {s}" for s in symbols]
        trailer += ["    .quad 0", "fn_count:", f"    .quad {len(symbols)}", '.section .note.GNU-stack,"",@progbits', ""]
        src = self.dir / f"batch_{self.batch}.s"
        src.write_text("".join(t if t.endswith("\n") else t + "\n" for t in texts) + "\n".join(trailer))
        p = _run(["as", str(src), "-o", str(src.with_suffix(".o"))])
        return p.returncode == 0, p.stderr

    def run(self, exe: Path, calls: Sequence[tuple[int, Sequence[int], Sequence[int]]]) -> list[Any]:
        """calls: (table index, callee-saved sentinels, args).  Returns per call either
        {"rax", "cs", "rspdelta"} or {"crash": description}."""
        results: list[Any] = [None] * len(calls)
        pos = 0
        guard = 0
        while pos < len(calls):
            guard += 1
            if guard > len(calls) + 5:
                raise core.InfraError("native runner made no progress")
            inp = "".join(
                f"{idx} {len(args)} {' '.join(map(str, cs))} {' '.join(map(str, args))}\n"
                for idx, cs, args in calls[pos:]
            )
            try:
                p = subprocess.run([str(exe)], input=inp, capture_output=True, text=True, timeout=120)
            except subprocess.TimeoutExpired:
                raise core.InfraError("native runner timed out")
            lines = p.stdout.splitlines()
            done = 0
            started = False
            for l in lines:
                f = l.split()
                if len(f) == 2 and f[1] == "start":
                    started = True
                    continue
                if len(f) == 9:
                    started = False
                    results[pos + done] = {
                        "rax": int(f[1]),
                        "cs": [int(x) for x in f[2:8]],
                        "rspdelta": int(f[8]),
                    }
                    done += 1
            if pos + done < len(calls):
                # the process died inside (or around) the next call
                results[pos + done] = {"crash": f"signal/exit {p.returncode}" + (" during call" if started else "")}
                done += 1
            pos += done
        return results
