"""C01 — IR edits keep the op/block/region tree and use-def chains consistent.

A *history* is a JSON list of calls `[name, arg, ...]` over integer object ids (ops, blocks, regions,
values have separate id spaces).  Everything, including the starting IR, is built by such calls
from the empty universe (constructor calls `new_op/new_block/new_region` create detached objects),
so that the very same list can be replayed on the real xDSL objects and on the Lean model.
Ids of objects a call creates are written in the call (shrinking never renumbers anything).
"""
from __future__ import annotations

import itertools
import json
from collections import Counter
from typing import Any

from vp import core

META = {
    "title": "IR edits keep the op/block/region tree and use-def chains consistent",
    "category": "proof",
    "design_ref": "DESIGN.md §5 C01",
    "lean_modules": ["XdslProofs.C01"],
    "text": (
        "Lean: one generic intrusive doubly-linked-list library (XdslModel/DLL.lean: first/last/next/prev/parent; "
        "insertBefore, insertAfter, pushBack, pushFront, remove, splitBefore, spliceAllBack, spliceAllBefore) is proved "
        "completely: every primitive preserves the representation invariant DLL.WF (forward traversal = abstract list, "
        "backward traversal = its reverse, no duplicates, membership = parent pointer, non-members have null links) and "
        "refines the corresponding list operation (dll_insertBefore … dll_spliceAllBefore). On top of it the store "
        "invariant Inv (three WF instances for ops-in-block, blocks-in-region, uses-of-value/-block; use lists = exactly "
        "the operand/successor positions, each once; result/argument index fields; regions of operations) is proved "
        "preserved by all 58 public mutators the harness exercises (inv_step) and by every history of them with raising "
        "calls skipped (inv_history); the only hypothesis is the contract of Operation.drop_all_references (called on a "
        "detached operation; dropAllReferences_attached_counterexample shows the property is false without it; the other "
        "57 kinds: inv_step_unconditional, inv_history_unconditional). The 45 non-erasing kinds: inv_step_partial, "
        "inv_history_partial. The 13 erasing kinds (erase_op, block_erase, erase_block(_idx), region_erase, op_erase, "
        "drop_all_references, rw_erase_op, rw_replace_op, rw_inline_block, pr_erase, pr_replace, pr_inline_block): the "
        "subtree walk of drop_all_references from a detached object terminates within its fuel, is duplicate-free and "
        "parent-closed (erase_walk) without any acyclicity assumption (an object has one parent, a detached root none, so "
        "the walk cannot reach a cycle), and dropping the subtree preserves Inv (inv_dropTree; dropOne_uses: exactly the "
        "Use objects of the erased operations leave the use lists). The property's clauses are read off Inv "
        "(ops/blocks/regions_exactly_once, uses_exact, block_uses_exact, indices_match). Collection arguments: the "
        "hand-written loops of Region.add_block / Region.insert_block_before, which consume iter(blocks) once with next() "
        "and repair the outer link at StopIteration (XdslModel/DLLStream.lean: linkChain, appendStream, insertStreamBefore), "
        "agree on every node and container with the one-block-at-a-time model functions and represent the list with the "
        "yielded blocks spliced in, in yield order (dll_insertStreamBefore, dll_appendStream; on consistent IR for every "
        "successful call: insert_block_before_single_pass, add_block_single_pass); attaching without linking — what a second "
        "pass over an exhausted one-shot iterator leaves — is not well-formed (attach_without_link_counterexample). The state a "
        "raising multi-element call leaves behind (XdslModel/IRPartial.lean: foldLeft = the steps before the first raising one) "
        "satisfies Inv for Block.add_ops, Block.insert_ops_before and Region.add_block (add_ops_/insert_ops_before_/"
        "add_block_raising_state_inv; foldLeft_of_ok: it is the result of the call when nothing raises). Theorems are in "
        "XdslProofs/C01.lean. Tie to /repo: every history (constructor calls from the empty universe + 1–60 mutation "
        "calls, ~80 % satisfying their preconditions; every collection-typed parameter of every call — 27 parameters of 21 "
        "of the 58 call kinds — passed as a drawn instance of its DECLARED type: Iterable[X] as list, tuple, custom Sequence, "
        "re-iterable non-sequence, generator, iter(list) or map object, Sequence[X] as list, tuple or custom Sequence, "
        "`X | Iterable[X]` also as the object itself; the Lean model receives the element list) is executed on real xDSL objects; after every successful call — and after every raising call of a re-linking kind "
        "that left a changed state behind (skipped, but the history continues from that state) — an "
        "independent whole-tree invariant walk is the oracle, and the full public observation (ops forward/backward, "
        "blocks, parents, operands, successors, use lists as sorted multisets, index fields, and the exception class of "
        "raising calls) is compared line by line with the Lean model IRStore replaying the same history."
    ),
    "technique": "Lean 4 invariant proofs over a pointer-level model + differential correspondence "
                 "of random/enumerated API histories on real xDSL objects, whole-tree invariant oracle after every call",
    "level_note": (
        "The model is of the tree WITH 'fix: negative index in OpOperands/OpSuccessors.__setitem__ and "
        "Operation.detach_region' applied (the check finds the defect on the unfixed tree by itself). Trusted: Lean kernel; "
        "the hand-written model XdslModel/{DLL,IRStore,IRApi}.lean (tied by correspondence only: enumerated depth ≤ 2 on a "
        "small seed + random histories); Python object identity. Not modelled: name hints, types, attributes, locations, "
        "listeners, error messages. Argument forms stay inside the declared parameter types (a generator is never passed "
        "where Sequence[X] is declared; Rewriter/PatternRewriter.inline_block gets `()` for 'no replacement values', its default). "
        "Excluded as outside the API contract (never generated, stated here so that nothing is "
        "claimed about them): calls on objects that were erased; Operation.drop_all_references on an attached operation "
        "(docstring: 'called prior to deleting an operation'); creating parent cycles through the unguarded "
        "Region.move_blocks/move_blocks_before/Rewriter.inline_region/Operation.add_region; a builtin.module with operands or "
        "results. Calls that raise are skipped, as the quantifier says; the IR they leave behind is what the rest of the "
        "history works on. A raising call of a RE-LINKING kind (31 of the 58: creates no object and erases none — add_ops, "
        "insert_ops_*, add_block, insert_block*, move_blocks*, add_region, detach_*, operand/successor setters, "
        "replace_*uses*, Rewriter.insert_op/insert_block/inline_region, PatternRewriter.insert …) that changed an observation "
        "(the elements before the rejected one stay inserted) is judged by the invariant walk exactly like a successful call, and so is "
        "every later successful call of the history; only the comparison with the Lean model stops there (the model returns an "
        "error without a state). A raising call of a creating or erasing kind that changed an observation (Operation.create, "
        "Block(ops), Region(blocks), erase_arg, replace_op, erase_op(safe_erase), inline_block …) still ends the history "
        "unjudged: it leaves a half-built object the harness cannot name, or a half-erased one (calls on erased objects are "
        "outside the contract). Use lists are compared as multisets "
        "(their order is not part of the statement). Side observation, not a C01 matter: the ValueError message of "
        "SSAValue.erase prints the half-erased owner and the printer can raise IndexError instead; such calls are counted "
        "as raising ValueError. inv_step covers all 58 call kinds under the drop_all_references contract: see 'text'. "
        "Model deviation added for the erasure proofs (unobservable: erased operations are never dumped or referenced): "
        "drop_all_references empties the regions tuple of the erased operation (xDSL keeps the tuple and nulls the regions' parent)."
    ),
    "rule": (
        "case = one history (JSON list of calls over integer ids; ids of created objects are part of the call). "
        "Enumeration: every call of 28 primitive kinds with every choice of live arguments (indices −3..2; block/op "
        "collections = every list of ≤ 2 distinct live objects, each in every argument form its declared type admits) on a fixed "
        "3-block/5-op/2-region seed, depth 1 completely, depth 2 completely (thorough, while time allows) or sampled (quick); "
        "the seed prefix is judged once and then replayed unobserved. "
        "Random: generated seed IR (nested regions ≤ depth 2, 1–4 blocks per region with successors, values used across "
        "blocks and regions, spare detached parts) followed by 1–60 calls drawn from 58 kinds, 80 % valid-by-construction, "
        "20 % arbitrary live arguments; argument forms drawn per collection parameter (all lists with probability 0.35, "
        "seed calls 0.6); 30 % of the arbitrary-mode draws are POISONED insertions: a valid call of one of the 10 re-linking kinds "
        "that take a collection of ops/blocks, with one arbitrary live object inserted at a non-first position (raises after the "
        "elements before it were inserted when that object is attached elsewhere, repeated, or a container of the destination). "
        "States left by raising re-linking calls are judged (enumeration: every ≤2-element collection incl. [detached, attached]). "
        "Non-trivial = at least one successful call after the seed prefix changed an "
        "observation (random) / the enumerated call succeeded (enumeration); distinct = distinct call list."
    ),
    "trusted_base": [
        "correspondence harness harness/props/c01.py (differential, enumerated + random histories)",
        "hand-written Lean model XdslModel/{DLL,IRStore}.lean of xdsl/ir/core.py, rewriter.py, pattern_rewriter.py",
    ],
    "budget": {"quick": 50, "thorough": 1000},
}

E_BASE = 1_000_000  # id of the ErasedSSAValue standing for value k is E_BASE + k


class BadRef(Exception):
    """A call names an object that does not exist (any more) or re-uses an id: the call is not
    executed at all (only happens in shrunk histories)."""

# ---------------------------------------------------------------------------------------------
# Signatures of the calls (argument kinds).  O/B/R/V: existing op/block/region/value id;
# NO/NB/NR/NV: id of the object the call creates; xL: list; I: int; S: safe_erase flag;
# BS/OS: [list, single] (single → the object itself is passed instead of a list);
# IP: insert point ["before"|"after", op] | ["start"|"end", block]; IPN: IP or None;
# BIP: block insert point ["before"|"after", block] | ["start"|"end", region];
# VNL: None | list of (value id | None); MODE: predicate of replace_uses_with_if; KIND: op class.
# ---------------------------------------------------------------------------------------------
SIG: dict[str, tuple[str, ...]] = {
    "new_op": ("NO", "KIND", "NVL", "VL", "BL", "RL"),
    "new_block": ("NB", "NVL", "OL"),
    "new_region": ("NR", "BL"),
    # Block
    "insert_op_before": ("B", "O", "O"),
    "insert_op_after": ("B", "O", "O"),
    "add_op": ("B", "O"),
    "add_ops": ("B", "OL"),
    "insert_ops_before": ("B", "OL", "O"),
    "insert_ops_after": ("B", "OL", "O"),
    "detach_op": ("B", "O"),
    "erase_op": ("B", "O", "S"),
    "split_before": ("B", "O", "NB", "NVL"),
    "insert_arg": ("B", "I", "NV"),
    "erase_arg": ("B", "V", "S"),
    "block_erase": ("B", "S"),
    # Region
    "add_block": ("R", "BS"),
    "insert_block_before": ("R", "BS", "B"),
    "insert_block_after": ("R", "BS", "B"),
    "insert_block": ("R", "BS", "I"),
    "detach_block": ("R", "B"),
    "detach_block_idx": ("R", "I"),
    "erase_block": ("R", "B", "S"),
    "erase_block_idx": ("R", "I", "S"),
    "move_blocks": ("R", "R"),
    "move_blocks_before": ("R", "B"),
    "region_erase": ("R",),
    # Operation
    "op_detach": ("O",),
    "op_erase": ("O", "S"),
    "drop_all_references": ("O",),
    "set_operand": ("O", "I", "V"),
    "set_operands": ("O", "VL"),
    "set_successor": ("O", "I", "B"),
    "set_successors": ("O", "BL"),
    "add_region": ("O", "R"),
    "detach_region": ("O", "R"),
    "detach_region_idx": ("O", "I"),
    # SSAValue
    "replace_all_uses_with": ("V", "V"),
    "replace_uses_with_if": ("V", "V", "MODE"),
    # Rewriter
    "rw_erase_op": ("O", "S"),
    "rw_replace_op": ("O", "OS", "VNL", "S"),
    "rw_replace_value_with_new_type": ("V", "NV"),
    "rw_inline_block": ("B", "IP", "VL"),
    "rw_insert_block": ("BS", "BIP"),
    "rw_insert_op": ("OS", "IP"),
    "rw_move_region_contents_to_new_regions": ("R", "NR"),
    "rw_inline_region": ("R", "BIP"),
    # PatternRewriter (first argument: the rewriter's current operation)
    "pr_insert": ("O", "OS", "IPN"),
    "pr_erase": ("O", "O", "S"),
    "pr_replace_all_uses_with": ("O", "V", "VN", "S"),
    "pr_replace_uses_with_if": ("O", "V", "V", "MODE"),
    "pr_replace": ("O", "O", "OS", "VNL", "S"),
    "pr_replace_value_with_new_type": ("O", "V", "NV"),
    "pr_insert_block_argument": ("O", "B", "I", "NV"),
    "pr_erase_block_argument": ("O", "V", "S"),
    "pr_inline_block": ("O", "B", "IP", "VL"),
    "pr_move_region_contents_to_new_regions": ("O", "R", "NR"),
    "pr_inline_region": ("O", "R", "BIP"),
    "pr_create_block": ("O", "BIP", "NB", "NVL"),
}

CALL_SITE = {
    "new_op": "xdsl.ir.core.Operation.create", "new_block": "xdsl.ir.core.Block.__init__",
    "new_region": "xdsl.ir.core.Region.__init__",
    "insert_op_before": "xdsl.ir.core.Block.insert_op_before", "insert_op_after": "xdsl.ir.core.Block.insert_op_after",
    "add_op": "xdsl.ir.core.Block.add_op", "add_ops": "xdsl.ir.core.Block.add_ops",
    "insert_ops_before": "xdsl.ir.core.Block.insert_ops_before", "insert_ops_after": "xdsl.ir.core.Block.insert_ops_after",
    "detach_op": "xdsl.ir.core.Block.detach_op", "erase_op": "xdsl.ir.core.Block.erase_op",
    "split_before": "xdsl.ir.core.Block.split_before", "insert_arg": "xdsl.ir.core.Block.insert_arg",
    "erase_arg": "xdsl.ir.core.Block.erase_arg", "block_erase": "xdsl.ir.core.Block.erase",
    "add_block": "xdsl.ir.core.Region.add_block", "insert_block_before": "xdsl.ir.core.Region.insert_block_before",
    "insert_block_after": "xdsl.ir.core.Region.insert_block_after", "insert_block": "xdsl.ir.core.Region.insert_block",
    "detach_block": "xdsl.ir.core.Region.detach_block", "detach_block_idx": "xdsl.ir.core.Region.detach_block",
    "erase_block": "xdsl.ir.core.Region.erase_block", "erase_block_idx": "xdsl.ir.core.Region.erase_block",
    "move_blocks": "xdsl.ir.core.Region.move_blocks", "move_blocks_before": "xdsl.ir.core.Region.move_blocks_before",
    "region_erase": "xdsl.ir.core.Region.erase", "op_detach": "xdsl.ir.core.Operation.detach",
    "op_erase": "xdsl.ir.core.Operation.erase", "drop_all_references": "xdsl.ir.core.Operation.drop_all_references",
    "set_operand": "xdsl.ir.core.OpOperands.__setitem__", "set_operands": "xdsl.ir.core.Operation.operands",
    "set_successor": "xdsl.ir.core.OpSuccessors.__setitem__", "set_successors": "xdsl.ir.core.Operation.successors",
    "add_region": "xdsl.ir.core.Operation.add_region", "detach_region": "xdsl.ir.core.Operation.detach_region",
    "detach_region_idx": "xdsl.ir.core.Operation.detach_region",
    "replace_all_uses_with": "xdsl.ir.core.SSAValue.replace_all_uses_with",
    "replace_uses_with_if": "xdsl.ir.core.SSAValue.replace_uses_with_if",
    "rw_erase_op": "xdsl.rewriter.Rewriter.erase_op", "rw_replace_op": "xdsl.rewriter.Rewriter.replace_op",
    "rw_replace_value_with_new_type": "xdsl.rewriter.Rewriter.replace_value_with_new_type",
    "rw_inline_block": "xdsl.rewriter.Rewriter.inline_block", "rw_insert_block": "xdsl.rewriter.Rewriter.insert_block",
    "rw_insert_op": "xdsl.rewriter.Rewriter.insert_op",
    "rw_move_region_contents_to_new_regions": "xdsl.rewriter.Rewriter.move_region_contents_to_new_regions",
    "rw_inline_region": "xdsl.rewriter.Rewriter.inline_region",
    "pr_insert": "xdsl.pattern_rewriter.PatternRewriter.insert", "pr_erase": "xdsl.pattern_rewriter.PatternRewriter.erase",
    "pr_replace_all_uses_with": "xdsl.pattern_rewriter.PatternRewriter.replace_all_uses_with",
    "pr_replace_uses_with_if": "xdsl.pattern_rewriter.PatternRewriter.replace_uses_with_if",
    "pr_replace": "xdsl.pattern_rewriter.PatternRewriter.replace",
    "pr_replace_value_with_new_type": "xdsl.pattern_rewriter.PatternRewriter.replace_value_with_new_type",
    "pr_insert_block_argument": "xdsl.pattern_rewriter.PatternRewriter.insert_block_argument",
    "pr_erase_block_argument": "xdsl.pattern_rewriter.PatternRewriter.erase_block_argument",
    "pr_inline_block": "xdsl.pattern_rewriter.PatternRewriter.inline_block",
    "pr_move_region_contents_to_new_regions": "xdsl.pattern_rewriter.PatternRewriter.move_region_contents_to_new_regions",
    "pr_inline_region": "xdsl.pattern_rewriter.PatternRewriter.inline_region",
    "pr_create_block": "xdsl.builder.Builder.create_block",
}
assert set(CALL_SITE) == set(SIG)

# ---------------------------------------------------------------------------------------------
# Argument forms.  Every parameter that takes a collection, with its DECLARED type in xdsl
# (ir/core.py, rewriter.py, builder.py, pattern_rewriter.py):  "I" = Iterable[X],
# "Q" = Sequence[X], a trailing "1" = `X | Iterable[X]` / `X | Sequence[X]` (the object itself
# may be passed).  Key = position in SIG[name].  A call may end with one extra element, the list
# of forms of these parameters (in position order); without it every collection is a `list`.
# The form is a Python-level matter only: the Lean model receives the element list.
#   list/tuple  the builtin sequences          seq   a minimal collections.abc.Sequence subclass
#   gen         a generator expression         iter  iter(list)        map  a map object
#   view        re-iterable Iterable without __len__/__getitem__       single  the object itself
# gen/iter/map are ONE-SHOT: a second pass over them yields nothing.
# ---------------------------------------------------------------------------------------------
COLL: dict[str, dict[int, str]] = {
    "new_op": {2: "Q", 3: "Q", 4: "Q", 5: "Q"},  # Operation.create(result_types, operands, successors, regions)
    "new_block": {1: "I", 2: "I"},               # Block(ops: Iterable, arg_types: Iterable)
    "new_region": {1: "I1"},                     # Region(blocks: Block | Iterable[Block])
    "add_ops": {1: "I"}, "insert_ops_before": {1: "Q"}, "insert_ops_after": {1: "Q"},
    "split_before": {3: "I"},                    # arg_types: Iterable[Attribute]
    "add_block": {1: "I1"}, "insert_block_before": {1: "I1"}, "insert_block_after": {1: "I1"}, "insert_block": {1: "I1"},
    "set_operands": {1: "Q"}, "set_successors": {1: "Q"},
    "rw_replace_op": {1: "Q1", 2: "Q"}, "rw_inline_block": {2: "Q"}, "rw_insert_block": {0: "I1"}, "rw_insert_op": {0: "Q1"},
    "pr_insert": {1: "Q1"}, "pr_replace": {2: "Q1", 3: "Q"}, "pr_inline_block": {3: "Q"},
    "pr_create_block": {3: "I"},                 # arg_types: Iterable[Attribute]
}
_COLL_CODES = ("OL", "BL", "RL", "VL", "NVL", "BS", "OS", "VNL")
for _n, _sig in SIG.items():  # no collection parameter of any modelled call is left without a declared type
    assert {i for i, c in enumerate(_sig) if c in _COLL_CODES} == set(COLL.get(_n, {})), _n
    assert all((_sig[i] in ("BS", "OS")) == (d.endswith("1") and _n != "new_region") for i, d in COLL.get(_n, {}).items()), _n
FORMS = {"I": ("list", "tuple", "seq", "view", "gen", "iter", "map"), "Q": ("list", "tuple", "seq")}
ONE_SHOT = ("gen", "iter", "map")


def _seq_class() -> Any:
    import collections.abc

    class Seq(collections.abc.Sequence):  # what the declared type `Sequence[X]` promises, nothing more
        def __init__(self, xs: Any) -> None:
            self._xs = tuple(xs)

        def __getitem__(self, i: Any) -> Any:
            return self._xs[i]

        def __len__(self) -> int:
            return len(self._xs)

    return Seq


class View:  # what `Iterable[X]` promises: __iter__ (here: re-iterable), no len(), no indexing
    def __init__(self, xs: Any) -> None:
        self._xs = tuple(xs)

    def __iter__(self) -> Any:
        return iter(self._xs)


_SEQ: Any = None


def wrap(form: str, xs: list[Any]) -> Any:
    """the elements `xs` as an argument of the given form"""
    global _SEQ
    if form == "list":
        return list(xs)
    if form == "tuple":
        return tuple(xs)
    if form == "seq":
        _SEQ = _SEQ or _seq_class()
        return _SEQ(xs)
    if form == "view":
        return View(xs)
    if form == "gen":
        return (x for x in list(xs))
    if form == "iter":
        return iter(list(xs))
    if form == "map":
        return map(lambda x: x, list(xs))
    raise BadRef(f"form {form}")


def split_forms(call: list[Any]) -> tuple[list[Any], list[str] | None]:
    """(call without the trailing form list, forms or None); raises BadRef when malformed"""
    sig = SIG.get(call[0]) if call and isinstance(call[0], str) else None
    if sig is None:
        raise BadRef("unknown call")
    if len(call) == len(sig) + 1:
        return call, None
    coll = COLL.get(call[0], {})
    forms = call[-1]
    if len(call) != len(sig) + 2 or not coll or not isinstance(forms, list) or len(forms) != len(coll):
        raise BadRef("arity")
    for pos, f in zip(sorted(coll), forms):
        legal = FORMS[coll[pos][0]] + (("single",) if call[0] == "new_region" else ())
        if f not in legal:
            raise BadRef(f"form {f} is not an instance of the declared type of parameter {pos} of {call[0]}")
    return call[:-1], list(forms)


def forms_of(call: list[Any]) -> list[str]:
    """non-list forms the call passes (the `single` flag of BS/OS parameters included)"""
    try:
        plain, forms = split_forms(call)
    except BadRef:
        return []
    out = [f for f in (forms or []) if f != "list"]
    out += ["single" for c, a in zip(SIG[plain[0]], plain[1:]) if c in ("BS", "OS") and isinstance(a, list) and len(a) == 2 and a[1]]
    return out


def strip_forms(call: list[Any]) -> list[Any]:
    try:
        return split_forms(call)[0]
    except BadRef:
        return call


# ---------------------------------------------------------------------------------------------
# World: the real xDSL objects of one history, by id
# ---------------------------------------------------------------------------------------------
# ---------------------------------------------------------------------------------------------
# Calls that only RE-LINK existing objects: nothing is created (a constructor-like call that raises
# leaves a half-built object the harness cannot name) and nothing is erased (a half-erased object is
# neither live nor erased, and calls on erased objects are outside the contract).  Derived from SIG:
# no created-object code, no safe_erase flag, not one of the four erasing kinds without a flag.
# When such a call raises, every object is still known and live, so the whole-tree invariant walk
# means exactly what it means after a successful call: the state a raising re-linking call leaves
# behind IS judged ("calls that raise are skipped": the history without the call must have led to a
# consistent IR, and this is the IR the next call starts from), and the history goes on.
# ---------------------------------------------------------------------------------------------
_CREATES = ("NO", "NB", "NR", "NV", "NVL")
_ERASES_WITHOUT_FLAG = ("region_erase", "drop_all_references", "rw_inline_block", "pr_inline_block")
RELINK = frozenset(n for n, sig in SIG.items()
                   if not any(c in _CREATES or c == "S" for c in sig) and n not in _ERASES_WITHOUT_FLAG)
POISONABLE = sorted(n for n in RELINK if any(c in ("OL", "OS", "BS") for c in SIG[n]))
assert {"add_ops", "insert_ops_before", "insert_ops_after", "add_block", "insert_block_before", "insert_block",
        "rw_insert_op", "rw_insert_block", "pr_insert", "move_blocks", "rw_inline_region", "set_operands"} <= RELINK
assert not RELINK & {"new_op", "new_block", "new_region", "erase_op", "erase_arg", "op_erase", "rw_replace_op",
                     "pr_replace", "split_before", "insert_arg", "rw_replace_value_with_new_type"}


class World:
    def __init__(self) -> None:
        self.o: dict[int, Any] = {}
        self.b: dict[int, Any] = {}
        self.r: dict[int, Any] = {}
        self.v: dict[int, Any] = {}
        self.names: dict[int, tuple[str, int]] = {}  # id(obj) -> (kind, k); objects are kept alive by the dicts
        self.dead: set[tuple[str, int]] = set()

    def reg(self, kind: str, k: int, obj: Any) -> None:
        getattr(self, kind)[k] = obj
        self.names[id(obj)] = (kind, k)

    def key(self, obj: Any) -> tuple[str, int] | None:
        return None if obj is None else self.names.get(id(obj), ("?", 0))

    def nm(self, obj: Any) -> str:
        if obj is None:
            return "-"
        kk = self.names.get(id(obj))
        return "?" if kk is None else f"{kk[0]}{kk[1]}"

    def is_live(self, obj: Any) -> bool:
        kk = self.names.get(id(obj))
        return kk is not None and kk not in self.dead

    def live(self, kind: str) -> list[Any]:
        d = getattr(self, kind)
        return [d[k] for k in sorted(d) if (kind, k) not in self.dead]

    def live_ids(self, kind: str) -> list[int]:
        d = getattr(self, kind)
        return [k for k in sorted(d) if (kind, k) not in self.dead]

    def size(self) -> int:
        return len(self.o) + len(self.b) + len(self.r) + len(self.v)


def _bounded(it: Any, lim: int = 0) -> list[Any]:
    """list(it), cut at the first repeated object (a corrupted intrusive list may be cyclic); a
    cut list ends with the repeated object, so it has a duplicate"""
    out: list[Any] = []
    seen: set[int] = set()
    for x in it:
        out.append(x)
        if id(x) in seen:
            break
        seen.add(id(x))
    return out


def subtree(root: Any) -> list[Any]:
    """All ops, blocks, regions, result values and block arguments below `root` (inclusive);
    tolerant of cycles."""
    from xdsl.ir import Block, Operation, Region

    out, seen, todo = [], set(), [root]
    while todo and len(out) < 100000:
        x = todo.pop()
        if id(x) in seen:
            continue
        seen.add(id(x))
        out.append(x)
        if isinstance(x, Operation):
            out.extend(x.results)
            todo.extend(x.regions)
        elif isinstance(x, Block):
            out.extend(x.args)
            todo.extend(_bounded(x.ops, 100000))
        elif isinstance(x, Region):
            todo.extend(_bounded(x.blocks, 100000))
    return out


def is_ancestor(a: Any, x: Any) -> bool:
    """`a` is `x` or a (transitive) container of `x`; bounded walk up the parent pointers."""
    n = 0
    while x is not None and n < 100000:
        if x is a:
            return True
        x = x.parent
        n += 1
    return False


# ---------------------------------------------------------------------------------------------
# Executor: one call on the real objects
# ---------------------------------------------------------------------------------------------
class Exec:
    def __init__(self, W: World) -> None:
        self.W = W
        self.raised_while_formatting = 0
        self._tform = "list"  # form of the `arg_types` / `result_types` collection of the current call

    def _types(self, n: int) -> Any:
        from xdsl.dialects.builtin import i32

        return wrap(self._tform, [i32] * n)

    # -- decoding (everything is decoded before anything is mutated) -----------------------
    def _get(self, kind: str, k: Any) -> Any:
        d = getattr(self.W, kind)
        if not isinstance(k, int) or isinstance(k, bool) or k not in d or (kind, k) in self.W.dead:
            raise BadRef(f"{kind}{k}")
        return d[k]

    def _fresh(self, kind: str, k: Any) -> int:
        if not isinstance(k, int) or isinstance(k, bool) or k < 0 or k >= E_BASE or k in getattr(self.W, kind):
            raise BadRef(f"id {kind}{k} not fresh")
        return k

    def _fresh_list(self, kind: str, ks: Any) -> list[int]:
        ks = [self._fresh(kind, k) for k in ks]
        if len(set(ks)) != len(ks):
            raise BadRef("duplicate fresh ids")
        return ks

    def dec(self, code: str, a: Any) -> Any:
        W = self.W
        if code in ("O", "B", "R", "V"):
            return self._get(code.lower(), a)
        if code in ("OL", "BL", "RL", "VL"):
            return [self._get(code[0].lower(), k) for k in a]
        if code in ("NO", "NB", "NR", "NV"):
            return self._fresh(code[1].lower(), a)
        if code == "NVL":
            return self._fresh_list("v", a)
        if code in ("I",):
            if not isinstance(a, int):
                raise BadRef("int expected")
            return a
        if code == "S":
            return bool(a)
        if code in ("BS", "OS"):
            objs = [self._get(code[0].lower(), k) for k in a[0]]
            if a[1]:
                if len(objs) != 1:
                    raise BadRef("single needs one object")
                return objs[0]
            return objs
        if code in ("IP", "IPN"):
            if a is None:
                if code == "IPN":
                    return None
                raise BadRef("insert point expected")
            return (a[0], self._get("o" if a[0] in ("before", "after") else "b", a[1]))
        if code == "BIP":
            return (a[0], self._get("b" if a[0] in ("before", "after") else "r", a[1]))
        if code == "VN":
            return None if a is None else self._get("v", a)
        if code == "VNL":
            return None if a is None else [None if k is None else self._get("v", k) for k in a]
        if code == "MODE":
            if a not in ("all", "none", "even", "odd"):
                raise BadRef("mode")
            return a
        if code == "KIND":
            if a not in ("op", "term", "module"):
                raise BadRef("kind")
            return a
        raise BadRef(code)

    @staticmethod
    def _ip(ip: tuple[str, Any]) -> Any:
        from xdsl.rewriter import InsertPoint

        return {"before": InsertPoint.before, "after": InsertPoint.after,
                "start": InsertPoint.at_start, "end": InsertPoint.at_end}[ip[0]](ip[1])

    @staticmethod
    def _bip(ip: tuple[str, Any]) -> Any:
        from xdsl.rewriter import BlockInsertPoint

        return {"before": BlockInsertPoint.before, "after": BlockInsertPoint.after,
                "start": BlockInsertPoint.at_start, "end": BlockInsertPoint.at_end}[ip[0]](ip[1])

    @staticmethod
    def _pred(mode: str) -> Any:
        return {"all": lambda u: True, "none": lambda u: False,
                "even": lambda u: u.index % 2 == 0, "odd": lambda u: u.index % 2 == 1}[mode]

    def _kill(self, objs: list[Any]) -> None:
        for x in objs:
            kk = self.W.names.get(id(x))
            if kk is not None:
                self.W.dead.add(kk)

    def _reg_block(self, k: int, blk: Any, argids: list[int]) -> None:
        self.W.reg("b", k, blk)
        for vid, a in zip(argids, blk.args):
            self.W.reg("v", vid, a)

    def sync_erased(self) -> None:
        """Name ErasedSSAValues that became visible in operand lists: E_BASE + id of the old value."""
        from xdsl.ir import ErasedSSAValue

        W = self.W
        for op in W.live("o"):
            for v in op.operands:
                if id(v) not in W.names and isinstance(v, ErasedSSAValue):
                    old = W.names.get(id(v.old_value))
                    if old is not None and old[0] == "v" and E_BASE + old[1] not in W.v:
                        W.reg("v", E_BASE + old[1], v)

    # -- run ------------------------------------------------------------------------------
    def run(self, call: list[Any]) -> str:
        """returns 'ok' | 'raise <Exc>' | 'badref'"""
        try:
            call, forms = split_forms(call)
            name = call[0]
            sig = SIG[name]
            args = [self.dec(c, a) for c, a in zip(sig, call[1:])]
            self._tform = "list"
            if forms is not None:
                # every collection goes in as the drawn instance of its declared type (decoding is
                # complete at this point: nothing has been mutated or consumed yet)
                for pos, f in zip(sorted(COLL[name]), forms):
                    if sig[pos] == "NVL":
                        self._tform = f  # the list of types is built by the c_ method: see `_types`
                    elif isinstance(args[pos], list):  # (not: None, or the single object of BS/OS)
                        if f == "single":
                            if len(args[pos]) != 1:
                                raise BadRef("single needs one object")
                            args[pos] = args[pos][0]
                        else:
                            args[pos] = wrap(f, args[pos])
        except (BadRef, TypeError, IndexError, KeyError):
            return "badref"
        try:
            getattr(self, "c_" + name)(*args)
        except BadRef:
            return "badref"
        except Exception as e:  # noqa: BLE001
            # `SSAValue.erase` builds its ValueError message by printing the (half-erased) owner; when the
            # printer itself fails the class that surfaces is the printer's.  The call raised either way;
            # report the primary exception so that the class can still be compared with the model.
            tb, in_printer = e.__traceback__, False
            while tb is not None:
                in_printer = in_printer or tb.tb_frame.f_code.co_filename.endswith("xdsl/printer.py")
                tb = tb.tb_next
            if in_printer:
                self.raised_while_formatting += 1
                return "raise ValueError"
            return "raise " + type(e).__name__
        self.sync_erased()
        return "ok"

    # -- constructors ---------------------------------------------------------------------
    def c_new_op(self, k, kind, res, operands, succs, regions):
        from xdsl.dialects.builtin import ModuleOp, i32
        from xdsl.dialects.test import TestOp, TestTermOp

        cls = {"op": TestOp, "term": TestTermOp, "module": ModuleOp}[kind]
        op = cls.create(operands=operands, result_types=self._types(len(res)), successors=succs, regions=regions)
        self.W.reg("o", k, op)
        for vid, r in zip(res, op.results):
            self.W.reg("v", vid, r)

    def c_new_block(self, k, argids, ops):
        from xdsl.dialects.builtin import i32
        from xdsl.ir import Block

        self._reg_block(k, Block(ops, arg_types=self._types(len(argids))), argids)

    def c_new_region(self, k, blocks):
        from xdsl.ir import Region

        self.W.reg("r", k, Region(blocks))

    # -- Block ----------------------------------------------------------------------------
    def c_insert_op_before(self, b, new, ex): b.insert_op_before(new, ex)
    def c_insert_op_after(self, b, new, ex): b.insert_op_after(new, ex)
    def c_add_op(self, b, o): b.add_op(o)
    def c_add_ops(self, b, ops): b.add_ops(ops)
    def c_insert_ops_before(self, b, ops, ex): b.insert_ops_before(ops, ex)
    def c_insert_ops_after(self, b, ops, ex): b.insert_ops_after(ops, ex)
    def c_detach_op(self, b, o): b.detach_op(o)

    def c_erase_op(self, b, o, safe):
        dying = subtree(o)
        b.erase_op(o, safe_erase=safe)
        self._kill(dying)

    def c_split_before(self, b, o, nb, argids):
        from xdsl.dialects.builtin import i32

        self._reg_block(nb, b.split_before(o, arg_types=self._types(len(argids))), argids)

    def c_insert_arg(self, b, idx, nv):
        from xdsl.dialects.builtin import i32

        self.W.reg("v", nv, b.insert_arg(i32, idx))

    def c_erase_arg(self, b, v, safe):
        from xdsl.ir import BlockArgument

        if not isinstance(v, BlockArgument):
            raise BadRef("not a block argument")  # outside the method's typed signature
        b.erase_arg(v, safe_erase=safe)
        self._kill([v])

    def c_block_erase(self, b, safe):
        dying = subtree(b)
        b.erase(safe_erase=safe)
        self._kill(dying)

    # -- Region ---------------------------------------------------------------------------
    def c_add_block(self, r, bs): r.add_block(bs)
    def c_insert_block_before(self, r, bs, t): r.insert_block_before(bs, t)
    def c_insert_block_after(self, r, bs, t): r.insert_block_after(bs, t)
    def c_insert_block(self, r, bs, idx): r.insert_block(bs, idx)
    def c_detach_block(self, r, b): r.detach_block(b)
    def c_detach_block_idx(self, r, idx): r.detach_block(idx)

    def c_erase_block(self, r, b, safe):
        dying = subtree(b)
        r.erase_block(b, safe_erase=safe)
        self._kill(dying)

    def c_erase_block_idx(self, r, idx, safe):
        blocks = _bounded(r.blocks, 100000)
        dying = subtree(blocks[idx]) if -len(blocks) <= idx < len(blocks) else []
        r.erase_block(idx, safe_erase=safe)
        self._kill(dying)

    def c_move_blocks(self, r, dst): r.move_blocks(dst)
    def c_move_blocks_before(self, r, t): r.move_blocks_before(t)

    def c_region_erase(self, r):
        dying = subtree(r)
        r.erase()
        self._kill(dying)

    # -- Operation ------------------------------------------------------------------------
    def c_op_detach(self, o): o.detach()

    def c_op_erase(self, o, safe):
        dying = subtree(o)
        o.erase(safe_erase=safe)
        self._kill(dying)

    def c_drop_all_references(self, o):
        dying = subtree(o)
        o.drop_all_references()
        self._kill(dying)

    def c_set_operand(self, o, i, v): o.operands[i] = v
    def c_set_operands(self, o, vs): o.operands = vs
    def c_set_successor(self, o, i, b): o.successors[i] = b
    def c_set_successors(self, o, bs): o.successors = bs
    def c_add_region(self, o, r): o.add_region(r)
    def c_detach_region(self, o, r): o.detach_region(r)
    def c_detach_region_idx(self, o, i): o.detach_region(i)

    # -- SSAValue -------------------------------------------------------------------------
    def c_replace_all_uses_with(self, v, w): v.replace_all_uses_with(w)
    def c_replace_uses_with_if(self, v, w, mode): v.replace_uses_with_if(w, self._pred(mode))

    # -- Rewriter -------------------------------------------------------------------------
    def c_rw_erase_op(self, o, safe):
        from xdsl.rewriter import Rewriter

        dying = subtree(o)
        Rewriter.erase_op(o, safe_erase=safe)
        self._kill(dying)

    def c_rw_replace_op(self, o, new_ops, new_results, safe):
        from xdsl.rewriter import Rewriter

        dying = subtree(o)
        Rewriter.replace_op(o, new_ops, new_results, safe_erase=safe)
        self._kill(dying)

    def _new_type_value(self, v, nv, fn):
        from xdsl.dialects.builtin import i64

        new = fn(v, i64)
        self._kill([v])
        self.W.reg("v", nv, new)

    def c_rw_replace_value_with_new_type(self, v, nv):
        from xdsl.rewriter import Rewriter

        self._new_type_value(v, nv, Rewriter.replace_value_with_new_type)

    @staticmethod
    def _inline_dying(src, ip):
        # the source block is erased; its ops move out and survive -- unless the block is inlined
        # at its own end, in which case they are put back and erased with it
        dest = ip[1].parent if ip[0] in ("before", "after") else ip[1]
        return subtree(src) if dest is src else [src, *src.args]

    def c_rw_inline_block(self, src, ip, vals):
        from xdsl.rewriter import Rewriter

        dying = self._inline_dying(src, ip)
        Rewriter.inline_block(src, self._ip(ip), vals if len(vals) else ())  # "no replacement values" is `()`
        self._kill(dying)

    def c_rw_insert_block(self, bs, bip):
        from xdsl.rewriter import Rewriter

        Rewriter.insert_block(bs, self._bip(bip))

    def c_rw_insert_op(self, ops, ip):
        from xdsl.rewriter import Rewriter

        Rewriter.insert_op(ops, self._ip(ip))

    def c_rw_move_region_contents_to_new_regions(self, r, nr):
        from xdsl.rewriter import Rewriter

        self.W.reg("r", nr, Rewriter.move_region_contents_to_new_regions(r))

    def c_rw_inline_region(self, r, bip):
        from xdsl.rewriter import Rewriter

        Rewriter.inline_region(r, self._bip(bip))

    # -- PatternRewriter ------------------------------------------------------------------
    @staticmethod
    def _pr(cur):
        from xdsl.pattern_rewriter import PatternRewriter

        return PatternRewriter(cur)

    def c_pr_insert(self, cur, ops, ip):
        self._pr(cur).insert(ops, None if ip is None else self._ip(ip))

    def c_pr_erase(self, cur, o, safe):
        dying = subtree(o)
        self._pr(cur).erase(o, safe_erase=safe)
        self._kill(dying)

    def c_pr_replace_all_uses_with(self, cur, v, w, safe):
        self._pr(cur).replace_all_uses_with(v, w, safe_erase=safe)
        if w is None and v is not None:
            self._kill([v])  # the value was erased (its owner still lists it)

    def c_pr_replace_uses_with_if(self, cur, v, w, mode):
        self._pr(cur).replace_uses_with_if(v, w, self._pred(mode))

    def c_pr_replace(self, cur, o, new_ops, new_results, safe):
        dying = subtree(o)
        self._pr(cur).replace(o, new_ops, new_results, safe_erase=safe)
        self._kill(dying)

    def c_pr_replace_value_with_new_type(self, cur, v, nv):
        self._new_type_value(v, nv, self._pr(cur).replace_value_with_new_type)

    def c_pr_insert_block_argument(self, cur, b, idx, nv):
        from xdsl.dialects.builtin import i32

        self.W.reg("v", nv, self._pr(cur).insert_block_argument(b, idx, i32))

    def c_pr_erase_block_argument(self, cur, v, safe):
        from xdsl.ir import BlockArgument

        if not isinstance(v, BlockArgument):
            raise BadRef("not a block argument")
        self._pr(cur).erase_block_argument(v, safe_erase=safe)
        self._kill([v])

    def c_pr_inline_block(self, cur, src, ip, vals):
        dying = self._inline_dying(src, ip)
        self._pr(cur).inline_block(src, self._ip(ip), vals if len(vals) else ())
        self._kill(dying)

    def c_pr_move_region_contents_to_new_regions(self, cur, r, nr):
        self.W.reg("r", nr, self._pr(cur).move_region_contents_to_new_regions(r))

    def c_pr_inline_region(self, cur, r, bip):
        self._pr(cur).inline_region(r, self._bip(bip))

    def c_pr_create_block(self, cur, bip, nb, argids):
        from xdsl.dialects.builtin import i32

        self._reg_block(nb, self._pr(cur).create_block(self._bip(bip), self._types(len(argids))), argids)


# ---------------------------------------------------------------------------------------------
# Observation: the public traversals of every live object (what is compared with the model, and
# what decides whether a raising call left the state untouched)
# ---------------------------------------------------------------------------------------------
def snapshot(W: World) -> list[str]:
    from xdsl.ir import BlockArgument, OpResult

    lim = W.size() + 3
    nm = W.nm
    out: list[str] = []

    def uses(x: Any) -> str:
        ks = sorted((W.names.get(id(u.operation), ("?", -1))[1], u.index) for u in _bounded(x.uses, lim))
        return ",".join(f"o{a}:{i}" if a >= 0 else f"?:{i}" for a, i in ks)

    def names(xs: Any) -> str:
        return ",".join(nm(x) for x in xs)

    for k in W.live_ids("o"):
        op = W.o[k]
        out.append(f"o{k} parent={nm(op.parent)} next={nm(op.next_op)} prev={nm(op.prev_op)} "
                   f"operands=[{names(op.operands)}] succ=[{names(op.successors)}] regions=[{names(op.regions)}] "
                   f"results=[{','.join(f'{nm(r)}:{r.index}' for r in op.results)}]")
    for k in W.live_ids("b"):
        b = W.b[k]
        out.append(f"b{k} parent={nm(b.parent)} next={nm(b.next_block)} prev={nm(b.prev_block)} "
                   f"ops=[{names(_bounded(b.ops, lim))}] rops=[{names(_bounded(reversed(b.ops), lim))}] "
                   f"first={nm(b.first_op)} last={nm(b.last_op)} "
                   f"args=[{','.join(f'{nm(a)}:{a.index}' for a in b.args)}] uses=[{uses(b)}]")
    for k in W.live_ids("r"):
        r = W.r[k]
        out.append(f"r{k} parent={nm(r.parent)} blocks=[{names(_bounded(r.blocks, lim))}] "
                   f"rblocks=[{names(_bounded(reversed(r.blocks), lim))}] first={nm(r.first_block)} last={nm(r.last_block)}")
    for k in sorted(W.v):
        v = W.v[k]
        erased = not isinstance(v, (OpResult, BlockArgument))
        if (("v", k) in W.dead or erased) and v.first_use is None:
            continue  # (an ErasedSSAValue exists for the observer only while something uses it)
        idx = "e" if erased else v.index
        out.append(f"v{k} owner={nm(v.owner)} index={idx} uses=[{uses(v)}]")
    # blocks that are dead but still referenced as successors keep their use list observable
    for k in sorted(W.b):
        if ("b", k) in W.dead and W.b[k].first_use is not None:
            out.append(f"b{k} dead uses=[{uses(W.b[k])}]")
    return out


# ---------------------------------------------------------------------------------------------
# The oracle: whole-tree invariant walk, written from the property's sentence.
# Universe = every op/block/region created in this history and not erased.
# ---------------------------------------------------------------------------------------------
def oracle(W: World) -> list[tuple[str, str]]:
    from xdsl.ir import BlockArgument, OpResult

    bad: list[tuple[str, str]] = []
    nm = W.nm
    lim = W.size() + 3
    ops, blocks, regions = W.live("o"), W.live("b"), W.live("r")

    def chain(first: Any, step: str) -> list[Any]:
        out, x, seen = [], first, set()
        while x is not None:
            out.append(x)
            if id(x) in seen:
                break
            seen.add(id(x))
            x = getattr(x, step)
        return out

    def cyclic(xs: list[Any]) -> bool:
        return len({id(x) for x in xs}) != len(xs)

    def container_check(kind: str, conts: list[Any], members: list[Any], first: str, last: str, nxt: str, prv: str,
                        pub: Any) -> None:
        """every member is found exactly once in its container, forward and backward, and points back"""
        found: dict[int, Any] = {}
        for c in conts:
            fwd, bwd = chain(getattr(c, first), nxt), chain(getattr(c, last), prv)
            if cyclic(fwd) or cyclic(bwd):
                bad.append((f"{kind}-list", f"{nm(c)}: list does not terminate"))
                continue
            if [id(x) for x in fwd] != [id(x) for x in reversed(bwd)]:
                bad.append((f"{kind}-list", f"{nm(c)}: forward {[nm(x) for x in fwd]} is not the reverse of backward {[nm(x) for x in bwd]}"))
            pf, pb = pub(c)
            if [id(x) for x in pf] != [id(x) for x in fwd] or [id(x) for x in pb] != [id(x) for x in bwd]:
                bad.append((f"{kind}-list", f"{nm(c)}: public iteration differs from first/next chain"))
            for x in fwd:
                if id(x) in found:
                    bad.append((f"{kind}-list", f"{nm(x)} found twice (in {nm(found[id(x)])} and {nm(c)})"))
                found[id(x)] = c
                if not W.is_live(x):
                    bad.append((f"{kind}-list", f"{nm(c)} contains {nm(x)} which was erased or is unknown"))
                if x.parent is not c:
                    bad.append((f"{kind}-parent", f"{nm(x)} is in the list of {nm(c)} but its parent is {nm(x.parent)}"))
        for x in members:
            if x.parent is None:
                if getattr(x, nxt) is not None or getattr(x, prv) is not None:
                    bad.append((f"{kind}-list", f"{nm(x)} has no parent but is linked to {nm(getattr(x, prv))}/{nm(getattr(x, nxt))}"))
            elif not W.is_live(x.parent):
                bad.append((f"{kind}-parent", f"parent of {nm(x)} is {nm(x.parent)}, which was erased or is unknown"))
            elif found.get(id(x)) is not x.parent:
                bad.append((f"{kind}-parent", f"{nm(x)} has parent {nm(x.parent)} but is not in that container's list"))

    container_check("op", blocks, ops, "first_op", "last_op", "next_op", "prev_op",
                    lambda b: (_bounded(b.ops, lim), _bounded(reversed(b.ops), lim)))
    container_check("block", regions, blocks, "first_block", "last_block", "next_block", "prev_block",
                    lambda r: (_bounded(r.blocks, lim), _bounded(reversed(r.blocks), lim)))
    # regions in operations (a tuple, so "forward and backward" is the tuple itself)
    found_r: dict[int, Any] = {}
    for op in ops:
        for r in op.regions:
            if id(r) in found_r:
                bad.append(("region-list", f"{nm(r)} found twice (in {nm(found_r[id(r)])} and {nm(op)})"))
            found_r[id(r)] = op
            if not W.is_live(r):
                bad.append(("region-list", f"{nm(op)} holds region {nm(r)} which was erased or is unknown"))
            if r.parent is not op:
                bad.append(("region-parent", f"{nm(r)} is a region of {nm(op)} but its parent is {nm(r.parent)}"))
    for r in regions:
        if r.parent is not None and found_r.get(id(r)) is not r.parent:
            bad.append(("region-parent", f"{nm(r)} has parent {nm(r.parent)} but is not among that operation's regions"))

    # use lists = exactly the (user, position) pairs of the operand / successor lists of live ops
    values = W.live("v")
    opname = {id(op): op for op in ops}

    def show(c: Counter) -> list[str]:
        return sorted((nm(opname[o]) if o in opname else "<erased/unknown op>") + f":{i}" + (f" x{n}" if n > 1 else "")
                      for (o, i), n in c.items())

    for what, word, universe, positions in (
        ("use-list", "operand", values, lambda op: op.operands),
        ("block-use-list", "successor", blocks, lambda op: op.successors),
    ):
        want: dict[int, Counter] = {}
        objs: dict[int, Any] = {id(x): x for x in universe}
        for op in ops:
            for i, x in enumerate(positions(op)):
                want.setdefault(id(x), Counter())[(id(op), i)] += 1
                objs[id(x)] = x
        for xid, x in objs.items():
            us = _bounded(x.uses, lim)
            if cyclic(us):
                bad.append((what, f"use list of {nm(x)} does not terminate"))
                continue
            have = Counter((id(u.operation), u.index) for u in us)
            if have != want.get(xid, Counter()):
                bad.append((what, f"{nm(x)}: use list has {show(have)}, {word} lists have {show(want.get(xid, Counter()))}"))

    # index fields
    for op in ops:
        for i, r in enumerate(op.results):
            if r.index != i or r.owner is not op:
                bad.append(("result-index", f"result {i} of {nm(op)} ({nm(r)}) has index {r.index}, owner {nm(r.owner)}"))
    for b in blocks:
        for i, a in enumerate(b.args):
            if a.index != i or a.owner is not b:
                bad.append(("arg-index", f"argument {i} of {nm(b)} ({nm(a)}) has index {a.index}, owner {nm(a.owner)}"))
    for v in values:
        if isinstance(v, OpResult) and W.is_live(v.op):
            if not (0 <= v.index < len(v.op.results) and v.op.results[v.index] is v):
                bad.append(("result-index", f"{nm(v)} says it is result {v.index} of {nm(v.op)} but is not found there"))
        elif isinstance(v, BlockArgument) and W.is_live(v.block):
            if not (0 <= v.index < len(v.block.args) and v.block.args[v.index] is v):
                bad.append(("arg-index", f"{nm(v)} says it is argument {v.index} of {nm(v.block)} but is not found there"))
    return bad


# ---------------------------------------------------------------------------------------------
# Running a history
# ---------------------------------------------------------------------------------------------
class Runner:
    """Executes calls one by one on a fresh world; after every *successful* call the oracle is
    evaluated.  A call that raises and leaves every observation unchanged is simply skipped.  A raising
    call that changed an observation (xDSL mutates before it raises in several places):
    * a re-linking call (RELINK: creates nothing, erases nothing) — the state it leaves behind is judged
      by the oracle like the state after a successful call (the history with the raising call skipped must
      have produced consistent IR, and every later call starts from this state) and the history goes on,
      judged after every later successful call; only the comparison with the Lean model (which returns an
      error without a state) ends there (`offmodel`);
    * a creating or erasing call — the history is abandoned there (`abandoned`): it leaves a half-built
      object the harness cannot name, or a half-erased one, and nothing is judged on such a state."""

    def __init__(self, keep_obs: bool = False, quiet_prefix: int = 0) -> None:
        # the first `quiet_prefix` calls are a prefix that has been judged before (the fixed seed of the
        # enumeration): they are executed, not observed (their observation is recorded as None)
        self.quiet_prefix = quiet_prefix
        self.W = World()
        self.ex = Exec(self.W)
        self.prev: list[str] = []
        self.statuses: list[str] = []
        self.calls: list[list[Any]] = []
        self.fail: dict[str, Any] | None = None
        self.abandoned: int | None = None
        self.offmodel: int | None = None  # first raising RELINK call that changed an observation
        self.keep_obs = keep_obs
        self.obs: list[list[str] | None] = []
        self.changed = 0  # successful calls that changed some observation
        self.partial_raises = 0  # raising re-linking calls that changed some observation (their state is judged)

    @property
    def stopped(self) -> bool:
        return self.fail is not None or self.abandoned is not None

    def step(self, call: list[Any]) -> str:
        assert not self.stopped
        st = self.ex.run(call)
        self.calls.append(call)
        self.statuses.append(st)
        if st == "badref":
            self.obs.append(None)
            return st
        if st == "ok" and len(self.calls) <= self.quiet_prefix:
            if self.keep_obs:
                self.obs.append(None)
            if len(self.calls) == self.quiet_prefix:
                self.prev = snapshot(self.W)
            self.changed += 1
            return st
        complaints: list[tuple[str, str]] = []
        try:
            cur = snapshot(self.W)
        except Exception as e:  # noqa: BLE001  (a public traversal itself fails)
            cur = [f"traversal raises {type(e).__name__}: {e}"]
            complaints.append(("traversal", cur[0]))
        if self.keep_obs:
            self.obs.append(cur)
        if st != "ok":
            if cur == self.prev:
                return st
            if strip_forms(call)[0] not in RELINK:
                self.abandoned = len(self.calls) - 1
                return st
            if self.offmodel is None:
                self.offmodel = len(self.calls) - 1
            self.partial_raises += 1
            # fall through: the state left behind by the raising re-linking call is judged
        try:
            complaints.extend(oracle(self.W))
        except Exception as e:  # noqa: BLE001
            complaints.append(("traversal", f"invariant walk raises {type(e).__name__}: {e}"))
        if complaints:
            self.fail = {"step": len(self.calls) - 1, "call": call, "complaints": complaints, "state": cur, "status": st}
        if cur != self.prev and st == "ok":
            self.changed += 1
        self.prev = cur
        return st


def run_history(calls: list[list[Any]], keep_obs: bool = False, quiet_prefix: int = 0) -> Runner:
    R = Runner(keep_obs, quiet_prefix)
    for c in calls:
        if R.stopped:
            break
        R.step(c)
    return R


def has_negative_index(call: list[Any]) -> bool:
    return any(c == "I" and isinstance(a, int) and a < 0 for c, a in zip(SIG[call[0]], call[1:]))


FAMILY = {"op-list": "op-container", "op-parent": "op-container", "block-list": "block-container",
          "block-parent": "block-container", "region-list": "region-container", "region-parent": "region-container",
          "use-list": "use-list", "block-use-list": "block-use-list", "result-index": "index-field",
          "arg-index": "index-field", "traversal": "traversal"}


def base_signature(fail: dict[str, Any]) -> str:
    kinds = sorted({FAMILY[k] for k, _ in fail["complaints"]})
    return "+".join(kinds) + (" [negative index]" if has_negative_index(fail["call"]) else "")


def signature_of(fail: dict[str, Any]) -> str:
    """stable class of the defect: which part of the invariant breaks (+ whether a negative index was passed,
    + the class of argument form the failing call passes; shrinking turns every form that is not needed
    for the failure back into a list first)"""
    forms = forms_of(fail["call"])
    form = " [one-shot iterable]" if any(f in ONE_SHOT for f in forms) else (" [non-list collection]" if forms else "")
    return base_signature(fail) + form + (" [state left by a raising call]" if fail.get("status", "ok") != "ok" else "")


# ---------------------------------------------------------------------------------------------
# Contract: what the generator never does although it does not raise (stated in level_note)
# ---------------------------------------------------------------------------------------------
def contract_ok(ex: Exec, call: list[Any]) -> bool:
    name = call[0]
    try:
        a = [ex.dec(c, x) for c, x in zip(SIG[name], call[1:])]
    except Exception:  # noqa: BLE001
        return True  # not executable anyway
    if name == "drop_all_references":
        return a[0].parent is None
    if name == "move_blocks":
        return a[0] is a[1] or not is_ancestor(a[0], a[1])
    if name == "move_blocks_before":
        return a[1].parent is None or not is_ancestor(a[0], a[1].parent)
    if name in ("rw_inline_region", "pr_inline_region"):
        r, (how, x) = a[-2], a[-1]
        dst = x.parent if how in ("before", "after") else x
        return dst is None or not is_ancestor(r, dst)
    if name == "add_region":
        return a[1].parent is not None or not is_ancestor(a[1], a[0])
    return True


# ---------------------------------------------------------------------------------------------
# Generator
# ---------------------------------------------------------------------------------------------
WEIGHT = {k: 2 for k in SIG}
WEIGHT.update({"new_op": 7, "new_block": 4, "new_region": 3, "set_operand": 5, "set_successor": 4,
               "add_op": 4, "insert_op_before": 4, "insert_op_after": 4, "add_block": 3,
               "drop_all_references": 1, "region_erase": 1, "block_erase": 1, "op_erase": 1})


class Gen:
    def __init__(self, rng: Any, R: Runner) -> None:
        self.rng, self.R, self.W = rng, R, R.W
        self.next = {"o": 0, "b": 0, "r": 0, "v": 0}

    # -- helpers ---------------------------------------------------------------------------
    def new(self, kind: str) -> int:
        k = self.next[kind]
        self.next[kind] += 1
        return k

    def news(self, kind: str, n: int) -> list[int]:
        return [self.new(kind) for _ in range(n)]

    def kid(self, obj: Any) -> int:
        return self.W.names[id(obj)][1]

    def kids(self, objs: Any) -> list[int]:
        return [self.kid(x) for x in objs]

    def pick(self, xs: list[Any]) -> Any:
        return self.rng.choice(xs) if xs else None

    def some(self, xs: list[Any], lo: int, hi: int) -> list[Any]:
        """distinct elements"""
        n = min(len(xs), self.rng.randint(lo, hi))
        return self.rng.sample(xs, n)

    def ops(self) -> list[Any]: return self.W.live("o")
    def blocks(self) -> list[Any]: return self.W.live("b")
    def regions(self) -> list[Any]: return self.W.live("r")
    def vals(self) -> list[Any]: return self.W.live("v")
    def att_ops(self) -> list[Any]: return [o for o in self.ops() if o.parent is not None]
    def det_ops(self) -> list[Any]: return [o for o in self.ops() if o.parent is None]
    def att_blocks(self) -> list[Any]: return [b for b in self.blocks() if b.parent is not None]
    def det_blocks(self) -> list[Any]: return [b for b in self.blocks() if b.parent is None]
    def det_regions(self) -> list[Any]: return [r for r in self.regions() if r.parent is None]

    def ops_for(self, block: Any) -> list[Any]:
        """detached ops that may be put into `block`"""
        return [o for o in self.det_ops() if not is_ancestor(o, block)]

    def blocks_for(self, region: Any) -> list[Any]:
        return [b for b in self.det_blocks() if not is_ancestor(b, region)]

    def unused_outside(self, root: Any, tops: list[Any]) -> bool:
        """safe erasure of `root` succeeds: results of `tops` are used only inside the subtree"""
        inside = {id(x) for x in subtree(root)}
        return all(id(u.operation) in inside for t in tops for r in t.results for u in _bounded(r.uses, 10000))

    def safe_for_op(self, o: Any) -> bool:
        ok = self.unused_outside(o, [o])
        return True if ok and self.rng.random() < 0.7 else (False if not ok else self.rng.random() < 0.5)

    def safe_for_block(self, b: Any) -> bool:
        ok = self.unused_outside(b, _bounded(b.ops, 10000))
        return True if ok and self.rng.random() < 0.7 else (False if not ok else self.rng.random() < 0.5)

    def idx(self, n: int, upto: bool = False) -> int | None:
        """valid Python index into a sequence of length n (negative ones included); with `upto`
        an insertion position 0..n"""
        if upto:
            return self.rng.randint(0, n)
        return self.rng.randint(-n, n - 1) if n else None

    def ip(self, for_ops: list[Any] | None = None) -> tuple[list[Any], Any] | None:
        """a valid insert point and its block"""
        cands: list[tuple[list[Any], Any]] = []
        for o in self.att_ops():
            cands += [(["before", self.kid(o)], o.parent), (["after", self.kid(o)], o.parent)]
        for b in self.blocks():
            cands += [(["start", self.kid(b)], b), (["end", self.kid(b)], b)]
        return self.pick(cands)

    def bip(self) -> tuple[list[Any], Any] | None:
        cands: list[tuple[list[Any], Any]] = []
        for b in self.att_blocks():
            cands += [(["before", self.kid(b)], b.parent), (["after", self.kid(b)], b.parent)]
        for r in self.regions():
            cands += [(["start", self.kid(r)], r), (["end", self.kid(r)], r)]
        return self.pick(cands)

    def list_or_single(self, objs: list[Any]) -> list[Any]:
        single = len(objs) == 1 and self.rng.random() < 0.6
        return [self.kids(objs), single]

    def with_forms(self, call: list[Any], p_plain: float = 0.35) -> list[Any]:
        """draw, per collection parameter of the call, one of the instances of its declared type"""
        coll = COLL.get(call[0])
        if not coll or self.rng.random() < p_plain:
            return call
        forms = []
        for pos in sorted(coll):
            f = self.rng.choice(FORMS[coll[pos][0]])
            if call[0] == "new_region" and len(call[1 + pos]) == 1 and self.rng.random() < 0.3:
                f = "single"
            forms.append(f)
        return call if all(f == "list" for f in forms) else [*call, forms]

    # -- valid calls (preconditions satisfied) ----------------------------------------------
    def v_new_op(self):
        rng = self.rng
        res = self.news("v", rng.choice([0, 1, 1, 2, 3]))
        vals, blocks = self.vals(), self.blocks()
        operands = [rng.choice(vals) for _ in range(rng.choice([0, 0, 1, 2, 3]))] if vals else []
        succs = [rng.choice(blocks) for _ in range(rng.choice([1, 2, 3]))] if blocks and rng.random() < 0.3 else []
        regs = self.some(self.det_regions(), 1, 2) if rng.random() < 0.3 else []
        kind = "term" if succs else ("module" if not res and not operands and rng.random() < 0.5 else "op")
        return ["new_op", self.new("o"), kind, res, self.kids(operands), self.kids(succs), self.kids(regs)]

    def v_new_block(self):
        ops = self.some(self.det_ops(), 0, 2) if self.rng.random() < 0.4 else []
        return ["new_block", self.new("b"), self.news("v", self.rng.choice([0, 0, 1, 2])), self.kids(ops)]

    def v_new_region(self):
        bs = self.some(self.det_blocks(), 0, 2) if self.rng.random() < 0.5 else []
        return ["new_region", self.new("r"), self.kids(bs)]

    def _ins_op(self, name):
        ex = self.pick(self.att_ops())
        new = self.pick(self.ops_for(ex.parent)) if ex else None
        return None if new is None else [name, self.kid(ex.parent), self.kid(new), self.kid(ex)]

    def v_insert_op_before(self): return self._ins_op("insert_op_before")
    def v_insert_op_after(self): return self._ins_op("insert_op_after")

    def v_add_op(self):
        b = self.pick(self.blocks())
        o = self.pick(self.ops_for(b)) if b else None
        return None if o is None else ["add_op", self.kid(b), self.kid(o)]

    def v_add_ops(self):
        b = self.pick(self.blocks())
        return None if b is None else ["add_ops", self.kid(b), self.kids(self.some(self.ops_for(b), 0, 3))]

    def _ins_ops(self, name):
        ex = self.pick(self.att_ops())
        return None if ex is None else [name, self.kid(ex.parent), self.kids(self.some(self.ops_for(ex.parent), 0, 3)), self.kid(ex)]

    def v_insert_ops_before(self): return self._ins_ops("insert_ops_before")
    def v_insert_ops_after(self): return self._ins_ops("insert_ops_after")

    def v_detach_op(self):
        o = self.pick(self.att_ops())
        return None if o is None else ["detach_op", self.kid(o.parent), self.kid(o)]

    def v_erase_op(self):
        o = self.pick(self.att_ops())
        return None if o is None else ["erase_op", self.kid(o.parent), self.kid(o), self.safe_for_op(o)]

    def v_split_before(self):
        o = self.pick([o for o in self.att_ops() if o.parent.parent is not None])
        return None if o is None else ["split_before", self.kid(o.parent), self.kid(o), self.new("b"), self.news("v", self.rng.choice([0, 0, 1, 2]))]

    def v_insert_arg(self):
        b = self.pick(self.blocks())
        return None if b is None else ["insert_arg", self.kid(b), self.idx(len(b.args), upto=True), self.new("v")]

    def _arg(self):
        from xdsl.ir import BlockArgument

        return self.pick([v for v in self.vals() if isinstance(v, BlockArgument) and self.W.is_live(v.block)])

    def _safe_val(self, v):
        return v.first_use is None if self.rng.random() < 0.8 else False

    def v_erase_arg(self):
        a = self._arg()
        return None if a is None else ["erase_arg", self.kid(a.block), self.kid(a), self._safe_val(a)]

    def v_block_erase(self):
        b = self.pick(self.det_blocks())
        return None if b is None else ["block_erase", self.kid(b), self.safe_for_block(b)]

    def v_add_block(self):
        r = self.pick(self.regions())
        return None if r is None else ["add_block", self.kid(r), self.list_or_single(self.some(self.blocks_for(r), 0, 3))]

    def _ins_block(self, name):
        t = self.pick(self.att_blocks())
        return None if t is None else [name, self.kid(t.parent), self.list_or_single(self.some(self.blocks_for(t.parent), 0, 3)), self.kid(t)]

    def v_insert_block_before(self): return self._ins_block("insert_block_before")
    def v_insert_block_after(self): return self._ins_block("insert_block_after")

    def v_insert_block(self):
        r = self.pick(self.regions())
        if r is None:
            return None
        n = len(_bounded(r.blocks, 10000))
        return ["insert_block", self.kid(r), self.list_or_single(self.some(self.blocks_for(r), 0, 2)), self.idx(n, upto=True)]

    def v_detach_block(self):
        b = self.pick(self.att_blocks())
        return None if b is None else ["detach_block", self.kid(b.parent), self.kid(b)]

    def _region_idx(self):
        r = self.pick([r for r in self.regions() if r.first_block is not None])
        if r is None:
            return None
        bs = _bounded(r.blocks, 10000)
        i = self.idx(len(bs))
        return r, i, bs[i]

    def v_detach_block_idx(self):
        x = self._region_idx()
        return None if x is None else ["detach_block_idx", self.kid(x[0]), x[1]]

    def v_erase_block(self):
        b = self.pick(self.att_blocks())
        return None if b is None else ["erase_block", self.kid(b.parent), self.kid(b), self.safe_for_block(b)]

    def v_erase_block_idx(self):
        x = self._region_idx()
        return None if x is None else ["erase_block_idx", self.kid(x[0]), x[1], self.safe_for_block(x[2])]

    def v_move_blocks(self):
        r = self.pick(self.regions())
        d = self.pick([d for d in self.regions() if d is not r and not is_ancestor(r, d)]) if r else None
        return None if d is None else ["move_blocks", self.kid(r), self.kid(d)]

    def v_move_blocks_before(self):
        r = self.pick(self.regions())
        t = self.pick([t for t in self.att_blocks() if t.parent is not r and not is_ancestor(r, t.parent)]) if r else None
        return None if t is None else ["move_blocks_before", self.kid(r), self.kid(t)]

    def v_region_erase(self):
        r = self.pick(self.det_regions())
        return None if r is None else ["region_erase", self.kid(r)]

    def v_op_detach(self):
        o = self.pick(self.att_ops())
        return None if o is None else ["op_detach", self.kid(o)]

    def v_op_erase(self):
        o = self.pick(self.det_ops())
        return None if o is None else ["op_erase", self.kid(o), self.safe_for_op(o)]

    def v_drop_all_references(self):
        o = self.pick(self.det_ops())
        return None if o is None else ["drop_all_references", self.kid(o)]

    def v_set_operand(self):
        o = self.pick([o for o in self.ops() if len(o.operands)])
        v = self.pick(self.vals())
        return None if o is None or v is None else ["set_operand", self.kid(o), self.idx(len(o.operands)), self.kid(v)]

    def v_set_operands(self):
        o, vals = self.pick(self.ops()), self.vals()
        return None if o is None else ["set_operands", self.kid(o), self.kids([self.rng.choice(vals) for _ in range(self.rng.randint(0, 3))] if vals else [])]

    def v_set_successor(self):
        o = self.pick([o for o in self.ops() if len(o.successors)])
        b = self.pick(self.blocks())
        return None if o is None or b is None else ["set_successor", self.kid(o), self.idx(len(o.successors)), self.kid(b)]

    def v_set_successors(self):
        o, bs = self.pick(self.ops()), self.blocks()
        return None if o is None else ["set_successors", self.kid(o), self.kids([self.rng.choice(bs) for _ in range(self.rng.randint(0, 3))] if bs else [])]

    def v_add_region(self):
        o = self.pick(self.ops())
        r = self.pick([r for r in self.det_regions() if not is_ancestor(r, o)]) if o else None
        return None if r is None else ["add_region", self.kid(o), self.kid(r)]

    def v_detach_region(self):
        r = self.pick([r for r in self.regions() if r.parent is not None])
        return None if r is None else ["detach_region", self.kid(r.parent), self.kid(r)]

    def v_detach_region_idx(self):
        o = self.pick([o for o in self.ops() if len(o.regions)])
        return None if o is None else ["detach_region_idx", self.kid(o), self.idx(len(o.regions))]

    def v_replace_all_uses_with(self):
        v, w = self.pick(self.vals()), self.pick(self.vals())
        return None if v is None else ["replace_all_uses_with", self.kid(v), self.kid(w)]

    def v_replace_uses_with_if(self):
        v, w = self.pick(self.vals()), self.pick(self.vals())
        return None if v is None else ["replace_uses_with_if", self.kid(v), self.kid(w), self.rng.choice(["all", "none", "even", "odd"])]

    def v_rw_erase_op(self):
        o = self.pick(self.ops())
        return None if o is None else ["rw_erase_op", self.kid(o), self.safe_for_op(o)]

    def _replace_args(self):
        o = self.pick(self.att_ops())
        if o is None:
            return None
        rng = self.rng
        cands = self.ops_for(o.parent)
        nres = len(o.results)
        if rng.random() < 0.5:
            # results taken from the last new operation
            fitting = [c for c in cands if len(c.results) == nres]
            if fitting:
                last = rng.choice(fitting)
                new_ops = self.some([c for c in cands if c is not last], 0, 1) + [last]
            elif nres == 0:
                new_ops = []
            else:
                return None
            new_results = None
        else:
            new_ops = self.some(cands, 0, 2)
            mine = {id(r) for r in o.results}
            pool = [v for v in self.vals() if id(v) not in mine]
            if nres and not pool:
                return None
            new_results = [rng.choice(pool) for _ in range(nres)]
        safe = rng.random() < 0.7
        if new_results is not None:
            inside = {id(x) for x in subtree(o)}
            for i, r in enumerate(o.results):
                if rng.random() < 0.25 and (not safe or all(id(u.operation) in inside for u in _bounded(r.uses, 10000))):
                    new_results[i] = None
            # a None result whose uses all sit inside `o` is still refused by safe erasure (the
            # references are only dropped later), so require it to be unused
            if safe and any(x is None and o.results[i].first_use is not None for i, x in enumerate(new_results)):
                safe = False
        return [self.kid(o), [self.kids(new_ops), len(new_ops) == 1 and rng.random() < 0.5],
                None if new_results is None else [None if x is None else self.kid(x) for x in new_results], safe]

    def v_rw_replace_op(self):
        a = self._replace_args()
        return None if a is None else ["rw_replace_op", *a]

    def _typed_val(self):
        from xdsl.ir import BlockArgument, OpResult

        return self.pick([v for v in self.vals() if isinstance(v, (BlockArgument, OpResult)) and self.W.is_live(v.owner)])

    def v_rw_replace_value_with_new_type(self):
        v = self._typed_val()
        return None if v is None else ["rw_replace_value_with_new_type", self.kid(v), self.new("v")]

    def _inline_block_args(self):
        x = self.ip()
        if x is None:
            return None
        ip, dest = x
        src = self.pick([b for b in self.blocks() if b is not dest and not is_ancestor(b, dest)])
        if src is None:
            return None
        vals = self.vals()
        av = [self.rng.choice(vals) for _ in src.args] if vals and self.rng.random() < 0.6 else []
        return [self.kid(src), ip, self.kids(av)]

    def v_rw_inline_block(self):
        a = self._inline_block_args()
        return None if a is None else ["rw_inline_block", *a]

    def v_rw_insert_block(self):
        x = self.bip()
        return None if x is None else ["rw_insert_block", self.list_or_single(self.some(self.blocks_for(x[1]), 0, 2)), x[0]]

    def v_rw_insert_op(self):
        x = self.ip()
        return None if x is None else ["rw_insert_op", self.list_or_single(self.some(self.ops_for(x[1]), 0, 2)), x[0]]

    def v_rw_move_region_contents_to_new_regions(self):
        r = self.pick(self.regions())
        return None if r is None else ["rw_move_region_contents_to_new_regions", self.kid(r), self.new("r")]

    def _inline_region_args(self):
        x = self.bip()
        if x is None:
            return None
        r = self.pick([r for r in self.regions() if r is not x[1] and not is_ancestor(r, x[1])])
        return None if r is None else [self.kid(r), x[0]]

    def v_rw_inline_region(self):
        a = self._inline_region_args()
        return None if a is None else ["rw_inline_region", *a]

    # PatternRewriter wrappers
    def cur(self):
        o = self.pick(self.att_ops())
        return None if o is None else self.kid(o)

    def _pr(self, name: str, base: Any) -> Any:
        c = self.cur()
        if c is None:
            return None
        a = base()
        return None if a is None else [name, c, *a]

    def v_pr_insert(self):
        c = self.pick(self.att_ops())
        if c is None:
            return None
        if self.rng.random() < 0.5:
            return ["pr_insert", self.kid(c), self.list_or_single(self.some(self.ops_for(c.parent), 0, 2)), None]
        x = self.ip()
        return None if x is None else ["pr_insert", self.kid(c), self.list_or_single(self.some(self.ops_for(x[1]), 0, 2)), x[0]]

    def v_pr_erase(self):
        c = self.pick(self.att_ops())
        if c is None:
            return None
        o = c if self.rng.random() < 0.5 else self.pick(self.ops())
        return ["pr_erase", self.kid(c), self.kid(o), self.safe_for_op(o)]

    def v_pr_replace_all_uses_with(self):
        c, v = self.cur(), self.pick(self.vals())
        if c is None or v is None:
            return None
        if self.rng.random() < 0.25:
            return ["pr_replace_all_uses_with", c, self.kid(v), None, self._safe_val(v)]
        return ["pr_replace_all_uses_with", c, self.kid(v), self.kid(self.pick(self.vals())), True]

    def v_pr_replace_uses_with_if(self):
        return self._pr("pr_replace_uses_with_if", lambda: (self.v_replace_uses_with_if() or [None])[1:] or None)

    def v_pr_replace(self):
        a = self._replace_args()
        if a is None:
            return None
        c = a[0] if self.rng.random() < 0.5 else self.cur()
        return ["pr_replace", c, *a]

    def v_pr_replace_value_with_new_type(self):
        return self._pr("pr_replace_value_with_new_type", lambda: (self.v_rw_replace_value_with_new_type() or [None])[1:] or None)

    def v_pr_insert_block_argument(self):
        return self._pr("pr_insert_block_argument", lambda: (self.v_insert_arg() or [None])[1:] or None)

    def v_pr_erase_block_argument(self):
        a = self._arg()
        c = self.cur()
        return None if a is None or c is None else ["pr_erase_block_argument", c, self.kid(a), self._safe_val(a)]

    def v_pr_inline_block(self): return self._pr("pr_inline_block", self._inline_block_args)

    def v_pr_move_region_contents_to_new_regions(self):
        return self._pr("pr_move_region_contents_to_new_regions", lambda: (self.v_rw_move_region_contents_to_new_regions() or [None])[1:] or None)

    def v_pr_inline_region(self): return self._pr("pr_inline_region", self._inline_region_args)

    def v_pr_create_block(self):
        c, x = self.cur(), self.bip()
        return None if c is None or x is None else ["pr_create_block", c, x[0], self.new("b"), self.news("v", self.rng.choice([0, 0, 1, 2]))]

    # -- arbitrary calls: any live objects of the right kinds ------------------------------------
    def arbitrary(self, name: str) -> list[Any] | None:
        rng = self.rng
        pools = {"O": self.ops(), "B": self.blocks(), "R": self.regions(), "V": self.vals()}

        def one(code: str) -> Any:
            xs = pools[code]
            if not xs:
                raise LookupError
            return self.kid(rng.choice(xs))

        def many(code: str, hi: int = 3) -> list[int]:
            xs = pools[code]
            return [self.kid(rng.choice(xs)) for _ in range(rng.randint(0, hi))] if xs else []

        def arg(code: str) -> Any:
            if code in pools:
                return one(code)
            if code in ("OL", "BL", "RL", "VL"):
                return many(code[0])
            if code in ("NO", "NB", "NR", "NV"):
                return self.new(code[1].lower())
            if code == "NVL":
                return self.news("v", rng.choice([0, 1, 2]))
            if code == "I":
                return rng.randint(-4, 4)
            if code == "S":
                return rng.random() < 0.5
            if code in ("BS", "OS"):
                xs = many(code[0], 2)
                return [xs, len(xs) == 1 and rng.random() < 0.5]
            if code in ("IP", "IPN"):
                if code == "IPN" and rng.random() < 0.3:
                    return None
                how = rng.choice(["before", "after", "start", "end"])
                return [how, one("O" if how in ("before", "after") else "B")]
            if code == "BIP":
                how = rng.choice(["before", "after", "start", "end"])
                return [how, one("B" if how in ("before", "after") else "R")]
            if code == "VN":
                return None if rng.random() < 0.3 else one("V")
            if code == "VNL":
                return None if rng.random() < 0.4 else [None if rng.random() < 0.2 else one("V") for _ in range(rng.randint(0, 3))]
            if code == "MODE":
                return rng.choice(["all", "none", "even", "odd"])
            if code == "KIND":
                return rng.choice(["op", "term", "module"])
            raise AssertionError(code)

        try:
            call = [name, *[arg(c) for c in SIG[name]]]
        except LookupError:
            return None
        if name == "new_op" and call[2] == "module" and (call[3] or call[4] or call[5]):
            call[2] = "op"  # a builtin.module has no operands, results or successors (its printer assumes so)
        return call

    def poisoned(self) -> list[Any] | None:
        """a valid multi-object insertion (any re-linking kind that takes a collection of ops or blocks) with ONE
        arbitrary live object put at a non-first position: when that object is not acceptable (attached elsewhere,
        already in the collection, a container of the destination) the call raises after the objects before it
        have been dealt with — the state such a call leaves behind is judged (see RELINK)"""
        name = self.rng.choice(POISONABLE)
        call = getattr(self, "v_" + name)()
        if call is None:
            return None
        call = list(call)
        for pos, code in enumerate(SIG[name], start=1):
            if code in ("OL", "OS", "BS"):
                xs = list(call[pos] if code == "OL" else call[pos][0])
                pool = self.W.live_ids("b" if code == "BS" else "o")
                if not xs or not pool:
                    return None
                xs.insert(self.rng.randint(1, len(xs)), self.rng.choice(pool))
                call[pos] = xs if code == "OL" else [xs, False]
                return call
        return None

    def draw(self, p_valid: float = 0.8) -> tuple[list[Any], bool] | None:
        names = list(SIG)
        for _ in range(20):
            name = self.rng.choices(names, weights=[WEIGHT[n] for n in names])[0]
            valid = self.rng.random() < p_valid
            if not valid and self.rng.random() < 0.3:
                call = self.poisoned()
                if call is not None and contract_ok(self.R.ex, call):
                    return self.with_forms(call), False
                continue
            call = getattr(self, "v_" + name)() if valid else self.arbitrary(name)
            if call is not None and contract_ok(self.R.ex, call):
                return self.with_forms(call), valid
        return None

    # -- starting IR ---------------------------------------------------------------------------
    def seed(self, emit: Any) -> None:
        """Nested regions, multi-block CFGs with successors, values used across blocks and regions,
        plus a few detached spare parts.  `emit(call)` executes the call (all are valid)."""
        rng = self.rng
        budget = [rng.randint(4, 22)]  # ops

        def operands() -> list[int]:
            vals = self.vals()
            return self.kids([rng.choice(vals) for _ in range(rng.choice([0, 1, 1, 2, 3]))]) if vals else []

        def build_op(depth: int, succ_from: list[int], last: bool) -> int:
            regs = []
            if depth < 2 and budget[0] > 2 and rng.random() < 0.3:
                regs = [build_region(depth + 1) for _ in range(rng.choice([1, 1, 2]))]
            succs = [rng.choice(succ_from) for _ in range(rng.choice([1, 2, 2, 3]))] if last and succ_from and rng.random() < 0.6 else []
            k = self.new("o")
            budget[0] -= 1
            emit(["new_op", k, "term" if succs else "op", self.news("v", rng.choice([0, 1, 1, 2])), operands(), succs, regs])
            return k

        def build_region(depth: int) -> int:
            nb = rng.choice([1, 1, 2, 3]) if depth else rng.choice([1, 2, 3, 4])
            bids: list[int] = []
            late: list[tuple[int, list[int]]] = []
            for _ in range(nb):
                style = rng.choice(["add_op", "add_ops", "ctor"])
                if style != "ctor":
                    b = self.new("b")
                    emit(["new_block", b, self.news("v", rng.choice([0, 0, 1, 2])), []])
                    bids.append(b)
                nops = rng.randint(0, 3) if budget[0] > 0 else 0
                ops = [build_op(depth, bids, j == nops - 1) for j in range(nops)]
                if style == "ctor":
                    b = self.new("b")
                    emit(["new_block", b, self.news("v", rng.choice([0, 0, 1, 2])), ops])
                    bids.append(b)
                elif style == "add_ops":
                    emit(["add_ops", b, ops])
                else:
                    for o in ops:
                        emit(["add_op", b, o])
            r = self.new("r")
            if rng.random() < 0.5:
                emit(["new_region", r, bids])
            else:
                emit(["new_region", r, []])
                emit(["add_block", r, [bids, False]])
            return r

        top = build_region(0)
        if rng.random() < 0.7:
            emit(["new_op", self.new("o"), "module", [], [], [], [top]])
        # back edges / forward uses: retarget a few operands and successors to later definitions
        for _ in range(rng.randint(0, 4)):
            c = self.v_set_operand() if rng.random() < 0.6 else self.v_set_successor()
            if c is not None and c[2] is not None:
                emit(c)
        # spare parts
        for _ in range(rng.randint(1, 3)):
            emit(["new_op", self.new("o"), "op", self.news("v", rng.choice([0, 1, 2])), operands(), [], []])
        if rng.random() < 0.7:
            emit(["new_block", self.new("b"), self.news("v", rng.choice([0, 1])), []])
        if rng.random() < 0.5:
            emit(["new_region", self.new("r"), []])


# ---------------------------------------------------------------------------------------------
# Line protocol of the Lean model `ir_store` (lean/XdslModel/IRApi.lean)
# ---------------------------------------------------------------------------------------------
_IPK = {"before": 0, "after": 1, "start": 2, "end": 3}
_MODE = {"all": 0, "none": 1, "even": 2, "odd": 3}
_KIND = {"op": 0, "term": 1, "module": 2}


def encode(call: list[Any]) -> str:
    out: list[Any] = [call[0]]
    for code, a in zip(SIG[call[0]], call[1:]):
        if code in ("O", "B", "R", "V", "NO", "NB", "NR", "NV", "I"):
            out.append(int(a))
        elif code in ("OL", "BL", "RL", "VL", "NVL"):
            out += [len(a), *a]
        elif code == "S":
            out.append(1 if a else 0)
        elif code in ("BS", "OS"):
            out += [len(a[0]), *a[0], 1 if a[1] else 0]
        elif code in ("IP", "IPN", "BIP"):
            out += [4, 0] if a is None else [_IPK[a[0]], a[1]]
        elif code == "VN":
            out.append(-1 if a is None else a)
        elif code == "VNL":
            out += [-1] if a is None else [len(a), *[-1 if x is None else x for x in a]]
        elif code == "MODE":
            out.append(_MODE[a])
        elif code == "KIND":
            out.append(_KIND[a])
        else:
            raise AssertionError(code)
    return " ".join(map(str, out))


class Correspondence:
    """Collects histories (calls + what the real objects showed) and replays them on the Lean model."""

    def __init__(self) -> None:
        self.lines: list[str] = []
        self.expect: list[str] = []
        self.where: list[tuple[int, int]] = []  # (history number, step)
        self.histories: list[list[list[Any]]] = []

    def add(self, R: Runner) -> None:
        h = len(self.histories)
        self.histories.append(R.calls)
        self.lines.append("reset")
        self.expect.append("ok")
        self.where.append((h, -1))
        for i, (c, st) in enumerate(zip(R.calls, R.statuses)):
            if R.fail is not None and i >= R.fail["step"]:
                break  # the model is of consistent IR only
            self.lines.append(encode(c))
            self.expect.append(st if st != "ok" else None if R.obs[i] is None else "ok " + "; ".join(R.obs[i]))
            self.where.append((h, i))
            if R.abandoned == i or R.offmodel == i:
                break  # (the model returns an error without a state: nothing to compare from here on)

    def check(self, ctx: core.Ctx) -> None:
        if not self.lines:
            return
        got = ctx.model("ir_store", self.lines)
        ctx.count("correspondence.lines", len(self.lines))
        # (None = a step of a prefix judged before: only its status is compared)
        i = core.diff_streams([g if e is None and g.startswith("ok") else e for e, g in zip(self.expect, got)]
                              + self.expect[len(got):], got)
        if i is not None:
            h, step = self.where[i]
            calls = self.histories[h][: step + 1]

            def differs(cs: list[list[Any]]) -> bool:
                R = run_history(cs, keep_obs=True)
                if R.fail is not None:
                    return False
                C = Correspondence()
                C.add(R)
                return core.diff_streams(C.expect, core.run_model("ir_store", C.lines)) is not None

            small = core.shrink_list(calls, differs, max_steps=300) if len(calls) > 1 else calls
            R = run_history(small, keep_obs=True)
            C = Correspondence()
            C.add(R)
            m = core.run_model("ir_store", C.lines)
            j = core.diff_streams(C.expect, m)
            if j is None:  # shrinking lost it (should not happen): report the unshrunk case
                small, C.expect, m, j = calls, self.expect[i - step - 1: i + 1], got[i - step - 1: i + 1], step + 1
            ctx.mismatch("correspondence:C01/ir_store", {"calls": small, "line": C.lines[j] if j < len(C.lines) else None},
                         (C.expect[j] or "ok").split("; ") if j < len(C.expect) else None, m[j].split("; ") if j < len(m) else None,
                         "real xDSL objects and the Lean model IRStore disagree on the observation after this call")
        self.lines, self.expect, self.where, self.histories = [], [], [], []


# ---------------------------------------------------------------------------------------------
# Failure handling
# ---------------------------------------------------------------------------------------------
def shrink_failure(calls: list[list[Any]], fail: dict[str, Any]) -> tuple[list[list[Any]], dict[str, Any]]:
    """smallest sub-history on which the same call kind trips the same kind of complaint"""
    name, sig, raised = fail["call"][0], base_signature(fail), fail.get("status", "ok") != "ok"

    def still(c: list[list[Any]]) -> bool:
        f = run_history(c).fail
        return (f is not None and f["call"][0] == name and base_signature(f) == sig
                and (f.get("status", "ok") != "ok") == raised)

    def plain(c: list[Any]) -> list[Any]:
        """the call with every collection passed as a list (single objects as one-element lists)"""
        c = strip_forms(c)
        return [c[0], *[[a[0], False] if code in ("BS", "OS") and isinstance(a, list) and len(a) == 2 else a
                        for code, a in zip(SIG.get(c[0], ()), c[1:])]]

    calls = calls[: fail["step"] + 1]
    # argument forms first: all at once, then call by call (a form survives only if the failure needs it)
    cand = [plain(c) for c in calls]
    if cand != calls and still(cand):
        calls = cand
    small = core.shrink_list(calls, still, max_steps=1500)
    def one_by_one(small: list[list[Any]]) -> list[list[Any]]:
        i = 0
        while i < len(small) and len(small) > 1:
            cand = small[:i] + small[i + 1:]
            if still(cand):
                small = cand
            else:
                i += 1
        return small

    # one-by-one pass (delta debugging in chunks can leave single removable calls behind)
    small = one_by_one(small)
    for ci in range(len(small)):
        if plain(small[ci]) != small[ci]:
            cand = small[:ci] + [plain(small[ci])] + small[ci + 1:]
            if still(cand):
                small = cand
                continue
        for fi in range(len(small[ci][-1]) if strip_forms(small[ci]) != small[ci] else 0):
            if small[ci][-1][fi] != "list":
                cand = [list(c) for c in small]
                cand[ci][-1] = [*small[ci][-1][:fi], "list", *small[ci][-1][fi + 1:]]
                if still(cand):
                    small = cand
    # simplify list arguments of the remaining calls
    for ci in range(len(small)):
        for ai in range(1, len(small[ci])):
            a = small[ci][ai]
            if isinstance(a, list) and a and all(isinstance(x, int) for x in a):
                for j in range(len(a) - 1, -1, -1):
                    cand = [list(c) for c in small]
                    cand[ci][ai] = [x for jj, x in enumerate(small[ci][ai]) if jj != j]
                    if still(cand):
                        small = cand
    small = one_by_one(small)  # (objects that were only mentioned in the list arguments dropped above)
    f = run_history(small).fail
    assert f is not None
    return small, f


def report(ctx: core.Ctx, calls: list[list[Any]], fail: dict[str, Any]) -> None:
    small, f = shrink_failure(calls, fail)
    name = f["call"][0]
    ctx.fail(
        CALL_SITE[name], signature_of(f), {"calls": small},
        (f"after the successful call {json.dumps(f['call'])}" if f.get("status", "ok") == "ok" else
         f"the call {json.dumps(f['call'])} raises ({f['status'][6:]}), is skipped, and leaves a state in which")
        + f" (step {f['step']} of the shrunk history) the whole-tree "
        f"invariant walk reports: " + "; ".join(m for _, m in f["complaints"][:4]),
        {"statuses": run_history(small).statuses, "state_after_failing_call": f["state"]},
        "every op/block/region exactly once in its container forward and backward with matching parent; "
        "use lists = operand/successor positions; result/argument index fields = positions",
    )


# ---------------------------------------------------------------------------------------------
# Random histories
# ---------------------------------------------------------------------------------------------
def random_history(ctx: core.Ctx, max_calls: int = 60, p_valid: float = 0.8) -> Runner:
    R = Runner(keep_obs=True)
    G = Gen(ctx.rng, R)

    def emit(call: list[Any]) -> None:
        if not R.stopped:
            call = G.with_forms(call, p_plain=0.6)
            R.step(call)
            if call[0] in COLL:
                ctx.count("forms." + ("+".join(sorted(set(forms_of(call)))) or "list"))
            assert R.statuses[-1] == "ok" or R.stopped, ("seed call failed", call, R.statuses[-1])

    G.seed(emit)
    nseed = len(R.calls)
    n = ctx.rng.randint(1, max_calls)
    restarts = 0
    while not R.stopped and len(R.calls) - nseed < n:
        d = G.draw(p_valid)
        if d is None:
            break
        call, valid = d
        st = R.step(call)
        ctx.count(f"call.{call[0]}.{'ok' if st == 'ok' else 'raise'}")
        ctx.count("calls.valid-mode" if valid else "calls.arbitrary-mode")
        if call[0] in COLL:
            ctx.count("forms." + ("+".join(sorted(set(forms_of(call)))) or "list"))
        if valid and st != "ok":
            ctx.count("calls.valid-mode-but-raised")
            ctx.extra.setdefault("valid_mode_raises", Counter())[f"{call[0]}: {st}"] += 1
    if R.ex.raised_while_formatting:
        ctx.count("calls.raise-while-formatting-error-message", R.ex.raised_while_formatting)
    if R.partial_raises:
        ctx.count("calls.raising-relink-with-partial-effect.judged", R.partial_raises)
        ctx.count("histories.continued-after-partial-raise")
    if R.abandoned is not None:
        ctx.count("histories.abandoned-after-corrupting-raise")
        ctx.extra.setdefault("corrupting_raises", Counter())[f"{R.calls[R.abandoned][0]}: {R.statuses[R.abandoned]}"] += 1
    ctx.count("histories.random")
    ctx.count("calls.seed", nseed)
    ctx.count("calls.mutation", len(R.calls) - nseed)
    ctx.ev()
    if R.changed > nseed:
        ctx.nt(hash(json.dumps(R.calls)))
    return R


# ---------------------------------------------------------------------------------------------
# Small-scope enumeration: every primitive call with every choice of live arguments on a fixed
# 2-region / 3-block / 5-op seed (depth 1 completely, depth 2 completely or sampled)
# ---------------------------------------------------------------------------------------------
SMALL_SEED: list[list[Any]] = [
    ["new_block", 0, [0], []], ["new_block", 1, [], []],
    ["new_op", 0, "op", [1, 2], [0], [], []], ["new_op", 1, "op", [], [1, 2], [], []],
    ["add_ops", 0, [0, 1]],
    ["new_op", 2, "term", [], [2, 1], [1, 0], []], ["add_op", 1, 2],
    ["new_region", 0, [0, 1]],
    ["new_op", 3, "op", [3], [], [], [0]],           # parent of region 0
    ["new_op", 4, "op", [4], [3], [], []],           # detached spare op using v3
    ["new_block", 2, [5], []], ["new_region", 1, []],  # detached spare block, empty region
]
ENUM_KINDS = ["insert_op_before", "insert_op_after", "add_op", "add_ops", "insert_ops_before", "insert_ops_after",
              "detach_op", "erase_op", "split_before", "insert_arg",
              "erase_arg", "add_block", "insert_block_before", "insert_block_after", "insert_block", "detach_block", "detach_block_idx",
              "move_blocks", "move_blocks_before", "op_detach", "op_erase", "set_operand", "set_successor",
              "add_region", "detach_region", "detach_region_idx", "replace_all_uses_with", "rw_replace_value_with_new_type"]


def enumerate_calls(R: Runner, fresh: dict[str, int], with_forms: bool = True) -> list[list[Any]]:
    W = R.W
    pools = {"O": W.live_ids("o"), "B": W.live_ids("b"), "R": W.live_ids("r"), "V": W.live_ids("v")}
    out: list[list[Any]] = []
    for name in ENUM_KINDS:
        doms: list[list[Any]] = []
        for c in SIG[name]:
            if c in pools:
                doms.append(pools[c])
            elif c == "I":
                doms.append([-3, -2, -1, 0, 1, 2])
            elif c == "S":
                doms.append([True, False])
            elif c in ("NB", "NV", "NR", "NO"):
                doms.append([fresh[c[1].lower()]])
            elif c == "NVL":
                doms.append([[fresh["v"] + 1]])
            elif c == "BS":  # the block itself; every list of ≤ 2 distinct live blocks
                bl = pools["B"]
                doms.append([[[b], True] for b in bl] + [[[], False]] + [[[b], False] for b in bl]
                            + [[[a, b], False] for a in bl for b in bl if a != b])
            elif c == "OL":  # every list of ≤ 2 distinct live ops
                ol = pools["O"]
                doms.append([[]] + [[o] for o in ol] + [[a, b] for a in ol for b in ol if a != b])
            else:
                raise AssertionError(c)
        coll = COLL.get(name, {})
        for combo in itertools.product(*doms):
            call = [name, *combo]
            if not contract_ok(R.ex, call):
                continue
            out.append(call)
            if not with_forms:
                continue
            # the same call with every collection in every other instance of its declared type
            open_pos = [p for p in sorted(coll) if not (SIG[name][p] in ("BS", "OS") and combo[p][1])]
            if len(open_pos) != len(coll):
                continue  # (the single object is passed: no collection)
            for forms in itertools.product(*[FORMS[coll[p][0]] for p in open_pos]):
                if any(f != "list" for f in forms):
                    out.append([*call, list(forms)])
    return out


def run_enumeration(ctx: core.Ctx, corr: Correspondence, depth2_budget_s: float, depth2_sample: int | None,
                    failed_sigs: set[tuple[str, str]]) -> None:
    def judge(R: Runner) -> None:
        if R.fail is not None:
            key = (R.fail["call"][0], signature_of(R.fail))
            ctx.count("enumeration.failing")
            if key not in failed_sigs:  # shrink and report once per (call kind, complaint class)
                failed_sigs.add(key)
                report(ctx, R.calls, R.fail)

    base = run_history(SMALL_SEED, keep_obs=True)
    assert base.fail is None and all(s == "ok" for s in base.statuses), base.statuses
    corr.add(base)
    n0 = len(SMALL_SEED)  # (judged just now; the histories below run it as a quiet prefix)
    fresh = {"o": 50, "b": 50, "r": 50, "v": 50}
    firsts = enumerate_calls(base, fresh)
    ctx.count("enumeration.depth1", len(firsts))
    ctx.count("enumeration.depth1-non-list-form", sum(1 for c in firsts if strip_forms(c) != c))
    survivors: list[list[Any]] = []
    for c in firsts:
        R = run_history(SMALL_SEED + [c], keep_obs=True, quiet_prefix=n0)
        corr.add(R)
        ctx.ev()
        judge(R)
        if R.fail is None and R.abandoned is None and R.statuses[-1] == "ok":
            ctx.nt(hash(json.dumps(c)))
            if strip_forms(c) == c:  # (the state after the call does not depend on the form: judged above)
                survivors.append(c)
    fresh2 = {k: v + 10 for k, v in fresh.items()}
    t_end = ctx.t0 + ctx.budget_s if depth2_budget_s <= 0 else min(ctx.t0 + ctx.budget_s, __import__("time").time() + depth2_budget_s)
    import time

    order = list(survivors)
    ctx.rng.shuffle(order)
    done = 0
    complete = True
    for c1 in order:
        if time.time() > t_end:
            complete = False
            break
        R1 = run_history(SMALL_SEED + [c1], quiet_prefix=n0 + 1)
        seconds = enumerate_calls(R1, fresh2)
        if depth2_sample is not None and len(seconds) > depth2_sample:
            seconds = ctx.rng.sample(seconds, depth2_sample)
            complete = False
        for c2 in seconds:
            R = run_history(SMALL_SEED + [c1, c2], keep_obs=True, quiet_prefix=n0 + 1)
            corr.add(R)
            ctx.ev()
            done += 1
            if len(corr.lines) > 40000:
                corr.check(ctx)
            judge(R)
            if R.fail is None and R.statuses[-1] == "ok" and R.abandoned is None:
                ctx.nt(hash(json.dumps([c1, c2])))
    ctx.count("enumeration.depth2", done)
    ctx.extra["enumeration"] = {"seed": SMALL_SEED, "kinds": ENUM_KINDS, "depth1_calls": len(firsts),
                                "depth1_successful": len(survivors), "depth2_histories": done, "depth2_complete": complete}
    ctx.exhaustive = False


# ---------------------------------------------------------------------------------------------
# Entry points
# ---------------------------------------------------------------------------------------------
def run(ctx: core.Ctx) -> None:
    import time

    if META["lean_modules"] and core.module_path(META["lean_modules"][0]).exists():
        ctx.lean()
    quick = ctx.tier == "quick"
    corr = Correspondence()
    failed_sigs: set[tuple[str, str]] = set()
    run_enumeration(ctx, corr, depth2_budget_s=8 if quick else 240, depth2_sample=12 if quick else None,
                    failed_sigs=failed_sigs)
    corr.check(ctx)
    t_random = (ctx.t0 + ctx.budget_s) - time.time()
    t_end = time.time() + max(5.0, t_random * (0.9 if quick else 0.95))
    max_hist = 300 if quick else 40000
    nh = 0
    while nh < max_hist and time.time() < t_end:
        R = random_history(ctx)
        nh += 1
        corr.add(R)
        if len(corr.lines) > 40000:
            corr.check(ctx)
        if R.fail is not None:
            key = (R.fail["call"][0], signature_of(R.fail))
            ctx.count("histories.failing")
            if key not in failed_sigs:  # shrink once per (call kind, complaint class)
                failed_sigs.add(key)
                report(ctx, R.calls, R.fail)
        if nh % 50 == 1:
            ctx.sample({"calls": R.calls[:12], "n_calls": len(R.calls), "statuses_tail": R.statuses[-5:]})
    corr.check(ctx)
    for k in ("valid_mode_raises", "corrupting_raises"):
        if k in ctx.extra:
            ctx.extra[k] = dict(ctx.extra[k].most_common(25))


def replay(ctx: core.Ctx, body: dict) -> int:
    calls = body["case"]["calls"]
    R = run_history(calls, keep_obs=True)
    lines = ["reset"] + [encode(c) for c in R.calls]
    try:
        model = core.run_model("ir_store", lines)[1:]
    except core.InfraError as e:
        model = [f"(model not available: {e})"] * len(R.calls)
    differ = None
    for i, (c, st) in enumerate(zip(R.calls, R.statuses)):
        mine = "ok " + "; ".join(R.obs[i]) if st == "ok" else st
        agree = "agrees" if model[i] == mine else "DIFFERS"
        if R.offmodel is not None and i > R.offmodel:
            agree = "not compared"
        if agree == "DIFFERS" and differ is None:
            differ = i
        print(f"[{i}] {json.dumps(c)} -> real xDSL: {st} | lean model: {model[i].split(' ', 1)[0] if model[i].startswith('ok') else model[i]} ({agree})")
    if R.offmodel is not None:
        print(f"the raising re-linking call at step {R.offmodel} changed the observable state: that state and every later "
              f"one is judged by the invariant walk; the Lean model (error = no state) is compared up to that step only")
    if R.abandoned is not None:
        print(f"history abandoned at step {R.abandoned}: the raising (creating/erasing) call changed the observable state")
    if differ is not None:
        i = differ
        mine = R.obs[i] if R.statuses[i] == "ok" else [R.statuses[i]]
        theirs = model[i][3:].split("; ") if model[i].startswith("ok ") else [model[i]]
        print(f"first difference between the real objects and the Lean model, after call [{i}]:")
        for a in mine:
            if a not in theirs:
                print("    real :", a)
        for b in theirs:
            if b not in mine:
                print("    model:", b)
    if R.fail is not None:
        print("state of the real objects after the failing call:")
        for l in R.fail["state"]:
            print("   ", l)
        print("invariant walk (oracle) complaints:")
        for k, m in R.fail["complaints"]:
            print(f"    [{k}] {m}")
    print("property", "FAILS" if R.fail is not None else "holds", "on this case")
    return 1 if R.fail is not None else 0
