"""C11 — The greedy rewrite driver reaches a fixpoint and observes every IR change."""
from __future__ import annotations

import contextlib
import copy
import json
import random
import re
from typing import Any

from vp import core

META = {
    "title": "The greedy rewrite driver reaches a fixpoint and observes every IR change",
    "category": "proof",
    "design_ref": "DESIGN.md §5 C11",
    "lean_modules": ["XdslProofs.C11"],
    "text": (
        "Lean model XdslModel/RewriteDriver.lean of PatternRewriteWalker.rewrite_region/_populate_worklist/"
        "_process_worklist, the four _handle_operation_* listeners and the flag/notification behaviour of every "
        "PatternRewriter mutator, over the proved C12 worklist (its `step` function is used as is); the IR is an "
        "opaque parameter, a pattern is any function IR → op → (calls made on the rewriter, IR afterwards), the "
        "schedule `pick` (none = LIFO pop, some f = perturbed worklist), the walk order `enum`, apply_recursively and "
        "the post-walk function are parameters.  Theorems (XdslProofs/C11.lean), for every pattern, pick, enum and "
        "configuration, on every terminating run (fuel): driver_wlInv (the C12 worklist invariant is kept), "
        "worklist_attached + visit_attached (worklist ⊆ attached ops is an invariant of the whole driver, so every op "
        "handed to the pattern is attached at that moment — for patterns that only mention attached ops), flag_iff + "
        "only_useless_rauw_keeps_flag (has_done_action after a match ⇔ the match made a call other than a "
        "replace_all_uses_with of an unused value), changed_iff (returned boolean ⇔ some match of some sweep left the "
        "flag set or some post-walk reported a change), log_eq (listener log = concatenation of the events of the "
        "executed calls, nothing dropped or reordered), all_notified_partial (every event the sentence demands of an "
        "executed call is in the log, except for inline_block calls that rewrite operands — known finding, witness "
        "inline_block_users_unreported_counterexample), fixpoint_on_return (when rewrite_region returns in recursive "
        "mode no attached op has a flag-setting call left and the post-walk reports no change, given patterns are "
        "functions of the IR that mutate it only through the rewriter; via process_quiet/sweep_quiet: a sweep that "
        "reports nothing visited every attached op); the C12 refinement on the driver's own worklist operations: "
        "exec_worklist_spec (after a rewriter call the worklist holds exactly what it held plus what the handlers push "
        "minus the erased op and the ops nested in it), erase_unqueues, exec_keeps_queued (no live queued op is dropped), "
        "exec_queues_notified, pop_lifo_top / pop_pick_removes (which op is handed out next and what remains); histories "
        "of several rewrite_region/rewrite_module calls on ONE walker with walker.listener edited in between "
        "(`Walker`, `call`, `history`): call_delivers, history_view (a handler receives, in order, exactly the listener "
        "logs of the calls made while it was on walker.listener — _get_rewriter_listener is evaluated per call), "
        "history_all_notified_partial.  The model is tied to /repo by replaying, for generated IR × "
        "generated terminating pattern sets × all walk configurations × perturbed worklist orders, the calls recorded "
        "on the real PatternRewriter through the closed Lean driver `rewriteRegion` and comparing its whole trace "
        "(populate pushes, invocation order, has_done_action, worklist contents, listener events and attached set "
        "after every match and post-walk, returned flag, and per call what every handler set on walker.listener heard) "
        "with the instrumented real walker — for single calls and for histories of up to three calls on one walker "
        "(handlers appended to walker.listener / the listener replaced / exhausted countdown markers re-armed by the "
        "user between calls; later calls on the module body or on a closed inner region) and for every Builder state a "
        "pattern may put the rewriter in (rewriter.name_hint set per match / on alternate invocations / to a suffixed "
        "name; fresh ops handed over by insert(ops, point), by insertion_point + insert(ops), or created under "
        "ImplicitBuilder(rewriter); fresh ops with 0, 1 and 2 results, alone, in lists and inside replace) — the model "
        "has no name hint: what is notified and queued must not depend on it; the complete "
        "push/remove/pop/__bool__ trace of the walker's real Worklist object over the whole history is checked against "
        "an independent duplicate-free stack after every operation (result and contents) and replayed on the Lean "
        "worklist model XdslModel/Worklist.lean (correspondence:C11/worklist); independent direct "
        "oracles check the five clauses of the sentence on the real walker (fresh non-recursive re-application must "
        "change nothing; text changed ⇒ returned True; no invocation on a detached/erased op; every rewriter call and "
        "every op-level IR difference of a match is matched by listener events; IR changed in a match ⇒ has_done_action)."
    ),
    "technique": "Lean 4 invariant proofs over an abstract driver + trace correspondence with the instrumented real walker + direct post-condition oracles",
    "level_note": (
        "Trusted: Lean kernel; hand-written model RewriteDriver.lean (tied by trace correspondence); the harness's "
        "instrumentation (wrapping PatternRewriter methods to record calls and the data listeners read).  Read of the "
        "sentence: 'insertion, removal, replacement, in-place modification' are the four operation events of "
        "PatternRewriterListener.  An op counts as modified in place when its own operands/attributes/properties/"
        "result types change; nested ops that come/go with an inserted/erased ancestor are covered by the ancestor's "
        "event; block-argument insertion/erasure and the relocation of ops by inline_block are not operation events "
        "(only the flag clause applies to them) — their non-notification is NOT reported.  The operand rewrite "
        "performed by inline_block(arg_values=…) is an in-place modification of the users and is demanded.  "
        "Patterns mutate the IR only through the rewriter (attribute edits are followed by notify_op_modified) and "
        "only mention attached ops.  Root region = module body.  move_region_contents_to_new_regions, inline_region, "
        "and folding are not exercised.  replace_uses_with_if is exercised with predicates by use.index, by user "
        "operation, strict subsets, all and none on values used in several operand slots of one op and across ops; "
        "replace_value_with_new_type on results (owner must be notified) and on block arguments (users of a retyped "
        "value keep the 'same' operand: not counted as modified).  Patterns may erase ops other than the matched "
        "one (unused siblings, incl. ops inserted by earlier matches that are still queued).  Patterns may set "
        "rewriter.name_hint and rewriter.insertion_point and may build ops under ImplicitBuilder(rewriter) (the public "
        "Builder interface of the rewriter); an insertion reported more than once is not a failure of the sentence (it "
        "shows up only as a trace difference with the Lean driver).  Histories: 'registered "
        "listeners' of a call = the handlers held by walker.listener when rewrite_region/rewrite_module is called; "
        "events delivered to handlers that are no longer on walker.listener are not judged.  A later call is made on "
        "an inner region only when no op under it uses a value defined outside (so that everything a pattern touches "
        "is under the region handed to the walker).  A run that exceeds the invocation bound, or in which a pattern "
        "leaves the quantifier, is an infrastructure error unless the walker misbehaved first (worklist trace "
        "diverged from the duplicate-free stack, or a pattern was invoked on a detached op): lost or stale worklist "
        "entries make terminating pattern sets loop."
    ),
    "rule": (
        "case = (IR spec, pattern set, walk configuration incl. the Builder state used by the patterns, schedule, "
        "history of later calls on the same walker); "
        "non-trivial = at least one match of some call executed a rewriter call; distinct = distinct (canonical IR "
        "spec, patterns, config, schedule seed, history)."
    ),
    "trusted_base": [
        "trace correspondence harness harness/props/c11.py (instrumented PatternRewriter methods, recording/perturbed worklist subclass)",
        "hand-written Lean model XdslModel/RewriteDriver.lean over the C12 worklist model XdslModel/Worklist.lean",
    ],
    "budget": {"quick": 55, "thorough": 900},
}

MAX_INVOCATIONS = 600
ATTR_NAMES = ["e", "r", "i", "c", "l", "ba", "be", "br", "u", "cb", "fw", "rr", "en"]


class Abort(Exception):
    pass


# ---------------------------------------------------------------------------------------------
# IR spec -> real IR
# ---------------------------------------------------------------------------------------------

class Labels:
    """stable labels for Python objects (ops and blocks); keeps them alive so ids are not reused"""

    def __init__(self) -> None:
        self.ops: dict[int, int] = {}
        self.blocks: dict[int, int] = {}
        self.keep: list[Any] = []
        self.next_op = 0
        self.next_block = 0

    def set_op(self, op: Any, label: int) -> None:
        self.ops[id(op)] = label
        self.keep.append(op)
        self.next_op = max(self.next_op, label + 1)

    def set_block(self, b: Any, label: int) -> None:
        self.blocks[id(b)] = label
        self.keep.append(b)
        self.next_block = max(self.next_block, label + 1)

    def op(self, op: Any) -> int:
        k = id(op)
        if k not in self.ops:
            self.set_op(op, self.next_op)
        return self.ops[k]

    def block(self, b: Any) -> int:
        k = id(b)
        if k not in self.blocks:
            self.set_block(b, self.next_block)
        return self.blocks[k]

    def value(self, v: Any) -> int:
        """stable identity of a block argument (survives index shifts; a retyped argument is aliased to
        the argument it replaces, see `alias`)"""
        vals = self.__dict__.setdefault("vals", {})
        k = id(v)
        if k not in vals:
            vals[k] = len(vals)
            self.keep.append(v)
        return vals[k]

    def alias(self, new: Any, old: Any) -> None:
        vals = self.__dict__.setdefault("vals", {})
        vals[id(new)] = self.value(old)
        self.keep.append(new)


def build_ir(spec: dict) -> tuple[Any, Labels]:
    from xdsl.dialects.builtin import IntAttr, ModuleOp
    from xdsl.dialects.test import TestOp, TestPureOp, TestType
    from xdsl.ir import Block, Region

    T = TestType("t")
    lab = Labels()
    env: dict[tuple, Any] = {}

    def build_block(bs: dict) -> Any:
        blk = Block(arg_types=[T] * bs.get("na", 0))
        lab.set_block(blk, bs["bid"])
        for i, a in enumerate(blk.args):
            env[("a", bs["bid"], i)] = a
        for os_ in bs["ops"]:
            blk.add_op(build_op(os_))
        return blk

    def build_op(os_: dict) -> Any:
        regions = [Region([build_block(b) for b in reg]) for reg in os_.get("r", [])]
        operands = [env[tuple(v)] for v in os_.get("o", [])]
        cls = TestPureOp if os_.get("pure") else TestOp
        op = cls.create(
            operands=operands,
            result_types=[T] * os_.get("nr", 0),
            attributes={k: IntAttr(v) for k, v in os_.get("a", {}).items()},
            regions=regions,
        )
        lab.set_op(op, os_["id"])
        for i, r in enumerate(op.results):
            env[("r", os_["id"], i)] = r
        return op

    body = Block()
    lab.set_block(body, spec.get("bid", 0))
    for os_ in spec["ops"]:
        body.add_op(build_op(os_))
    module = ModuleOp(Region([body]))
    return module, lab


def spec_ops(spec: dict):
    """all op specs, preorder"""
    def rec(ops):
        for o in ops:
            yield o
            for reg in o.get("r", []):
                for b in reg:
                    yield from rec(b["ops"])
    yield from rec(spec["ops"])


def gen_ir(rng: random.Random, size: int, attrs: list[str], multi_block: bool) -> dict:
    """random nested IR; operands refer to values defined earlier in an enclosing scope"""
    counter = {"op": 0, "b": 1}

    def gen_block(visible: list, budget: list[int], depth: int, allow_args: bool) -> dict:
        bid = counter["b"]; counter["b"] += 1
        na = rng.choice([0, 0, 1, 2]) if allow_args else 0
        vis = visible + [["a", bid, i] for i in range(na)]
        ops = gen_ops(vis, budget, depth, rng.randint(0, 3))
        return {"bid": bid, "na": na, "ops": ops}

    def gen_ops(vis: list, budget: list[int], depth: int, n: int) -> list:
        vis = list(vis)
        out = []
        for _ in range(n):
            if budget[0] <= 0:
                break
            budget[0] -= 1
            oid = counter["op"]; counter["op"] += 1
            o: dict[str, Any] = {"id": oid}
            if rng.random() < 0.3:
                o["pure"] = 1
            nops = rng.choice([0, 0, 1, 1, 2]) if vis else 0
            o["o"] = [rng.choice(vis) for _ in range(nops)]
            if o["o"] and rng.random() < 0.4:
                # the same value in several operand slots of one op
                o["o"].insert(rng.randint(0, len(o["o"])), rng.choice(o["o"]))
                if rng.random() < 0.3:
                    o["o"].append(o["o"][0])
            o["nr"] = rng.choice([0, 1, 1, 1, 2])
            a = {}
            for name in attrs:
                if rng.random() < 0.45:
                    a[name] = rng.randint(1, 2)
            o["a"] = a
            regs = []
            if depth < 2 and rng.random() < 0.4:
                for _ in range(rng.choice([1, 1, 2])):
                    nb = rng.choice([1, 1, 1, 2, 3]) if multi_block else 1
                    regs.append([gen_block(vis, budget, depth + 1, True) for _ in range(nb)])
            o["r"] = regs
            out.append(o)
            vis = vis + [["r", oid, i] for i in range(o["nr"])]
        return out

    budget = [size]
    ops = gen_ops([], budget, 0, size)
    return {"bid": 0, "ops": ops}


# ---------------------------------------------------------------------------------------------
# independent IR traversal helpers (no op.walk)
# ---------------------------------------------------------------------------------------------

def nested_ops(op: Any) -> list[Any]:
    """ops strictly inside `op`, preorder"""
    out = []
    for region in op.regions:
        for block in region.blocks:
            for o in block.ops:
                out.append(o)
                out.extend(nested_ops(o))
    return out


def region_ops_preorder(region: Any) -> list[Any]:
    out = []
    for block in region.blocks:
        for o in block.ops:
            out.append(o)
            out.extend(nested_ops(o))
    return out


def intended_order(region: Any, reverse: bool, region_first: bool) -> list[Any]:
    """the visiting order the configuration asks for: blocks/ops forward or backward, an op before
    or after the ops in its regions"""
    out: list[Any] = []

    def do_region(r: Any) -> None:
        blocks = list(r.blocks)
        for b in (reversed(blocks) if reverse else blocks):
            ops = list(b.ops)
            for o in (reversed(ops) if reverse else ops):
                do_op(o)

    def do_op(o: Any) -> None:
        if not region_first:
            out.append(o)
        regs = list(o.regions)
        for r in (reversed(regs) if reverse else regs):
            do_region(r)
        if region_first:
            out.append(o)

    do_region(region)
    return out


def is_attached(op: Any, root_region: Any) -> bool:
    cur = op
    for _ in range(10000):
        blk = cur.parent
        if blk is None:
            return False
        reg = blk.parent
        if reg is None:
            return False
        if reg is root_region:
            return True
        cur = reg.parent
        if cur is None:
            return False
    return False


def ancestors(op: Any) -> list[Any]:
    out = []
    cur = op
    while True:
        blk = cur.parent
        if blk is None or blk.parent is None or blk.parent.parent is None:
            return out
        cur = blk.parent.parent
        out.append(cur)


def uses_of(v: Any) -> list[Any]:
    return [u.operation for u in v.uses]


def print_module(module: Any) -> str:
    from io import StringIO
    from xdsl.printer import Printer

    f = StringIO()
    Printer(stream=f, print_generic_format=True).print_op(module)
    return f.getvalue()


# ---------------------------------------------------------------------------------------------
# patterns (terminating; all mutations go through the rewriter)
# ---------------------------------------------------------------------------------------------

def make_patterns(names: list, lab: Labels, via: int = 0) -> list[Any]:
    """`via` = how the patterns of the case hand fresh ops to the rewriter (the Builder state a pattern may
    use): 0 `rewriter.insert(ops, point)`, 1 `rewriter.insertion_point = point; rewriter.insert(ops)`,
    2 `rewriter.insertion_point = point; with ImplicitBuilder(rewriter): <create the ops>`"""
    from xdsl.builder import ImplicitBuilder
    from xdsl.dialects.builtin import IntAttr
    from xdsl.dialects.test import TestOp, TestPureOp, TestType
    from xdsl.ir import Region
    from xdsl.pattern_rewriter import PatternRewriter, RewritePattern
    from xdsl.rewriter import BlockInsertPoint, InsertPoint

    T = TestType("t")
    U = TestType("u")

    def attr(op: Any, name: str) -> int | None:
        a = op.attributes.get(name)
        return a.data if isinstance(a, IntAttr) else None

    def unused(op: Any) -> bool:
        return all(r.first_use is None for r in op.results)

    def new_op(operands=(), nres=0, attrs=None, regions=(), pure=False) -> Any:
        cls = TestPureOp if pure else TestOp
        op = cls.create(operands=list(operands), result_types=[T] * nres,
                        attributes={k: IntAttr(v) for k, v in (attrs or {}).items()}, regions=list(regions))
        lab.op(op)
        return op

    def int_attrs(op: Any) -> dict[str, int]:
        return {k: v.data for k, v in op.attributes.items() if isinstance(v, IntAttr)}

    def put(rewriter: Any, make: Any, ip: Any) -> None:
        """insert the ops `make()` creates (in order) at `ip`, the way the case says"""
        if via == 0:
            ops = make()
            rewriter.insert(ops[0] if len(ops) == 1 else ops, ip)
        elif via == 1:
            rewriter.insertion_point = ip
            ops = make()
            rewriter.insert(ops[0] if len(ops) == 1 else ops)
        else:
            rewriter.insertion_point = ip
            with ImplicitBuilder(rewriter):
                make()

    class Erase(RewritePattern):
        """erase-if-unused (ops with or without regions)"""
        def match_and_rewrite(self, op, rewriter: PatternRewriter):
            if attr(op, "e") is not None and op.name != "builtin.module" and unused(op):
                rewriter.erase(op)

    class Replace(RewritePattern):
        """replace by a fresh op (countdown attribute); regions are moved to the new op"""
        def __init__(self, variant: int):
            self.variant = variant

        def match_and_rewrite(self, op, rewriter: PatternRewriter):
            n = attr(op, "r")
            if n is None or n <= 0 or op.name == "builtin.module":
                return
            a = int_attrs(op)
            a["r"] = n - 1
            regions = [op.detach_region(r) for r in list(op.regions)]
            if self.variant == 0:
                rewriter.replace(op, new_op(op.operands, len(op.results), a, regions))
            elif self.variant == 2:
                # the replacement is followed by a fresh op WITHOUT results and preceded by one with two
                main = new_op(op.operands, len(op.results), a, regions)
                rewriter.replace(op, [new_op(op.operands[:1], 2, {}), main, new_op(main.results[:1], 0, {"c": 1})],
                                 new_results=list(main.results))
            else:
                helper = new_op(op.operands, 1, {"c": 1})
                rewriter.replace(op, [helper, new_op([helper.results[0], *op.operands], len(op.results), a, regions)])

    class Forward(RewritePattern):
        """replace an op by existing values (no new op)"""
        def match_and_rewrite(self, op, rewriter: PatternRewriter):
            if attr(op, "fw") is None or op.name == "builtin.module" or op.regions:
                return
            if not op.results or len(op.operands) < len(op.results):
                return
            rewriter.replace(op, [], new_results=list(op.operands[: len(op.results)]))

    class Insert(RewritePattern):
        """insert a new op before/after, bounded by the marker attribute (decremented in place)"""
        def __init__(self, after: int, child_attr: int, nres: int = 1):
            self.after, self.child_attr, self.nres = after, child_attr, nres

        def match_and_rewrite(self, op, rewriter: PatternRewriter):
            n = attr(op, "i")
            if n is None or n <= 0 or op.name == "builtin.module":
                return
            put(rewriter, lambda: [new_op(op.operands[:1], self.nres, {"c": 1} if self.child_attr else {})],
                InsertPoint.after(op) if self.after else InsertPoint.before(op))
            op.attributes["i"] = IntAttr(n - 1)
            rewriter.notify_op_modified(op)

    class Modify(RewritePattern):
        """in-place attribute countdown"""
        def match_and_rewrite(self, op, rewriter: PatternRewriter):
            n = attr(op, "c")
            if n is None or n <= 0:
                return
            op.attributes["c"] = IntAttr(n - 1)
            rewriter.notify_op_modified(op)

    class Inline(RewritePattern):
        """inline the single block of the first region before/after the op"""
        def __init__(self, after: int):
            self.after = after

        def match_and_rewrite(self, op, rewriter: PatternRewriter):
            if attr(op, "l") is None or op.name == "builtin.module" or not op.regions:
                return
            blocks = list(op.regions[0].blocks)
            if len(blocks) != 1:
                return
            b = blocks[0]
            if len(b.args) > len(op.operands):
                return
            ip = InsertPoint.after(op) if self.after else InsertPoint.before(op)
            rewriter.inline_block(b, ip, tuple(op.operands[: len(b.args)]))

    class BlockArgAdd(RewritePattern):
        def match_and_rewrite(self, op, rewriter: PatternRewriter):
            if attr(op, "ba") is None or not op.regions or op.name == "builtin.module":
                return
            blocks = list(op.regions[0].blocks)
            if not blocks or len(blocks[0].args) >= 2:
                return
            rewriter.insert_block_argument(blocks[0], len(blocks[0].args), T)

    class BlockArgErase(RewritePattern):
        def match_and_rewrite(self, op, rewriter: PatternRewriter):
            if attr(op, "be") is None or not op.regions or op.name == "builtin.module":
                return
            blocks = list(op.regions[0].blocks)
            if not blocks:
                return
            for a in blocks[0].args:
                if a.first_use is None:
                    rewriter.erase_block_argument(a)
                    return

    class BlockArgReplace(RewritePattern):
        """replace the uses of a block argument by another value"""
        def match_and_rewrite(self, op, rewriter: PatternRewriter):
            if attr(op, "br") is None or not op.regions or op.name == "builtin.module":
                return
            blocks = list(op.regions[0].blocks)
            if not blocks or not blocks[0].args:
                return
            a0 = blocks[0].args[0]
            if a0.first_use is None:
                return
            if op.operands:
                rewriter.replace_all_uses_with(a0, op.operands[0])
            elif len(blocks[0].args) >= 2:
                rewriter.replace_all_uses_with(a0, blocks[0].args[1])

    class Rauw(RewritePattern):
        """forward the first operand to the users of the first result"""
        def match_and_rewrite(self, op, rewriter: PatternRewriter):
            if attr(op, "u") is None or not op.results or not op.operands:
                return
            if op.results[0].first_use is None:
                return
            rewriter.replace_all_uses_with(op.results[0], op.operands[0])

    class CreateBlock(RewritePattern):
        """append an empty block to a single-block first region (variant 1: and put an op in it)"""
        def __init__(self, fill: int):
            self.fill = fill

        def match_and_rewrite(self, op, rewriter: PatternRewriter):
            if attr(op, "cb") is None or not op.regions or op.name == "builtin.module":
                return
            if len(list(op.regions[0].blocks)) != 1:
                return
            rewriter.create_block(BlockInsertPoint.at_end(op.regions[0]))
            if self.fill:
                rewriter.insert(new_op((), 1, {}))

    class ReplaceWithRegion(RewritePattern):
        """replace by a new op that owns a new single-block region holding a fresh op"""
        def match_and_rewrite(self, op, rewriter: PatternRewriter):
            n = attr(op, "rr")
            if n is None or n <= 0 or op.name == "builtin.module" or op.regions:
                return
            a = int_attrs(op)
            a["rr"] = n - 1
            from xdsl.ir import Block
            inner = new_op((), 1, {"c": 1})
            rewriter.replace(op, new_op(op.operands, len(op.results), a, [Region([Block([inner])])]))

    class RauwIf(RewritePattern):
        """redirect a subset of the uses of the first result to the first operand (replace_uses_with_if);
        kind 0: by use.index, 1: by user operation, 2: strict alternating subset, 3: all, 4: none"""
        def __init__(self, kind: int):
            self.kind = kind

        def match_and_rewrite(self, op, rewriter: PatternRewriter):
            if attr(op, "ui") is None or not op.results or not op.operands:
                return
            v = op.results[0]
            uses = list(v.uses)
            if not uses:
                return
            k = self.kind
            if k == 0:
                pred = lambda use: use.index == 0  # noqa: E731
            elif k == 1:
                first = uses[0].operation
                pred = lambda use: use.operation is first  # noqa: E731
            elif k == 2:
                acc = {(id(u.operation), u.index) for i, u in enumerate(uses) if i % 2 == 0}
                pred = lambda use: (id(use.operation), use.index) in acc  # noqa: E731
            elif k == 3:
                pred = lambda use: True  # noqa: E731
            else:
                pred = lambda use: False  # noqa: E731
            rewriter.replace_uses_with_if(v, op.operands[0], pred)

    class DedupOperand(RewritePattern):
        """an op that uses one value in several operand slots redirects only the first of those slots to
        the first result of the previous op (the user keeps using the old value elsewhere)"""
        def match_and_rewrite(self, op, rewriter: PatternRewriter):
            if attr(op, "ud") is None or op.name == "builtin.module":
                return
            prev = op.prev_op
            if prev is None or not prev.results:
                return
            to = prev.results[0]
            for i, v in enumerate(op.operands):
                if v is not to and sum(1 for w in op.operands if w is v) >= 2:
                    rewriter.replace_uses_with_if(v, to, lambda use: use.operation is op and use.index == i)
                    return

    class Retype(RewritePattern):
        """replace_value_with_new_type on the first result (arg=0) / first block argument (arg=1)"""
        def __init__(self, arg: int):
            self.arg = arg

        def match_and_rewrite(self, op, rewriter: PatternRewriter):
            if op.name == "builtin.module":
                return
            if not self.arg:
                if attr(op, "ty") is not None and op.results and op.results[0].type == T:
                    rewriter.replace_value_with_new_type(op.results[0], U)
            else:
                if attr(op, "tb") is None or not op.regions:
                    return
                blocks = list(op.regions[0].blocks)
                if blocks and blocks[0].args and blocks[0].args[0].type == T:
                    rewriter.replace_value_with_new_type(blocks[0].args[0], U)

    class Kill(RewritePattern):
        """erase an unused SIBLING of the matched op (nxt=0: the previous op, 1: the next op): an op other
        than the one being rewritten, typically still queued — or queued again by an earlier match"""
        def __init__(self, nxt: int):
            self.nxt = nxt

        def match_and_rewrite(self, op, rewriter: PatternRewriter):
            name = "kn" if self.nxt else "kp"
            n = attr(op, name)
            if n is None or n <= 0 or op.name == "builtin.module":
                return
            victim = op.next_op if self.nxt else op.prev_op
            if victim is None or not unused(victim):
                return
            rewriter.erase(victim)
            op.attributes[name] = IntAttr(n - 1)
            rewriter.notify_op_modified(op)

    class Expand(RewritePattern):
        """insert TWO fresh ops next to the matched op, one of which is marked to erase the other when it
        is visited itself (shape 0: [victim, killer-of-previous], 1: [killer-of-next, victim])"""
        def __init__(self, after: int, shape: int):
            self.after, self.shape = after, shape

        def match_and_rewrite(self, op, rewriter: PatternRewriter):
            n = attr(op, "x")
            if n is None or n <= 0 or op.name == "builtin.module":
                return
            if self.shape == 0:
                make = lambda: [new_op((), 1, {"c": 1}), new_op((), 0, {"kp": 1})]  # noqa: E731
            else:
                make = lambda: [new_op((), 0, {"kn": 1}), new_op((), 1, {"c": 1})]  # noqa: E731
            put(rewriter, make, InsertPoint.after(op) if self.after else InsertPoint.before(op))
            op.attributes["x"] = IntAttr(n - 1)
            rewriter.notify_op_modified(op)

    table = {
        "kill": Kill, "expand": Expand,
        "rauw_if": RauwIf, "dedup": DedupOperand, "retype": Retype,
        "erase": Erase, "replace": Replace, "forward": Forward, "insert": Insert, "modify": Modify,
        "inline": Inline, "barg_add": BlockArgAdd, "barg_erase": BlockArgErase,
        "barg_replace": BlockArgReplace, "rauw": Rauw, "create_block": CreateBlock,
        "replace_region": ReplaceWithRegion,
    }
    return [table[n[0]](*n[1:]) for n in names]


PATTERN_ATTR = {
    "erase": "e", "replace": "r", "forward": "fw", "insert": "i", "modify": "c", "inline": "l",
    "barg_add": "ba", "barg_erase": "be", "barg_replace": "br", "rauw": "u", "create_block": "cb",
    "replace_region": "rr", "rauw_if": "ui", "dedup": "ud", "retype": "ty", "expand": "x",
}


def pattern_attr(p: list) -> str:
    """the marker attribute the pattern variant looks for"""
    if p[0] == "kill":
        return "kn" if p[1] else "kp"
    if p == ["retype", 1]:
        return "tb"
    return PATTERN_ATTR[p[0]]


# countdown markers: a pattern acts on an op only while its marker is positive; `rearm` (user code between two
# calls of one walker) sets exhausted markers back to 1
COUNTDOWN_ATTRS = ("r", "i", "c", "rr", "kp", "kn", "x")
PATTERN_VARIANTS = [
    ["erase"], ["replace", 0], ["replace", 1], ["replace", 2], ["forward"],
    ["insert", 0, 0], ["insert", 1, 1], ["insert", 0, 1], ["insert", 0, 1, 0], ["insert", 1, 1, 2], ["insert", 1, 0, 0],
    ["modify"], ["inline", 0], ["inline", 1], ["barg_add"], ["barg_erase"], ["barg_replace"], ["rauw"],
    ["create_block", 0], ["create_block", 1], ["replace_region"],
    ["rauw_if", 0], ["rauw_if", 1], ["rauw_if", 2], ["rauw_if", 3], ["rauw_if", 4], ["dedup"],
    ["retype", 0], ["retype", 1],
    ["kill", 0], ["kill", 1], ["expand", 0, 0], ["expand", 1, 0], ["expand", 0, 1], ["expand", 1, 1],
]


# ---------------------------------------------------------------------------------------------
# instrumented run of the real walker
# ---------------------------------------------------------------------------------------------

def show_action(a: tuple) -> str:
    k = a[0]
    if k == "ins":
        return " ".join(map(str, ["ins", a[1], *a[2]]))
    if k == "rep":
        return " ".join(map(str, ["rep", a[1], *a[2]]))
    if k == "rauw":
        return " ".join(map(str, ["rauw", int(a[1]), *a[2]]))
    if k == "erase":
        return " ".join(map(str, ["erase", a[1], *a[2], "d", *a[3]]))
    if k in ("mod", "modp"):
        # modp: modification event for the op owning a retyped block argument (delivered by the code,
        # not demanded by the sentence)
        return f"mod {a[1]}"
    if k == "barg":
        return "barg"
    if k == "inline":
        return " ".join(map(str, ["inline", *a[1], "u", *a[2]]))
    if k == "blk":
        return "blk"
    raise core.InfraError(f"unknown action {a}")


@contextlib.contextmanager
def patched_rewriter(rec: dict, lab: Labels, get_root: Any):
    """Wrap the PatternRewriter mutators so that every call is recorded together with the data the
    listeners are going to read from the IR (computed here by independent traversal).  `get_root()` is the
    region handed to the running rewrite_region call."""
    from xdsl.ir import ErasedSSAValue, Operation
    from xdsl.pattern_rewriter import PatternRewriter

    saved = {}

    def wrap(name: str, before):
        orig = getattr(PatternRewriter, name)
        saved[name] = orig

        def wrapper(self, *args, **kwargs):
            before(self, *args, **kwargs)
            return orig(self, *args, **kwargs)

        setattr(PatternRewriter, name, wrapper)

    def add(a: tuple) -> None:
        rec["cur"].append(a)

    def wrap_retype():
        # replace_value_with_new_type creates a new value object standing for the same SSA value
        orig = PatternRewriter.replace_value_with_new_type
        saved["replace_value_with_new_type"] = orig

        def wrapper(self, val, new_type):
            b_retype(self, val, new_type)
            new = orig(self, val, new_type)
            lab.alias(new, val)
            return new

        PatternRewriter.replace_value_with_new_type = wrapper

    def need_attached(ops, what: str) -> None:
        # hypothesis `Disciplined.pat_wf` of the Lean theorems: ops handed to listeners are attached
        for o in ops:
            if not is_attached(o, get_root()):
                rec["undisciplined"].append(f"{what}: op {lab.op(o)} is not attached")

    def b_insert(self, op, insertion_point=None):
        ops = (op,) if isinstance(op, Operation) else tuple(op)
        ip = self.insertion_point if insertion_point is None else insertion_point
        host = ip.block
        host_ok = host.parent is not None and (host.parent is get_root() or (
            host.parent.parent is not None and is_attached(host.parent.parent, get_root())))
        for o in ops:
            add(("ins", lab.op(o), [lab.op(x) for x in nested_ops(o)], len(o.results)))
            if not host_ok:
                rec["undisciplined"].append(f"insert of {lab.op(o)} at a detached point")

    def b_erase(self, op, safe_erase=True):
        defs = []
        for operand in op.operands:
            if isinstance(operand, ErasedSSAValue):
                continue
            if len(list(operand.uses)) == 1 and isinstance(operand.owner, Operation):
                defs.append(lab.op(operand.owner))
                need_attached([operand.owner], "erase: single-use operand definer")
        add(("erase", lab.op(op), [lab.op(x) for x in nested_ops(op)], defs))

    def b_rauw(self, from_value, to_value, safe_erase=True):
        if from_value is to_value:
            return
        need_attached(uses_of(from_value), "replace_all_uses_with: user")
        add(("rauw", to_value is None, [lab.op(u) for u in uses_of(from_value)]))

    def b_mod(self, op):
        need_attached([op], "notify_op_modified")
        add(("mod", lab.op(op)))

    def b_barg_ins(self, block, index, arg_type):
        add(("barg",))

    def b_barg_erase(self, arg, safe_erase=True):
        add(("barg",))

    def b_inline(self, block, insertion_point, arg_values=()):
        users = []
        if arg_values:
            for a in block.args:
                users.extend(lab.op(u) for u in uses_of(a))
        add(("inline", [lab.op(o) for o in block.ops], users))

    def b_blk(self, insert_point, arg_types=()):
        add(("blk",))

    def b_rep(self, op, new_results):
        need_attached([u for r in op.results for u in uses_of(r)], "replace: user")
        add(("rep", lab.op(op), [lab.op(u) for r in op.results for u in uses_of(r)]))

    def b_rauw_if(self, from_value, to_value, predicate):
        if from_value is to_value:
            return
        # the uses the predicate accepts, in the order Value.replace_uses_with_if visits them
        hit = [u.operation for u in from_value.uses if predicate(u)]
        need_attached(hit, "replace_uses_with_if: user")
        add(("rauw", False, [lab.op(o) for o in hit], "if"))

    def b_retype(self, val, new_type):
        from xdsl.ir import BlockArgument, OpResult
        if isinstance(val, OpResult):
            need_attached([val.op], "replace_value_with_new_type: owner")
            add(("mod", lab.op(val.op)))
        elif isinstance(val, BlockArgument):
            parent = val.block.parent_op()
            if parent is None:
                add(("barg",))
            else:
                need_attached([parent], "replace_value_with_new_type: parent op")
                add(("modp", lab.op(parent)))

    def b_unsupported(name):
        def f(self, *a, **k):
            raise core.InfraError(f"pattern used unsupported rewriter method {name}")
        return f

    try:
        wrap("insert", b_insert)
        wrap("erase", b_erase)
        wrap("replace_all_uses_with", b_rauw)
        wrap("notify_op_modified", b_mod)
        wrap("insert_block_argument", b_barg_ins)
        wrap("erase_block_argument", b_barg_erase)
        wrap("inline_block", b_inline)
        wrap("create_block", b_blk)
        wrap("handle_operation_replacement", b_rep)
        wrap("replace_uses_with_if", b_rauw_if)
        wrap_retype()
        for n in ("inline_region", "move_region_contents_to_new_regions"):
            wrap(n, b_unsupported(n))
        yield
    finally:
        for name, orig in saved.items():
            # methods inherited from a base class were not in PatternRewriter.__dict__ before
            if name in ("create_block", "handle_operation_replacement"):
                try:
                    delattr(PatternRewriter, name)
                except AttributeError:
                    pass
                if getattr(PatternRewriter, name, None) is not orig:
                    setattr(PatternRewriter, name, orig)
            else:
                setattr(PatternRewriter, name, orig)


def snapshot(root_region: Any, lab: Labels) -> dict[int, tuple]:
    """own state of every attached op: name, operands (by identity), attributes, result types"""
    from xdsl.ir import BlockArgument, ErasedSSAValue, OpResult

    def val(v: Any) -> tuple:
        if isinstance(v, ErasedSSAValue):
            return ("erased",)
        if isinstance(v, OpResult):
            return ("r", lab.op(v.op), v.index)
        if isinstance(v, BlockArgument):
            return ("a", lab.value(v))
        return ("?", id(v))

    out = {}
    for o in region_ops_preorder(root_region):
        out[lab.op(o)] = (
            o.name,
            tuple(val(v) for v in o.operands),
            tuple(sorted((k, str(v)) for k, v in o.attributes.items())),
            tuple(sorted((k, str(v)) for k, v in o.properties.items())),
            tuple(str(r.type) for r in o.results),
            tuple(lab.block(s) for s in o.successors),
        )
    return out


def region_closed(region: Any) -> bool:
    """no op under `region` uses a value defined outside of it (then everything a generated pattern touches
    when it is applied to an op of the region — users, operand definers, siblings — is under the region)"""
    from xdsl.ir import Block, Operation

    inside_ops = {id(o) for o in region_ops_preorder(region)}

    def block_inside(b: Any) -> bool:
        cur = b
        for _ in range(10000):
            reg = cur.parent
            if reg is None:
                return False
            if reg is region:
                return True
            op = reg.parent
            if op is None or op.parent is None:
                return False
            cur = op.parent
        return False

    for o in region_ops_preorder(region):
        for v in o.operands:
            owner = v.owner
            if isinstance(owner, Operation):
                if id(owner) not in inside_ops:
                    return False
            elif isinstance(owner, Block):
                if not block_inside(owner):
                    return False
            else:
                return False
    return True


def stages_of(case: dict) -> list[dict]:
    """the calls made on the ONE walker of the case: the first one, then `case["hist"]`"""
    return [{"edit": "none", "rearm": 0, "target": "module"}] + list(case.get("hist", []))


def all_stages(obs: dict) -> list[dict]:
    return [obs] + obs.get("more", [])


def run_real(case: dict, observe: bool = True) -> dict:
    """Run the real walker on the case with full instrumentation: one PatternRewriteWalker object, one or
    several rewrite_module/rewrite_region calls on it (`case["hist"]`: per later call an edit of
    walker.listener, an optional re-arming of the IR by the user, the region handed to the call).
    Returns the observation dict of the first call; the later calls are under "more"; the whole
    push/remove/pop/bool trace of the walker's worklist object is under "wl_trace"."""
    from xdsl.dialects.builtin import IntAttr
    from xdsl.pattern_rewriter import (
        GreedyRewritePatternApplier,
        PatternRewriter,
        PatternRewriterListener,
        PatternRewriteWalker,
        RewritePattern,
    )
    from xdsl.transforms.dead_code_elimination import region_dce
    from xdsl.utils.worklist import _MISSING, Worklist

    cfg = case["cfg"]
    module, lab = build_ir(case["ir"])
    rootc: dict[str, Any] = {"r": module.body}

    def root() -> Any:
        return rootc["r"]

    pats = make_patterns(case["pats"], lab, int(cfg.get("via", 0)))
    hint_mode = int(cfg.get("hint", 0))
    if cfg.get("applier", "greedy") == "greedy":
        inner: Any = GreedyRewritePatternApplier(pats, dce_enabled=bool(cfg.get("dce", 0)))
    elif len(pats) == 1 and cfg.get("applier") == "single":
        inner = pats[0]
    else:
        class Seq(RewritePattern):
            """apply every pattern in turn while the op is still attached"""
            def match_and_rewrite(self, op, rewriter):
                for p in pats:
                    if op.parent is None:
                        return
                    p.match_and_rewrite(op, rewriter)
        inner = Seq()

    undisciplined: list[str] = []
    rec: dict[str, Any] = {"cur": [], "undisciplined": undisciplined}
    events: list[list[str]] = []      # what each handler set saw (index = handler set)
    registered: list[int] = []        # handler sets currently held by walker.listener, in list order
    wl_trace: list[list] = []         # [op, arg, output, items present afterwards (bottom first)]
    cur: dict[str, Any] = {}          # observation dict of the running call

    def handlers() -> tuple[int, dict[str, list]]:
        k = len(events)
        ev: list[str] = []
        events.append(ev)
        return k, {
            "operation_insertion_handler": [lambda op: ev.append(f"i{lab.op(op)}")],
            "operation_removal_handler": [lambda op: ev.append(f"x{lab.op(op)}")],
            "operation_modification_handler": [lambda op: ev.append(f"m{lab.op(op)}")],
            "operation_replacement_handler": [lambda op, vals: ev.append(f"r{lab.op(op)}")],
            "block_creation_handler": [lambda b: ev.append("b")],
        }

    def marks() -> list[int]:
        return [len(e) for e in events]

    def since(e0: list[int]) -> dict[int, list[str]]:
        return {k: list(events[k][(e0[k] if k < len(e0) else 0):]) for k in range(len(events))}

    def primary(evs: dict[int, list[str]]) -> list[str]:
        return evs[registered[0]] if registered else []

    tracer_state: dict[str, Any] = {"in_populate": False, "pushes": [], "invocations": 0}
    rng = random.Random(f"wl:{cfg['perturb']}") if cfg.get("perturb") is not None else None

    class TraceWL(Worklist):  # type: ignore[type-arg]
        """the walker's worklist: the real Worklist, every operation recorded with its result and the
        items present afterwards; with a schedule seed `pop` hands out a random present item (taken out
        with the real `remove`)"""
        def _log(self, op: str, arg: Any, out: str) -> None:
            wl_trace.append([op, arg, out, [lab.op(x) for x in self.present()]])

        def push(self, item):
            if tracer_state["in_populate"]:
                tracer_state["pushes"].append(lab.op(item))
            try:
                super().push(item)
            except Exception as e:  # noqa: BLE001
                self._log("push", lab.op(item), "raise " + core.exc_name(e))
                raise
            self._log("push", lab.op(item), "ok")

        def remove(self, item):
            try:
                super().remove(item)
            except Exception as e:  # noqa: BLE001
                self._log("remove", lab.op(item), "raise " + core.exc_name(e))
                raise
            self._log("remove", lab.op(item), "ok")

        def __bool__(self):
            r = super().__bool__()
            self._log("bool", None, "bool " + ("true" if r else "false"))
            return r

        def pop(self):
            it = self._pop()
            tracer_state["last_pop"] = (lab.op(it), is_attached(it, root()))
            return it

        def _pop(self):
            if rng is None:
                try:
                    it = super().pop()
                except Exception as e:  # noqa: BLE001
                    self._log("pop", None, "raise " + core.exc_name(e))
                    raise
                self._log("pop", None, f"item {lab.op(it)}")
                return it
            items = self.present()
            if not items:
                raise IndexError("pop from empty worklist")
            it = items[rng.randrange(len(items))]
            self.remove(it)
            return it

        def present(self):
            return [x for x in self._stack if x is not _MISSING]

    class Top(RewritePattern):
        """invocation logger around the pattern under test"""
        def match_and_rewrite(self, op, rewriter: PatternRewriter):
            tracer_state["invocations"] += 1
            if tracer_state["invocations"] > MAX_INVOCATIONS:
                raise Abort()
            att = is_attached(op, root())
            m: dict[str, Any] = {"op": lab.op(op), "attached": att, "erased": op.parent is None}
            if observe:
                snap0 = snapshot(root(), lab)
                text0 = print_module(module)
            rec["cur"] = []
            e0 = marks()
            raised = None
            try:
                # Builder state a pattern may set before it builds ops: the name hint for fresh results
                # (1: every match, 2: every other invocation, 3: a name with a numeric suffix, which the
                # setter strips); the walker resets it before every match
                if hint_mode == 1 or (hint_mode == 2 and tracer_state["invocations"] % 2 == 1):
                    rewriter.name_hint = "fresh"
                elif hint_mode == 3:
                    rewriter.name_hint = "fresh_7"
                m["hint"] = rewriter.name_hint
                inner.match_and_rewrite(op, rewriter)
            except Abort:
                raise
            except Exception as e:  # noqa: BLE001
                raised = e
            m["flag"] = bool(rewriter.has_done_action)
            m["acts"] = rec["cur"]
            rec["cur"] = []
            m["ev_all"] = since(e0)
            m["events"] = primary(m["ev_all"])
            m["wl"] = [lab.op(x) for x in reversed(walker._worklist.present())]
            m["att_after"] = sorted(lab.op(o) for o in region_ops_preorder(root()))
            if observe:
                snap1 = snapshot(root(), lab)
                try:
                    text1 = print_module(module)
                except Exception as e:  # noqa: BLE001
                    text1 = "unprintable:" + core.exc_name(e)
                m["text_changed"] = text0 != text1
                m["new"] = sorted(set(snap1) - set(snap0))
                m["gone"] = sorted(set(snap0) - set(snap1))
                m["modified"] = sorted(k for k in snap0 if k in snap1 and snap0[k] != snap1[k])
                # ancestors (for coverage of nested ops by the event of an ancestor)
                m["new_anc"] = {}
                for o in region_ops_preorder(root()):
                    if lab.op(o) in m["new"]:
                        m["new_anc"][lab.op(o)] = [lab.op(a) for a in ancestors(o)]
            cur["matches"].append(m)
            if raised is not None:
                m["raised"] = core.exc_name(raised)
                raise raised

    top = Top()
    kwargs: dict[str, Any] = dict(
        walk_regions_first=bool(cfg["rf"]), apply_recursively=bool(cfg["rec"]), walk_reverse=bool(cfg["rev"]))
    if cfg.get("post"):
        def post(region, l):
            from xdsl.ir import ErasedSSAValue, Operation
            e0 = marks()
            acts: list[tuple] = []

            class Proxy:
                """records what the walker's removal handler is about to read, then forwards"""
                def handle_operation_removal(self, op):
                    defs = [lab.op(v.owner) for v in op.operands
                            if not isinstance(v, ErasedSSAValue) and len(list(v.uses)) == 1
                            and isinstance(v.owner, Operation)]
                    acts.append(("erase", lab.op(op), [lab.op(x) for x in nested_ops(op)], defs))
                    l.handle_operation_removal(op)

            att0 = {lab.op(o) for o in region_ops_preorder(root())}
            r = region_dce(region, Proxy())
            att1 = {lab.op(o) for o in region_ops_preorder(root())}
            covered = set()
            for a in acts:
                covered |= {a[1], *a[2]}
            ev_all = since(e0)
            cur["posts"].append({
                "n": len(cur["matches"]), "ret": bool(r), "events": primary(ev_all), "ev_all": ev_all, "acts": acts,
                "wl": [lab.op(x) for x in reversed(walker._worklist.present())],
                "att_after": sorted(att1), "silently_gone": sorted((att0 - att1) - covered),
            })
            return r
        kwargs["post_walk_func"] = post

    lst_mode = cfg.get("lst", 1)
    if lst_mode == 0:
        walker = PatternRewriteWalker(top, **kwargs)
    else:
        k0, h0 = handlers()
        listener = PatternRewriterListener(**h0)
        registered.append(k0)
        if lst_mode == 2:
            k1, h1 = handlers()
            for name, v in h1.items():
                getattr(listener, name).extend(v)
            registered.append(k1)
        if lst_mode == 3:
            walker = PatternRewriteWalker(top, **kwargs)
            walker.listener = listener
        else:
            walker = PatternRewriteWalker(top, listener=listener, **kwargs)
    walker._worklist = TraceWL()

    orig_populate = walker._populate_worklist

    def populate(region):
        tracer_state["in_populate"] = True
        tracer_state["pushes"] = []
        intended = [lab.op(o) for o in intended_order(region, bool(cfg["rev"]), bool(cfg["rf"]))]
        try:
            orig_populate(region)
        finally:
            tracer_state["in_populate"] = False
        cur["sweeps"].append({"n": len(cur["matches"]), "pushes": list(tracer_state["pushes"]),
                              "intended": intended})

    walker._populate_worklist = populate  # type: ignore[method-assign]

    def rearm() -> None:
        """user code between two calls: exhausted countdown markers are set to 1 again"""
        for o in region_ops_preorder(module.body):
            for name in COUNTDOWN_ATTRS:
                a = o.attributes.get(name)
                if isinstance(a, IntAttr) and a.data == 0:
                    o.attributes[name] = IntAttr(1)

    def pick_target(kind: str) -> Any:
        if kind == "inner":
            for o in module.body.block.ops:
                if o.regions and list(o.regions[0].blocks) and region_closed(o.regions[0]):
                    return o.regions[0]
        return module.body

    all_obs: list[dict] = []
    n_first_sets = 0
    for si, st in enumerate(stages_of(case)):
        # --- what the user does between two calls
        edit_line = None
        if st.get("edit") == "add":
            k, h = handlers()
            for name, v in h.items():
                getattr(walker.listener, name).extend(v)
            registered.append(k)
            edit_line = f"listener add {k}"
        elif st.get("edit") == "replace":
            k, h = handlers()
            walker.listener = PatternRewriterListener(**h)
            registered[:] = [k]
            edit_line = f"listener replace {k}"
        if st.get("rearm"):
            rearm()
        rootc["r"] = pick_target(st.get("target", "module"))
        tracer_state["invocations"] = 0
        tracer_state.pop("last_pop", None)
        if si == 0:
            n_first_sets = len(events)
        obs: dict[str, Any] = {
            "stage": si, "matches": [], "sweeps": [], "posts": [], "undisciplined": undisciplined,
            "initial_text": print_module(module), "init": sorted(lab.op(o) for o in region_ops_preorder(root())),
            "registered": list(registered),
            # handler sets that were put on walker.listener after the first call of this walker
            "late": [k for k in registered if k >= n_first_sets],
            "edit_line": edit_line, "whole_module": root() is module.body, "wl_start": len(wl_trace),
        }
        cur = obs
        all_obs.append(obs)
        obs["ret"] = None
        obs["raised"] = None
        e_start = marks()
        with patched_rewriter(rec, lab, root):
            try:
                if root() is module.body:
                    obs["ret"] = bool(walker.rewrite_module(module))
                else:
                    obs["ret"] = bool(walker.rewrite_region(root()))
            except Abort:
                obs["raised"] = "Abort"
            except Exception as e:  # noqa: BLE001
                obs["raised"] = core.exc_name(e) + ": " + re.sub(r"\b\d{9,}\b", "#", str(e)[:200])
        obs["stage_events"] = since(e_start)
        obs["leftover_wl"] = [lab.op(x) for x in walker._worklist.present()]
        obs["last_pop"] = tracer_state.get("last_pop")
        try:
            obs["final_text"] = print_module(module)
        except Exception as e:  # noqa: BLE001
            obs["final_text"] = "unprintable:" + core.exc_name(e)
        obs["lst_mode"] = lst_mode

        # fixpoint probe: a fresh non-recursive walk with the same patterns must change nothing
        if obs["raised"] is None and cfg["rec"]:
            probe_inv: list[int] = []

            class Probe(RewritePattern):
                def match_and_rewrite(self, op, rewriter):
                    probe_inv.append(lab.op(op))
                    inner.match_and_rewrite(op, rewriter)

            try:
                r2 = PatternRewriteWalker(Probe(), apply_recursively=False).rewrite_region(root())
                obs["probe"] = {"ret": bool(r2), "text_same": print_module(module) == obs["final_text"],
                                "visited": len(probe_inv)}
            except Exception as e:  # noqa: BLE001
                obs["probe"] = {"raised": core.exc_name(e)}
        if obs["raised"] is not None or undisciplined:
            break
    first = all_obs[0]
    first["more"] = all_obs[1:]
    first["wl_trace"] = wl_trace
    return first


# ---------------------------------------------------------------------------------------------
# direct oracle of the property's five clauses on the real observations
# ---------------------------------------------------------------------------------------------

def demanded_events(acts: list) -> list[str]:
    """events the sentence demands for the recorded rewriter calls"""
    out = []
    for a in acts:
        if a[0] == "ins":
            out.append(f"i{a[1]}")
        elif a[0] == "rep":
            out.append(f"r{a[1]}")
        elif a[0] == "rauw":
            out.extend(f"m{u}" for u in a[2])
        elif a[0] == "erase":
            out.append(f"x{a[1]}")
        elif a[0] == "mod":
            out.append(f"m{a[1]}")
        elif a[0] == "inline":
            out.extend(f"m{u}" for u in a[2])
    return out


WL_SITE = "xdsl.utils.worklist.Worklist."
WL_SIG = "the walker's worklist does not behave like a duplicate-free LIFO stack"
LATE_SIG = "handlers put on walker.listener after an earlier call of the same walker are not notified"


def wl_spec_divergence(trace: list) -> tuple[int, str, list[int]] | None:
    """independent reference for the worklist object: a duplicate-free stack (top at the end).  Returns the
    first operation whose result or resulting contents differ: (index, expected result, expected items)."""
    l: list[int] = []
    for i, (op, arg, out, present) in enumerate(trace):
        if op == "push":
            if arg not in l:
                l.append(arg)
            exp = "ok"
        elif op == "remove":
            if arg in l:
                l.remove(arg)
            exp = "ok"
        elif op == "pop":
            exp = f"item {l.pop()}" if l else "raise IndexError"
        else:
            exp = "bool " + ("true" if l else "false")
        if out != exp or present != l:
            return i, exp, list(l)
    return None


def wl_complaint(obs: dict) -> tuple[str, str, str] | None:
    trace = obs.get("wl_trace", [])
    d = wl_spec_divergence(trace)
    if d is None:
        return None
    i, exp, items = d
    op, arg, out, present = trace[i]
    before = [" ".join(str(x) for x in t[:2] if x is not None) for t in trace[max(0, i - 6):i]]
    return (WL_SITE + ("__bool__" if op == "bool" else op), WL_SIG,
            f"worklist operation #{i} `{op}{'' if arg is None else ' ' + str(arg)}` of the walker (after … {before}): "
            f"result {out}, items present afterwards {present}; a duplicate-free stack gives {exp} and holds {items}")


def oracle(case: dict, obs: dict) -> list[tuple[str, str, str]]:
    """returns (call_site, signature, description) complaints over all calls of the history"""
    stages = all_stages(obs)
    out: list[tuple[str, str, str]] = []
    wl_bad = wl_complaint(obs)
    if wl_bad is not None:
        out.append(wl_bad)
    detached = any(not m["attached"] for st in stages for m in st["matches"])
    walker_at_fault = wl_bad is not None or detached
    # a run that leaves the quantifier (non-terminating or undisciplined pattern set) is a harness defect —
    # unless the walker misbehaved first (lost/stale worklist entries make terminating sets loop, and a pattern
    # handed a detached op does undisciplined things)
    if any(st["raised"] == "Abort" for st in stages) and not walker_at_fault:
        raise core.InfraError(f"pattern set did not terminate: {json.dumps(case)[:300]}")
    if obs["undisciplined"] and not walker_at_fault:
        raise core.InfraError(f"generated pattern is outside the quantifier ({obs['undisciplined'][:2]}): {json.dumps(case)[:600]}")
    for st in stages:
        out.extend(oracle_stage(case, st, only_visits=bool(obs["undisciplined"]) or st["raised"] == "Abort"))
    seen: set = set()
    uniq = []
    for c in out:
        if (c[0], c[1]) not in seen:
            seen.add((c[0], c[1]))
            uniq.append(c)
    return uniq


def oracle_stage(case: dict, obs: dict, only_visits: bool = False) -> list[tuple[str, str, str]]:
    """the five clauses of the sentence on one call"""
    out: list[tuple[str, str, str]] = []
    W = "xdsl.pattern_rewriter.PatternRewriteWalker"
    R = "xdsl.pattern_rewriter.PatternRewriter"
    call = f"call #{obs['stage']} of the walker: " if obs["stage"] else ""
    reg = obs["registered"]
    late = set(obs["late"])
    for m in obs["matches"]:
        # (3) never invoked on an erased / detached op
        if not m["attached"]:
            out.append((W + "._process_worklist", "pattern invoked on an erased or detached operation",
                        f"{call}op {m['op']} was {'erased' if m['erased'] else 'detached from the root region'} when the pattern was invoked"))
    if only_visits:
        return out
    if obs["raised"] is not None:
        # an exception escaping the walker although every pattern is well-behaved
        det = [m for m in obs["matches"] if not m["attached"]]
        lp = obs.get("last_pop")
        if lp is not None and not lp[1] and (not obs["matches"] or obs["matches"][-1]["op"] != lp[0]):
            # the walker took an erased/detached op from the worklist and failed while preparing the
            # rewriter for it (InsertPoint.before needs a parent block): same stale-entry defect
            out.append((W + "._process_worklist", "pattern invoked on an erased or detached operation",
                        f"{call}op {lp[0]} was erased or detached when the walker popped it for rewriting; the walker raised {obs['raised']}"))
        elif not det:
            out.append((W + ".rewrite_region", "walker raised on a well-behaved pattern set", call + obs["raised"]))
        return out

    def handler_sets_agree(ev_all: dict, what: str) -> None:
        # every handler set held by walker.listener when the call was made hears the same events
        for k in reg[1:]:
            if ev_all.get(k, []) != ev_all.get(reg[0], []):
                kl = k if k in late else reg[0]
                if kl in late:
                    out.append((W + "._get_rewriter_listener", LATE_SIG,
                                f"{call}{what}: handler set {reg[0]} saw {ev_all.get(reg[0], [])}, handler set {k} saw "
                                f"{ev_all.get(k, [])}; set {kl} was put on walker.listener after the first call"))
                else:
                    out.append((W + "._get_rewriter_listener", "two registered handlers saw different events",
                                f"{call}{what}: {ev_all.get(reg[0], [])} vs {ev_all.get(k, [])}"))
                return

    for m in obs["matches"]:
        if "text_changed" not in m:
            continue
        mutated = m["text_changed"] or m["new"] or m["gone"] or m["modified"]
        # (5) action flag set whenever the match mutated the IR
        if mutated and not m["flag"]:
            kinds = sorted({a[0] for a in m["acts"]})
            site = R + (".create_block" if kinds == ["blk"] else
                        ".replace_uses_with_if" if any(a[0] == "rauw" and len(a) > 3 for a in m["acts"]) else ".has_done_action")
            out.append((site, "has_done_action false after a match that mutated the IR",
                        f"{call}match on op {m['op']} made calls {kinds} and changed the IR but has_done_action is False"))
        # (4) every insertion / removal / replacement / modification is reported
        if not reg:
            continue   # no handler registered for this call: nothing to observe
        ev = list(m["events"])
        missing = []
        pool = list(ev)
        for d in demanded_events(m["acts"]):
            if d in pool:
                pool.remove(d)
            else:
                missing.append(d)
        # diff based: new ops covered by an insertion event of themselves or an ancestor
        ins = {int(e[1:]) for e in ev if e[0] == "i"}
        for n in m["new"]:
            if n not in ins and not (set(m["new_anc"].get(str(n), m["new_anc"].get(n, []))) & ins):
                missing.append(f"i{n}(diff)")
        rem_cover: set[int] = set()
        for a in m["acts"]:
            if a[0] == "erase" and f"x{a[1]}" in ev:
                rem_cover |= {a[1], *a[2]}
        for g in m["gone"]:
            if g not in rem_cover:
                missing.append(f"x{g}(diff)")
        mods = {int(e[1:]) for e in ev if e[0] == "m"}
        for k in m["modified"]:
            if k not in mods:
                missing.append(f"m{k}(diff)")
        if missing:
            kinds = [a[0] for a in m["acts"]]
            if "inline" in kinds and all(x.startswith("m") for x in missing):
                site, sig = R + ".inline_block", "operand rewrite of the block-argument users is not reported to listeners"
            elif any(a[0] == "rauw" and len(a) > 3 for a in m["acts"]) and all(x.startswith("m") for x in missing):
                site, sig = R + ".replace_uses_with_if", "operand rewrite of an accepted use is not reported to listeners"
            elif reg[0] in late and any(x.split("(")[0] in e for k, e in m["ev_all"].items() if k != reg[0] for x in missing):
                # some other handler set (one registered earlier, or one no longer on walker.listener) did hear it
                site, sig = W + "._get_rewriter_listener", LATE_SIG
            elif any(a[0] == "ins" for a in m["acts"]) and all(x.startswith("i") for x in missing):
                site, sig = R + ".insert", "insertion made through the rewriter is not reported to the registered listeners"
            else:
                site, sig = R + ".handle_operation_*", "rewriter call not reported to the registered listeners"
            out.append((site, sig, f"{call}match on op {m['op']}: calls {[show_action(a) for a in m['acts']]} "
                                   f"handler set {reg[0]} saw {ev}; unreported: {missing}"))
        handler_sets_agree(m["ev_all"], f"match on op {m['op']}")
    for p in obs["posts"]:
        if not reg:
            continue
        missing = [f"x{a[1]}" for a in p["acts"] if a[0] == "erase" and f"x{a[1]}" not in p["events"]]
        if missing:
            site, sig = ((W + "._get_rewriter_listener", LATE_SIG) if reg[0] in late else
                         (W + ".rewrite_region", "post-walk removal not reported to the registered listeners"))
            out.append((site, sig, f"{call}post-walk function erased {[a[1] for a in p['acts']]} through the listener it "
                                   f"was given; handler set {reg[0]} saw {p['events']}; unreported: {missing}"))
        handler_sets_agree(p["ev_all"], "post-walk function")
    # (2) flag returned whenever the IR changed
    if obs["final_text"] != obs["initial_text"] and obs["ret"] is not True:
        out.append((W + ".rewrite_region", "IR changed but the walker returned False",
                    call + "final text differs from the initial text, returned " + str(obs["ret"])))
    # (1) fixpoint on return in recursive mode
    p = obs.get("probe")
    if p is not None:
        if "raised" in p:
            out.append((W + ".rewrite_region", "re-applying the patterns after the walk raised", call + p["raised"]))
        elif p["ret"] or not p["text_same"]:
            out.append((W + ".rewrite_region", "not a fixpoint: a pattern still changes the region after a recursive walk returned",
                        f"{call}fresh non-recursive walk returned {p['ret']}, text unchanged = {p['text_same']}"))
    # configured visiting order on the first sweep (LIFO only)
    if obs["sweeps"] and case["cfg"].get("perturb") is None:
        s0 = obs["sweeps"][0]
        if s0["pushes"] != list(reversed(s0["intended"])):
            out.append((W + "._populate_worklist", "worklist is not populated in the reverse of the configured walk order",
                        f"{call}pushes {s0['pushes']} intended visiting order {s0['intended']}"))
    return out


# ---------------------------------------------------------------------------------------------
# correspondence with the Lean model
# ---------------------------------------------------------------------------------------------

def model_lines(case: dict, obs: dict) -> list[str]:
    """protocol lines of ONE call (`obs` = observation of that call); the calls of a history must be sent in
    order: `next` keeps the model walker's worklist and registered handlers"""
    cfg = case["cfg"]
    head = "next" if obs["stage"] else "reset"
    lines = [f"{head} {int(bool(cfg['rec']))} {int(bool(cfg.get('post')))}"]
    if obs["stage"] == 0 and obs["registered"]:
        lines.append("listener replace " + " ".join(map(str, obs["registered"])))
    if obs.get("edit_line"):
        lines.append(obs["edit_line"])
    lines.append("init " + " ".join(map(str, obs["init"])))
    sweeps = {s["n"]: s for s in reversed(obs["sweeps"])}
    posts: dict[int, list] = {}
    for p in obs["posts"]:
        posts.setdefault(p["n"], []).append(p)
    for s in obs["sweeps"]:
        lines.append(f"sweep {s['n']} " + " ".join(map(str, s["pushes"])))
    for m in obs["matches"]:
        lines.append(f"entry {m['op']}")
        for a in m["acts"]:
            lines.append("act " + show_action(a))
    for p in obs["posts"]:
        lines.append(f"postwalk {p['n']} {int(p['ret'])}")
        for a in p["acts"]:
            lines.append("pact " + show_action(a))
    if cfg.get("perturb") is not None:
        lines.append("picks " + " ".join(str(m["op"]) for m in obs["matches"]))
    lines.append(f"run {MAX_INVOCATIONS + 50}")
    return lines


def impl_trace(case: dict, obs: dict) -> str:
    items: list[tuple[int, int, str]] = []
    for i, s in enumerate(obs["sweeps"]):
        items.append((s["n"], 0, "S " + " ".join(map(str, s["pushes"]))))
    for i, m in enumerate(obs["matches"]):
        items.append((i, 1, f"M {m['op']} {'a' if m['attached'] else 'd'} {'true' if m['flag'] else 'false'} | "
                            f"{' '.join(map(str, m['wl']))} | {' '.join(m['events'])} | {' '.join(map(str, m['att_after']))}"))
    order = []
    mi = 0
    # interleave: sweep k starts before match n_k; post follows the matches of its sweep
    sweeps = list(obs["sweeps"])
    posts = list(obs["posts"])
    out: list[str] = []
    for k, s in enumerate(sweeps):
        out.append("S " + " ".join(map(str, s["pushes"])))
        end = sweeps[k + 1]["n"] if k + 1 < len(sweeps) else len(obs["matches"])
        for i in range(s["n"], end):
            m = obs["matches"][i]
            out.append(f"M {m['op']} {'a' if m['attached'] else 'd'} {'true' if m['flag'] else 'false'} | "
                       f"{' '.join(map(str, m['wl']))} | {' '.join(m['events'])} | {' '.join(map(str, m['att_after']))}")
        if k < len(posts):
            p = posts[k]
            changed = any(obs["matches"][i]["flag"] for i in range(s["n"], end)) or p["ret"]
            out.append(f"P {'true' if changed else 'false'} | {' '.join(map(str, p['wl']))} | "
                       f"{' '.join(p['events'])} | {' '.join(map(str, p['att_after']))}")
    out.append(f"R {'true' if obs['ret'] else 'false'} used {len(obs['matches'])} of {len(obs['matches'])}")
    # what every handler set held by walker.listener at the time of the call heard during the call
    for k in obs["registered"]:
        out.append(f"L {k}: {' '.join(obs['stage_events'].get(k, []))}")
    return " ; ".join(out)


def wl_model_lines(trace: list) -> tuple[list[str], list[str]]:
    """the walker's worklist trace as protocol lines of the C12 model `worklist` (+ the contents query after
    every operation) and what the real worklist answered"""
    lines, impl = ["reset"], ["ok"]
    for op, arg, out, present in trace:
        lines.append(op if arg is None else f"{op} {arg}")
        impl.append(out)
        lines.append("abs")
        impl.append(" ".join(["items", *map(str, reversed(present))]))
    return lines, impl


# ---------------------------------------------------------------------------------------------
# generation, shrinking, run, replay
# ---------------------------------------------------------------------------------------------

def op1(i: int, **kw: Any) -> dict:
    d = {"id": i, "o": [], "nr": 0, "a": {}, "r": []}
    d.update(kw)
    return d


def seed_cases() -> list[dict]:
    """hand-written minimal inputs, one per rewriter mutator / walker path (kept in the enumeration so
    that a defect that was found once is re-found deterministically)"""
    base_cfg = {"rf": 0, "rev": 0, "rec": 1, "lst": 1, "post": 0, "perturb": None, "applier": "single", "dce": 0}
    irs = {
        "flat": {"bid": 0, "ops": [op1(0, nr=1, a={"c": 1, "i": 1, "r": 1, "u": 1, "rr": 1}),
                                   op1(1, o=[["r", 0, 0]], nr=1, a={"e": 1, "fw": 1, "u": 1, "c": 2}),
                                   op1(2, o=[["r", 1, 0]], nr=1, a={"e": 1, "r": 2, "i": 2})]},
        "dup": {"bid": 0, "ops": [op1(0, nr=1, a={"ty": 1}), op1(1, o=[["r", 0, 0]], nr=1, a={"ui": 1, "u": 1, "ty": 1}),
                                  op1(2, o=[["r", 1, 0], ["r", 1, 0]], a={"ud": 1}),
                                  op1(3, o=[["r", 0, 0], ["r", 1, 0], ["r", 1, 0]], nr=1, a={"ud": 1, "fw": 1}),
                                  op1(4, o=[["r", 1, 0], ["r", 3, 0], ["r", 1, 0]], a={"ud": 1, "e": 1})]},
        "region": {"bid": 0, "ops": [op1(0, nr=1), op1(1, o=[["r", 0, 0]], nr=1,
                   a={"l": 1, "ba": 1, "be": 1, "br": 1, "cb": 1, "e": 1, "r": 1, "tb": 1, "ty": 1},
                   r=[[{"bid": 1, "na": 1, "ops": [op1(2, o=[["a", 1, 0]], nr=1, a={"c": 1, "e": 1}),
                                                  op1(3, o=[["r", 2, 0]], nr=0, a={"c": 1})]}]])]},
        "dead_chain": {"bid": 0, "ops": [op1(0, nr=1, pure=1, a={"c": 1}), op1(1, o=[["r", 0, 0]], nr=1, pure=1),
                                         op1(2, o=[["r", 1, 0]], nr=1, pure=1, a={"c": 2, "e": 1}),
                                         op1(3, r=[[{"bid": 1, "na": 0, "ops": [op1(4, nr=1, pure=1), op1(5, o=[["r", 4, 0]], pure=1)]}]])]},
    }
    out = []
    for name, ir in irs.items():
        for pv in PATTERN_VARIANTS:
            for rec in (1, 0):
                cfg = dict(base_cfg, rec=rec)
                out.append({"ir": ir, "pats": [pv], "cfg": cfg})
        for dce in (0, 1):
            for rec in (1, 0):
                out.append({"ir": ir, "pats": [["modify"]], "cfg": dict(base_cfg, post=1, applier="greedy", dce=dce, rec=rec)})
    # all eight walk configurations on the nested IR with a mixed pattern set
    for rf in (0, 1):
        for rev in (0, 1):
            for rec in (0, 1):
                out.append({"ir": irs["region"], "pats": [["erase"], ["modify"], ["insert", 0, 1], ["inline", 0]],
                            "cfg": dict(base_cfg, rf=rf, rev=rev, rec=rec, applier="greedy", lst=2)})
    # a match erases a queued sibling, later matches push fresh ops, one of which erases the other while it is
    # still queued (worklist: remove below pushes, then remove of an item pushed after the hole)
    sib = {"bid": 0, "ops": [op1(0, a={"kn": 1, "x": 1}), op1(1, a={"c": 1}), op1(2, a={"c": 1}), op1(3, a={"c": 1})]}
    for rf in (0, 1):
        out.append({"ir": sib, "pats": [["kill", 1], ["expand", 0, 0], ["kill", 0], ["modify"]],
                    "cfg": dict(base_cfg, rf=rf, applier="greedy")})
    # Builder state set by the pattern (name hint for fresh results x how the ops reach the rewriter) x fresh
    # ops with 0 / 1 / 2 results, inserted alone, as a list, or as part of a replacement
    for hint in (0, 1, 2, 3):
        for via in (0, 1, 2):
            if hint == 0 and via == 0:
                continue
            for pats in ([["insert", 0, 1, 0], ["insert", 1, 1, 2], ["modify"]], [["expand", 1, 0], ["kill", 0], ["modify"]],
                         [["replace", 2], ["modify"]], [["replace", 1], ["insert", 1, 0, 0]]):
                out.append({"ir": irs["flat"], "pats": pats, "cfg": dict(base_cfg, applier="greedy", hint=hint, via=via)})
    # several calls on one walker, walker.listener edited in between
    for edit in ("add", "replace"):
        for rec in (1, 0):
            out.append({"ir": irs["flat"], "pats": [["modify"], ["insert", 0, 1]],
                        "cfg": dict(base_cfg, rec=rec, applier="greedy"),
                        "hist": [{"edit": edit, "rearm": 1, "target": "module"},
                                 {"edit": "add", "rearm": 1, "target": "module"}]})
    return out


def gen_case(rng: random.Random, max_size: int) -> dict:
    k = rng.choice([1, 1, 2, 2, 3, 4])
    pvs = rng.sample(PATTERN_VARIANTS, k)
    if rng.random() < 0.12:
        # patterns that erase ops other than the matched one, with something that pushes fresh ops
        pvs = [rng.choice([["kill", 0], ["kill", 1]]),
               rng.choice([["expand", rng.randint(0, 1), rng.randint(0, 1)], ["insert", rng.randint(0, 1), 1],
                           ["replace", 1], ["modify"]])] + pvs[:2]
    # the ops made by `expand` carry a kill marker: the matching kill pattern belongs to the set
    for pv in list(pvs):
        if pv[0] == "expand" and ["kill", pv[2]] not in pvs:
            pvs.append(["kill", pv[2]])
    post = int(rng.random() < 0.3)
    seen: set = set()
    pats = []
    for pv in pvs:
        if (pv[0] in seen and pv[0] != "kill") or pv in pats or (pv[0] == "barg_erase" and "barg_add" in seen) or (pv[0] == "barg_add" and "barg_erase" in seen):
            continue   # add/erase of unused block arguments together would not terminate
        dedup_ok = {"dedup", "modify", "insert", "erase", "retype", "barg_add", "create_block", "kill", "expand"}
        if (pv[0] == "dedup" and not seen <= dedup_ok) or ("dedup" in seen and pv[0] not in dedup_ok):
            continue   # dedup moves a use down to the previous op's result, the forwarding patterns move it
                       # back up: together they would not terminate
        if post and pv[0] == "create_block":
            continue   # region_dce deletes the unreachable new block again: would not terminate
        seen.add(pv[0]); pats.append(pv)
    if not pats:
        pats = [["modify"]]
    attrs = sorted({pattern_attr(p) for p in pats} | ({"c"} if rng.random() < 0.3 else set()))
    # region_dce erases unreachable blocks wholesale (no listener call, C13's business): single-block
    # regions only when the post-walk function is installed
    ir = gen_ir(rng, rng.randint(1, max_size), attrs, rng.random() < 0.5 and not post)
    applier = rng.choice(["greedy", "greedy", "seq"]) if len(pats) > 1 else rng.choice(["greedy", "single", "seq"])
    cfg = {
        "rf": rng.randint(0, 1), "rev": rng.randint(0, 1), "rec": rng.choice([1, 1, 0]),
        "lst": rng.choice([0, 1, 1, 2, 3]), "post": post,
        "perturb": rng.randrange(1 << 30) if rng.random() < 0.5 else None,
        "applier": applier, "dce": int(rng.random() < 0.3),
    }
    # Builder state used by the patterns of the case (absent = the plain `rewriter.insert(ops, point)` without
    # a name hint)
    if rng.random() < 0.4:
        cfg["hint"] = rng.choice([1, 1, 2, 3])
    if rng.random() < 0.3:
        cfg["via"] = rng.choice([1, 2])
    case = {"ir": ir, "pats": pats, "cfg": cfg}
    if rng.random() < 0.3:
        # further calls on the same walker object; between two calls the user edits walker.listener, may re-arm
        # exhausted countdown markers, and chooses the region for the next call
        case["hist"] = [{"edit": rng.choice(["none", "add", "add", "replace", "replace"]),
                         "rearm": rng.choice([0, 1, 1]),
                         "target": rng.choice(["module", "module", "inner"])}
                        for _ in range(rng.choice([1, 1, 2]))]
    return case


def ir_candidates(ir: dict):
    """smaller IR specs: drop an op (with its subtree) that nobody outside refers to, drop an attr,
    an operand, a result, a block argument, an empty block, an empty region"""
    def refs(o: dict) -> set:
        out = set()
        for x in spec_ops({"ops": [o]}):
            for v in x.get("o", []):
                out.add(tuple(v))
        return out

    def defined(o: dict) -> set:
        out = set()
        for x in spec_ops({"ops": [o]}):
            for i in range(x.get("nr", 0)):
                out.add(("r", x["id"], i))
            for reg in x.get("r", []):
                for b in reg:
                    for i in range(b.get("na", 0)):
                        out.add(("a", b["bid"], i))
        return out

    all_ops = list(spec_ops(ir))
    all_refs = set()
    for o in all_ops:
        for v in o.get("o", []):
            all_refs.add(tuple(v))

    def paths(ops: list, prefix: tuple):
        for i, o in enumerate(ops):
            yield prefix + (i,), ops, i, o
            for ri, reg in enumerate(o.get("r", [])):
                for bi, b in enumerate(reg):
                    yield from paths(b["ops"], prefix + (i, ri, bi))

    def at(c: dict, path: tuple):
        ops = c["ops"]
        p = list(path)
        while len(p) > 1:
            i, ri, bi = p[0], p[1], p[2]
            ops = ops[i]["r"][ri][bi]["ops"]
            p = p[3:]
        return ops, p[0]

    for path, ops, i, o in list(paths(ir["ops"], ())):
        inner_refs = refs(o)
        d = defined(o)
        if not ((all_refs - inner_refs) & d):
            c = copy.deepcopy(ir)
            l, j = at(c, path)
            del l[j]
            yield c
    for path, ops, i, o in list(paths(ir["ops"], ())):
        for name in list(o.get("a", {})):
            c = copy.deepcopy(ir); l, j = at(c, path); del l[j]["a"][name]; yield c
        for name, v in o.get("a", {}).items():
            if v > 1:
                c = copy.deepcopy(ir); l, j = at(c, path); l[j]["a"][name] = 1; yield c
        for k in range(len(o.get("o", []))):
            c = copy.deepcopy(ir); l, j = at(c, path); del l[j]["o"][k]; yield c
        nr = o.get("nr", 0)
        if nr and ("r", o["id"], nr - 1) not in all_refs:
            c = copy.deepcopy(ir); l, j = at(c, path); l[j]["nr"] = nr - 1; yield c
        if o.get("pure"):
            c = copy.deepcopy(ir); l, j = at(c, path); l[j]["pure"] = 0; yield c
        for ri, reg in enumerate(o.get("r", [])):
            if not reg:
                c = copy.deepcopy(ir); l, j = at(c, path); del l[j]["r"][ri]; yield c
            for bi, b in enumerate(reg):
                if not b["ops"] and not any(("a", b["bid"], k) in all_refs for k in range(b.get("na", 0))):
                    c = copy.deepcopy(ir); l, j = at(c, path); del l[j]["r"][ri][bi]; yield c
                na = b.get("na", 0)
                if na and ("a", b["bid"], na - 1) not in all_refs:
                    c = copy.deepcopy(ir); l, j = at(c, path); l[j]["r"][ri][bi]["na"] = na - 1; yield c


def case_candidates(case: dict):
    hist = case.get("hist", [])
    for i in range(len(hist)):
        c = copy.deepcopy(case); del c["hist"][i]
        if not c["hist"]:
            del c["hist"]
        yield c
    for i, st in enumerate(hist):
        for k, v in (("target", "module"), ("rearm", 0), ("edit", "none")):
            if st.get(k) != v:
                c = copy.deepcopy(case); c["hist"][i][k] = v; yield c
    for i in range(len(case["pats"])):
        if len(case["pats"]) > 1:
            c = copy.deepcopy(case); del c["pats"][i]; yield c
    cfg = case["cfg"]
    for k, v in (("perturb", None), ("post", 0), ("dce", 0), ("lst", 1), ("rf", 0), ("rev", 0)):
        if cfg.get(k) != v:
            c = copy.deepcopy(case); c["cfg"][k] = v; yield c
    for k in ("via", "hint"):
        if cfg.get(k):
            c = copy.deepcopy(case); del c["cfg"][k]; yield c
    if cfg.get("hint", 0) > 1:
        c = copy.deepcopy(case); c["cfg"]["hint"] = 1; yield c
    if cfg.get("applier") != "single" and len(case["pats"]) == 1:
        c = copy.deepcopy(case); c["cfg"]["applier"] = "single"; yield c
    for ir in ir_candidates(case["ir"]):
        c = copy.deepcopy(case); c["ir"] = ir; yield c


def oracle_safe(case: dict, obs: dict) -> list[tuple[str, str, str]]:
    try:
        return oracle(case, obs)
    except core.InfraError:
        return []


def complaints_of(case: dict) -> list[tuple[str, str, str]]:
    return oracle_safe(case, run_real(case, observe=True))


def shrink_case(case: dict, key: tuple[str, str], max_runs: int = 400) -> dict:
    cur = case
    runs = 0
    progress = True
    while progress and runs < max_runs:
        progress = False
        for cand in case_candidates(cur):
            runs += 1
            if runs > max_runs:
                break
            if any((s, g) == key for s, g, _ in complaints_of(cand)):
                cur = cand
                progress = True
                break
    return cur


def summarize(obs: dict) -> dict:
    def one(st: dict) -> dict:
        return {
            "returned": st["ret"], "raised": st["raised"], "handler_sets_on_listener": st["registered"],
            "matches": [{k: m[k] for k in ("op", "attached", "flag", "events", "wl") if k in m} |
                        {"calls": [show_action(a) for a in m["acts"]]} for m in st["matches"][:12]],
            "sweeps": [s["pushes"] for s in st["sweeps"][:4]],
            "probe": st.get("probe"), "final_text": st["final_text"][:1500],
        }
    d = one(obs)
    if obs.get("more"):
        d["later_calls"] = [one(st) for st in obs["more"]]
    w = wl_complaint(obs)
    if w is not None:
        d["worklist"] = w[2]
    return d


FOUND: dict[tuple[str, str], tuple] = {}


def report_found(ctx: core.Ctx) -> None:
    for (site, sig), (_, small, sdesc, summary) in FOUND.items():
        ctx.fail(site, sig, small, sdesc, summary, None)
    FOUND.clear()


def check_cases(ctx: core.Ctx, cases: list[dict], shrunk: set) -> None:
    batch_lines: list[str] = []
    spans: list[tuple[int, dict, str, bool]] = []
    wl_lines: list[str] = []
    wl_spans: list[tuple[int, int, dict, list[str]]] = []
    for case in cases:
        obs = run_real(case)
        stages = all_stages(obs)
        ctx.ev()
        cfg = case["cfg"]
        acted = any(m["acts"] for st in stages for m in st["matches"])
        if acted:
            ctx.nt(json.dumps(case, sort_keys=True))
        ctx.count("cfg.recursive" if cfg["rec"] else "cfg.non_recursive")
        ctx.count("cfg.perturbed" if cfg.get("perturb") is not None else "cfg.lifo")
        ctx.count(f"cfg.regions_first={cfg['rf']},reverse={cfg['rev']}")
        ctx.count(f"cfg.listener_mode={cfg.get('lst', 1)}")
        if cfg.get("post"):
            ctx.count("cfg.post_walk_dce")
        ctx.count(f"cfg.builder.name_hint={cfg.get('hint', 0)},via={cfg.get('via', 0)}")
        for p in case["pats"]:
            ctx.count("pattern." + p[0])
        ctx.count(f"history.calls={len(stages)}")
        for st in stages[1:]:
            ctx.count("history.later_call")
            if st["matches"] and any(m["acts"] for m in st["matches"]):
                ctx.count("history.later_call_with_rewrites")
            if st["edit_line"]:
                ctx.count("history.edit." + st["edit_line"].split()[1])
            if not st["whole_module"]:
                ctx.count("history.call_on_inner_region")
        for st in stages:
            for m in st["matches"]:
                for a in m["acts"]:
                    ctx.count("call." + a[0])
                    if a[0] == "ins":
                        ctx.count(f"insert.name_hint={'set' if m.get('hint') else 'none'},results={min(a[3], 2)}")
            ctx.count("invocations", len(st["matches"]))
            ctx.count("sweeps", len(st["sweeps"]))
        trace = obs["wl_trace"]
        ctx.count("worklist.ops", len(trace))
        # removal of an item that is queued below the top / push after such a removal / removal of an item
        # pushed after a hole: the shapes a wrong index needs
        holes = False
        pushed_after_hole: set = set()
        for op, arg, out, present in trace:
            if op == "remove" and out == "ok":
                if arg in pushed_after_hole:
                    ctx.count("worklist.remove_of_item_pushed_after_a_hole")
                holes = True
            elif op == "push" and holes:
                pushed_after_hole.add(arg)
            elif op == "bool" and not present:
                holes = False
                pushed_after_hole.clear()
        for site, sig, desc in oracle(case, obs):
            key = (site, sig)
            small = case
            lifo = cfg.get("perturb") is None
            if (key, lifo) not in shrunk and not (not lifo and (key, True) in shrunk):
                shrunk.add((key, lifo))
                small = shrink_case(case, key)
            sobs = run_real(small)
            sdesc = next((d for s, g, d in oracle_safe(small, sobs) if (s, g) == key), desc)
            # one failing input per (call site, signature) is reported at the end of the run: an input that fails
            # with the walker's own LIFO schedule is preferred to one that needs a perturbed schedule, then size
            rank = (small["cfg"].get("perturb") is not None, len(json.dumps(small)))
            best = FOUND.get(key)
            if best is None or rank < best[0]:
                FOUND[key] = (rank, small, sdesc, summarize(sobs))
        for st in stages:
            if st["raised"] is not None or obs["undisciplined"]:
                break
            lines = model_lines(case, st)
            batch_lines.extend(lines)
            spans.append((len(batch_lines) - 1, case, impl_trace(case, st), not st["registered"]))
        wl, wimpl = wl_model_lines(trace)
        wl_spans.append((len(wl_lines), len(wl), case, wimpl))
        wl_lines.extend(wl)
    if wl_lines:
        wout = ctx.model("worklist", wl_lines)
        for pos, n, case, wimpl in wl_spans:
            got = wout[pos:pos + n]
            if got != wimpl:
                i = core.diff_streams(wimpl, got)
                lo = max(0, (i or 0) - 8)
                ctx.mismatch("correspondence:C11/worklist", case,
                             {"lines": wl_lines[pos + lo:pos + (i or 0) + 1], "answers": wimpl[lo:(i or 0) + 1]},
                             got[lo:(i or 0) + 1],
                             "the push/remove/pop/bool trace of the walker's real worklist, replayed on the Lean model "
                             "XdslModel/Worklist.lean, gives different results or contents")
                break
    if not spans:
        return
    out = ctx.model("rewrite_driver", batch_lines)
    bad = [o for o in out if o == "bad-op"]
    if bad:
        i = out.index("bad-op")
        raise core.InfraError(f"model rejected protocol line: {batch_lines[i]}")
    def mask(tr: str) -> str:
        # call without any registered handler: the events column cannot be observed
        items = []
        for it in tr.split(" ; "):
            f = it.split(" | ")
            if len(f) == 4:
                f[2] = ""
            items.append(" | ".join(f))
        return " ; ".join(items)

    for idx, case, impl, unobserved in spans:
        got = out[idx]
        if unobserved:
            got, impl = mask(got), mask(impl)
        if got != impl:
            ctx.mismatch("correspondence:C11/rewrite_driver", case, impl, got,
                         "trace of the closed Lean driver replaying the recorded rewriter calls differs from the real walker")
            break


def run(ctx: core.Ctx) -> None:
    ctx.lean()
    shrunk: set = set()
    FOUND.clear()
    quick = ctx.tier == "quick"
    n = 0
    try:
        seeds = seed_cases()
        check_cases(ctx, seeds, shrunk)
        ctx.count("cases.seed", len(seeds))
        reserve = 12 if quick else 60
        while ctx.time_left() > reserve and n < (2500 if quick else 200000):
            batch = [gen_case(ctx.rng, 7 if quick else 11) for _ in range(100)]
            check_cases(ctx, batch, shrunk)
            n += len(batch)
    finally:
        report_found(ctx)
    ctx.count("cases.random", n)
    mid = seeds[len(seeds) // 2]
    ctx.sample({"case": mid, "observation": summarize(run_real(mid))}, cap=2)
    ctx.exhaustive = False


def replay(ctx: core.Ctx, body: dict) -> int:
    case = body["case"]
    obs = run_real(case)
    stages = all_stages(obs)
    print("case:", json.dumps(case))
    print("initial IR:\n" + obs["initial_text"])
    for st, sd in zip(stages, stages_of(case)):
        if len(stages) > 1 or st["stage"]:
            print(f"--- call #{st['stage']} on the walker ({'module body' if st['whole_module'] else 'inner region'}; "
                  f"before it: {st['edit_line'] or 'no listener edit'}, rearm={sd.get('rearm', 0)}); "
                  f"handler sets on walker.listener: {st['registered']}")
        print("returned:", st["ret"], "raised:", st["raised"], "fixpoint probe:", st.get("probe"))
        for m in st["matches"]:
            print(f"  match op {m['op']} attached={m['attached']} calls={[show_action(a) for a in m['acts']]} "
                  f"has_done_action={m['flag']} listeners={m['ev_all']} worklist={m['wl']}")
        print("IR after the call:\n" + st["final_text"])
    d = wl_spec_divergence(obs["wl_trace"])
    if d is not None:
        i = d[0]
        print("worklist trace of the walker (operation, argument, result, items present afterwards):")
        for t in obs["wl_trace"][max(0, i - 12):i + 1]:
            print("   ", t)
    try:
        comp = oracle(case, obs)
    except core.InfraError as e:
        print("outside the quantifier:", e)
        comp = []
    for s_, g, d_ in comp:
        print("ORACLE:", s_, "|", g, "|", d_)
    differ = False
    try:
        lines: list[str] = []
        ends: list[tuple[int, dict]] = []
        for st in stages:
            if st["raised"] is not None or obs["undisciplined"]:
                break
            lines.extend(model_lines(case, st))
            ends.append((len(lines) - 1, st))
        if lines:
            out = ctx.model("rewrite_driver", lines)
            for idx, st in ends:
                impl = impl_trace(case, st)
                print(f"lean model trace (call #{st['stage']}):", out[idx])
                print(f"implementation   (call #{st['stage']}):", impl)
                if out[idx] != impl and st["registered"]:
                    print("model and implementation DIFFER")
                    differ = True
        wl, wimpl = wl_model_lines(obs["wl_trace"])
        wout = ctx.model("worklist", wl)
        if wout != wimpl:
            i = core.diff_streams(wimpl, wout) or 0
            print(f"worklist trace replayed on the Lean worklist model DIFFERS at line {i} `{wl[i]}`: "
                  f"real {wimpl[i]!r}, model {wout[i]!r}")
            differ = True
    except core.InfraError as e:
        print("model not available:", e)
    if differ and body.get("kind") == "broken-correspondence":
        return 1
    want = (body.get("call_site"), body.get("signature"))
    bad = any((s_, g) == want for s_, g, _ in comp) if body.get("kind") == "failing-input" else bool(comp)
    print("property", "FAILS" if bad else "holds", "on this case")
    return 1 if bad else 0
