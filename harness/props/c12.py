"""C12 — Worklist, union-find and scoped dictionary follow their abstract models."""
from __future__ import annotations

import itertools
from typing import Any

from vp import core

META = {
    "title": "Worklist, union-find and scoped dictionary follow their abstract models",
    "category": "proof",
    "design_ref": "DESIGN.md §5 C12",
    "lean_modules": ["XdslProofs.C12", "XdslProofs.C12Worklist", "XdslProofs.C12UnionFind", "XdslProofs.C12Generic"],
    "text": (
        "Lean theorems: the tombstoned-stack Worklist refines a duplicate-free LIFO stack for every "
        "history (step_refines/run_refines/history_refines); all ScopedDict lookup forms equal the "
        "innermost-binding lookup for every chain and value incl. None/0; IntDisjointSet add/find/union/"
        "union_left/connected preserve the forest invariant (acyclic by rank witness, counts = class "
        "sizes; the loop fuel is never exhausted, by pigeonhole), and for every history the "
        "represented partition is exactly the equivalence closure of the unions performed "
        "(uf_history/uf_connected), find returns a class member, union/union_left return true iff "
        "the classes differed and union_left keeps the left representative (uf_union_left_rep); the generic "
        "DisjointSet wrapper (values, _index_by_value, _base) is modelled too and, for distinct initial "
        "values and add of new values, every wrapper call is proved to be the IntDisjointSet call on the "
        "indices (gstep_eq_uf/gds_simulates), KeyError exactly for absent values, with the partition "
        "theorems transported to values (gstep_refines/gds_history/g_union_left_rep). The hand-written models are tied to /repo by running every "
        "operation sequence up to a bound (exhaustive) plus long random ones on the real classes and "
        "on the Lean driver and diffing every return value."
    ),
    "technique": "Lean 4 refinement proofs + exhaustive/random differential correspondence with the real classes",
    "level_note": (
        "Trusted: Lean kernel; hand-written models XdslModel/{Worklist,ScopedDict,DisjointSet}.lean "
        "(tied by correspondence only: all histories up to the bound, random beyond); Python dict/list "
        "semantics; DisjointSet.add of an already present value / duplicate initial values are outside "
        "the API contract ('add a new value'): no oracle and no theorem there, but the Lean model of "
        "the wrapper is still compared with the code on such inputs."
    ),
    "rule": (
        "worklist: every sequence over {push x, remove x, pop, bool} x∈{0,1,2} up to the length bound, "
        "non-trivial = contains a pop or bool after a remove; scoped_dict: every mutation sequence over "
        "{enter, exit, set k v} (k∈{0,1}, v∈{None,0,1}) with all lookups after every step, non-trivial = "
        "some key bound in ≥2 scopes; union-find: every union/union_left sequence over 4 elements up to "
        "the bound with all find/connected queries after each step, non-trivial = ≥1 successful merge; "
        "the same for the generic DisjointSet over 3 values + 1 absent value + add (compared with both "
        "the index model and the value model); "
        "plus seeded random long histories (incl. add and out-of-range KeyError calls). Distinct = "
        "distinct operation sequence."
    ),
    "trusted_base": [
        "correspondence harness harness/props/c12.py (differential, bounded-exhaustive + random)",
        "hand-written Lean models of worklist.py, scoped_dict.py, disjoint_set.py",
    ],
    "budget": {"quick": 150, "thorough": 1200},
}

# ---------------------------------------------------------------------------------------------
# Worklist
# ---------------------------------------------------------------------------------------------

def wl_ops(universe: int):
    ops = [("pop",), ("bool",)]
    for x in range(universe):
        ops += [("push", x), ("remove", x)]
    return ops


def wl_impl(seq) -> list[str]:
    from xdsl.utils.worklist import Worklist

    w: Any = Worklist()
    out = []
    for op in seq:
        try:
            if op[0] == "push":
                w.push(op[1]); out.append("ok")
            elif op[0] == "remove":
                w.remove(op[1]); out.append("ok")
            elif op[0] == "pop":
                out.append(f"item {w.pop()}")
            else:
                out.append("bool " + ("true" if bool(w) else "false"))
        except Exception as e:  # noqa: BLE001
            out.append("raise " + core.exc_name(e))
    return out


def wl_spec(seq) -> list[str]:
    """independent reference: duplicate-free stack, top at the end"""
    l: list[int] = []
    out = []
    for op in seq:
        if op[0] == "push":
            if op[1] not in l:
                l.append(op[1])
            out.append("ok")
        elif op[0] == "remove":
            if op[1] in l:
                l.remove(op[1])
            out.append("ok")
        elif op[0] == "pop":
            out.append(f"item {l.pop()}" if l else "raise IndexError")
        else:
            out.append("bool " + ("true" if l else "false"))
    return out


def wl_lines(seq) -> list[str]:
    return ["reset"] + [" ".join(map(str, op)) for op in seq]


def run_worklist(ctx: core.Ctx, maxlen: int, nrandom: int, randlen: int) -> None:
    ops = wl_ops(3)
    seqs: list[tuple] = []
    for n in range(1, maxlen + 1):
        seqs.extend(itertools.product(ops, repeat=n))
    rnd_ops = wl_ops(12)
    for _ in range(nrandom):
        seqs.append(tuple(ctx.rng.choice(rnd_ops) for _ in range(ctx.rng.randint(1, randlen))))
    lines: list[str] = []
    impl_all: list[list[str]] = []
    for seq in seqs:
        impl = wl_impl(seq)
        impl_all.append(impl)
        spec = wl_spec(seq)
        ctx.ev()
        kinds = [o[0] for o in seq]
        if "remove" in kinds and any(k in ("pop", "bool") for k in kinds[kinds.index("remove"):]):
            ctx.nt(("wl", seq))
        if impl != spec:
            i = core.diff_streams(impl, spec)
            small = core.shrink_list(list(seq[: i + 1]), lambda c: wl_impl(c) != wl_spec(c)) if len(seq) > 6 else list(seq[: i + 1])
            ctx.fail("xdsl.utils.worklist.Worklist." + seq[i][0] if seq[i][0] != "bool" else "xdsl.utils.worklist.Worklist.__bool__",
                     "return value differs from duplicate-free LIFO stack",
                     {"structure": "worklist", "ops": [list(o) for o in small]},
                     "Worklist return value differs from the abstract LIFO-set", wl_impl(small), wl_spec(small))
        lines.extend(wl_lines(seq))
    ctx.count("worklist.sequences", len(seqs))
    ctx.count("worklist.ops", sum(len(s) for s in seqs))
    model = ctx.model("worklist", lines)
    pos = 0
    for seq, impl in zip(seqs, impl_all):
        m = model[pos + 1: pos + 1 + len(seq)]
        pos += 1 + len(seq)
        if m != impl:
            ctx.mismatch("correspondence:C12/worklist", {"structure": "worklist", "ops": [list(o) for o in seq]}, impl, m)
            break
    ctx.sample({"structure": "worklist", "ops": [list(o) for o in seqs[len(seqs) // 2]], "impl": impl_all[len(seqs) // 2]})


# ---------------------------------------------------------------------------------------------
# ScopedDict
# ---------------------------------------------------------------------------------------------
SD_KEYS = [0, 1]
SD_VALS = [None, 0, 1]
SD_DEFAULTS = [None, 7]


def sd_show(v) -> str:
    return "None" if v is None else str(v)


def sd_queries():
    q = []
    for k in SD_KEYS:
        q.append(("getitem", k))
        q.append(("contains", k))
        for d in SD_DEFAULTS:
            q.append(("get", k, d))
    return q


def sd_impl(muts) -> tuple[list[str], list[str]]:
    """returns (protocol lines, impl outputs); all queries are issued after every mutation"""
    from xdsl.utils.scoped_dict import ScopedDict

    cur: Any = ScopedDict()
    lines, out = ["reset"], ["ok"]

    def queries():
        for q in sd_queries():
            lines.append(" ".join(sd_show(x) if i > 0 and q[0] == "get" and i == 2 else str(x) for i, x in enumerate(q)))
            try:
                if q[0] == "getitem":
                    out.append("val " + sd_show(cur[q[1]]))
                elif q[0] == "contains":
                    out.append("bool " + ("true" if q[1] in cur else "false"))
                else:
                    out.append("val " + sd_show(cur.get(q[1], q[2])))
            except Exception as e:  # noqa: BLE001
                out.append("raise " + core.exc_name(e))

    queries()
    for m in muts:
        if m[0] == "enter":
            cur = ScopedDict(cur)
            lines.append("enter"); out.append("ok")
        elif m[0] == "exit":
            lines.append("exit")
            if cur.parent is None:
                out.append("bad-op")
            else:
                cur = cur.parent; out.append("ok")
        else:
            cur[m[1]] = m[2]
            lines.append(f"set {m[1]} {sd_show(m[2])}"); out.append("ok")
        queries()
    return lines, out


def sd_spec(muts) -> list[str]:
    """independent reference: list of plain dicts, innermost last"""
    scopes: list[dict] = [{}]
    out = ["ok"]

    def queries():
        for q in sd_queries():
            hit = next((s for s in reversed(scopes) if q[1] in s), None)
            if q[0] == "getitem":
                out.append("raise KeyError" if hit is None else "val " + sd_show(hit[q[1]]))
            elif q[0] == "contains":
                out.append("bool " + ("true" if hit is not None else "false"))
            else:
                out.append("val " + sd_show(q[2] if hit is None else hit[q[1]]))

    queries()
    for m in muts:
        if m[0] == "enter":
            scopes.append({}); out.append("ok")
        elif m[0] == "exit":
            if len(scopes) == 1:
                out.append("bad-op")
            else:
                scopes.pop(); out.append("ok")
        else:
            scopes[-1][m[1]] = m[2]; out.append("ok")
        queries()
    return out


def run_scoped_dict(ctx: core.Ctx, maxlen: int, nrandom: int) -> None:
    muts = [("enter",), ("exit",)] + [("set", k, v) for k in SD_KEYS for v in SD_VALS]
    seqs: list[tuple] = []
    for n in range(0, maxlen + 1):
        seqs.extend(itertools.product(muts, repeat=n))
    for _ in range(nrandom):
        seqs.append(tuple(ctx.rng.choice(muts) for _ in range(ctx.rng.randint(maxlen + 1, 30))))
    all_lines: list[str] = []
    all_impl: list[str] = []
    first_bad = None
    for seq in seqs:
        lines, impl = sd_impl(seq)
        spec = sd_spec(seq)
        ctx.ev()
        depth, bound = 0, [set()]
        multi = False
        for m in seq:
            if m[0] == "enter":
                bound.append(set())
            elif m[0] == "exit":
                if len(bound) > 1:
                    bound.pop()
            else:
                bound[-1].add(m[1])
                multi = multi or sum(1 for b in bound if m[1] in b) >= 2
        if multi:
            ctx.nt(("sd", seq))
        if impl != spec:
            i = core.diff_streams(impl, spec)
            q = lines[i].split()
            site = {"get": "get", "getitem": "__getitem__", "contains": "__contains__"}.get(q[0], q[0])
            # signature: which lookup form, and whether a stored None is involved
            sig = "lookup differs from innermost binding"
            if q[0] == "get" and any(m[0] == "set" and m[2] is None for m in seq):
                sig = "get() on a key whose innermost binding is None"
            ctx.fail(f"xdsl.utils.scoped_dict.ScopedDict.{site}", sig,
                     {"structure": "scoped_dict", "mutations": [list(m) for m in seq], "query": lines[i]},
                     f"`{lines[i]}` returned `{impl[i]}`, innermost-scope lookup gives `{spec[i]}`",
                     impl[i], spec[i])
        all_lines.extend(lines)
        all_impl.extend(impl)
    ctx.count("scoped_dict.mutation_sequences", len(seqs))
    ctx.count("scoped_dict.queries", len(all_lines))
    model = ctx.model("scoped_dict", all_lines)
    i = core.diff_streams(all_impl, model)
    if i is not None:
        j = max(k for k in range(i + 1) if all_lines[k] == "reset")
        ctx.mismatch("correspondence:C12/scoped_dict", {"structure": "scoped_dict", "lines": all_lines[j: i + 1]},
                     all_impl[j: i + 1], model[j: i + 1])
    mid = seqs[len(seqs) // 2]
    ctx.sample({"structure": "scoped_dict", "mutations": [list(m) for m in mid], "impl_tail": sd_impl(mid)[1][-8:]})


# ---------------------------------------------------------------------------------------------
# Union-find
# ---------------------------------------------------------------------------------------------

class RefPartition:
    """naive reference: explicit classes"""

    def __init__(self, n: int):
        self.cls = [{i} for i in range(n)]  # class of each element (shared set objects)

    def add(self) -> int:
        self.cls.append({len(self.cls)})
        return len(self.cls) - 1

    def same(self, a: int, b: int) -> bool:
        return self.cls[a] is self.cls[b]

    def merge(self, a: int, b: int) -> bool:
        if self.cls[a] is self.cls[b]:
            return False
        u = self.cls[a] | self.cls[b]
        for x in u:
            self.cls[x] = u
        return True


def gval(i: int) -> int:
    """value standing at index i in the generic runs: injective for i < 257, not monotone, never
    equal to its own index for small i (so an index/value confusion shows)"""
    return (i * 37 + 11) % 257


def uf_run(n: int, seq, generic: bool):
    """Run `seq` on the real IntDisjointSet (or DisjointSet over the values gval(i) when `generic`).
    Returns (index-level protocol lines, impl outputs on indices, oracle complaint or None,
    None | (value-level protocol lines, impl outputs on values))."""
    from xdsl.utils.disjoint_set import DisjointSet, IntDisjointSet

    glines: list[str] = []
    gout: list[str] = []
    if generic:
        names = [gval(i) for i in range(n)]
        ds: Any = DisjointSet(list(names))
        enc = gval  # a value not (yet) added is simply absent -> KeyError
        dec = lambda v: names.index(v)  # noqa: E731
        glines.append("reset " + " ".join(map(str, names)))
        gout.append("ok")
    else:
        ds = IntDisjointSet(size=n)
        enc = dec = lambda i: i  # noqa: E731
    ref = RefPartition(n)
    lines, out = [f"reset {n}"], ["ok"]
    complaint = None

    def bad(msg):
        nonlocal complaint
        if complaint is None:
            complaint = [msg, len(out)]

    for op in seq:
        lines.append(" ".join(map(str, op)))
        if generic:
            glines.append(" ".join([op[0]] + [str(gval(x)) for x in op[1:]]) if op[0] != "add"
                          else f"add {gval(len(names))}")
        try:
            if op[0] == "add":
                if generic:
                    names.append(gval(len(names)))
                    res = ds.add(names[-1])
                    gout.append("none" if res is None else f"unexpected {res!r}")
                    r = len(names) - 1
                    if len(ds) != len(names):
                        bad("len() after add is not the number of values")
                else:
                    r = ds.add()
                if r != ref.add():
                    bad("add returned wrong index")
                out.append(f"nat {r}")
            elif op[0] == "find":
                if generic:
                    v = ds.find(enc(op[1]))
                    gout.append(f"val {v}")
                    r = dec(v)
                else:
                    r = ds[op[1]]
                out.append(f"nat {r}")
                if not ref.same(r, op[1]):
                    bad(f"find({op[1]}) = {r} is not in the class of {op[1]}")
            elif op[0] in ("union", "union_left"):
                in_range = all(0 <= x < len(ref.cls) for x in op[1:])
                rep_before = None
                if in_range and op[0] == "union_left":
                    rep_before = dec(ds.find(enc(op[1])) if generic else ds[op[1]])
                r = getattr(ds, op[0])(enc(op[1]), enc(op[2]))
                out.append("bool " + ("true" if r else "false"))
                if generic:
                    gout.append(out[-1])
                exp = ref.merge(op[1], op[2])
                if r != exp:
                    bad(f"{op[0]}{op[1:]} returned {r}, classes were {'distinct' if exp else 'equal'}")
                if op[0] == "union_left":
                    rep_after = dec(ds.find(enc(op[2])) if generic else ds[op[2]])
                    if rep_after != rep_before:
                        bad(f"union_left{op[1:]}: representative {rep_before} of the left class became {rep_after}")
            elif op[0] == "connected":
                r = ds.connected(enc(op[1]), enc(op[2]))
                out.append("bool " + ("true" if r else "false"))
                if generic:
                    gout.append(out[-1])
                if r != ref.same(op[1], op[2]):
                    bad(f"connected{op[1:]} = {r} but reference partition says {ref.same(op[1], op[2])}")
            elif op[0] == "roots":
                raw = list(ds.roots())
                if generic:
                    gout.append("roots " + " ".join(map(str, sorted(raw))))
                rs = sorted(dec(x) for x in raw)
                out.append("roots " + " ".join(map(str, rs)))
                if len(rs) != len({id(c) for c in ref.cls}):
                    bad("number of roots differs from number of classes")
        except KeyError:
            out.append("raise KeyError")
            if generic:
                gout.append("raise KeyError")
            if all(0 <= x < len(ref.cls) for x in op[1:] if isinstance(x, int)):
                bad(f"{op} raised KeyError for present elements")
        except Exception as e:  # noqa: BLE001
            out.append("raise " + core.exc_name(e))
            if generic:
                gout.append(out[-1])
            bad(f"{op} raised {core.exc_name(e)}")
    if generic:
        glines.append("len")
        gout.append(f"nat {len(ds)}")
    return lines, out, complaint, ((glines, gout) if generic else None)


def gds_canon(model_lines: list[str]) -> list[str]:
    """the order of `roots()` is not part of the property: compare it sorted"""
    return [("roots " + " ".join(map(str, sorted(int(x) for x in l.split()[1:]))))
            if l.startswith("roots") and all(x.isdigit() for x in l.split()[1:]) else l for l in model_lines]


def gds_raw_run(init: list[int], seq) -> tuple[list[str], list[str]]:
    """Run value-level operations on the real DisjointSet WITHOUT assuming the contract (duplicate
    initial values, `add` of a present value): correspondence with the Lean model only, no oracle —
    the property says nothing there, but the model claims to mirror the code for every input."""
    from xdsl.utils.disjoint_set import DisjointSet

    ds: Any = DisjointSet(list(init))
    lines, out = ["reset " + " ".join(map(str, init))], ["ok"]
    for op in seq:
        lines.append(" ".join(map(str, op)))
        try:
            if op[0] == "add":
                res = ds.add(op[1]); out.append("none" if res is None else f"unexpected {res!r}")
            elif op[0] == "find":
                out.append(f"val {ds.find(op[1])}")
            elif op[0] == "roots":
                out.append("roots " + " ".join(map(str, sorted(ds.roots()))))
            elif op[0] == "len":
                out.append(f"nat {len(ds)}")
            else:
                out.append("bool " + ("true" if getattr(ds, op[0])(op[1], op[2]) else "false"))
        except Exception as e:  # noqa: BLE001
            out.append("raise " + core.exc_name(e))
    return lines, out


def run_union_find(ctx: core.Ctx, maxlen: int, nrandom: int) -> None:
    n = 4
    muts = [(k, a, b) for k in ("union", "union_left") for a in range(n) for b in range(n)]
    queries = [("find", a) for a in range(n)] + [("connected", a, b) for a in range(n) for b in range(a + 1, n)] + [("roots",)]
    cases: list[tuple[int, tuple, bool]] = []
    for L in range(0, maxlen + 1):
        for ms in itertools.product(muts, repeat=L):
            seq: list[tuple] = []
            for m in ms:
                seq.append(m)
            # queries after the last mutation only (prefixes are separate cases); compression is
            # exercised because queries themselves mutate the forest
            seq.extend(queries)
            cases.append((n, tuple(seq), False))
    # the generic wrapper, exhaustively: 3 present values, value 3 absent until an `add`; every
    # union/union_left/add sequence up to the bound, then all queries (incl. the absent value)
    gn = 3
    gmuts = [(k, a, b) for k in ("union", "union_left") for a in range(gn + 1) for b in range(gn + 1)] + [("add",)]
    gqueries = ([("find", a) for a in range(gn + 2)]
                + [("connected", a, b) for a in range(gn + 1) for b in range(a, gn + 1)] + [("roots",)])
    for L in range(0, maxlen + 1):
        for ms in itertools.product(gmuts, repeat=L):
            cases.append((gn, tuple(ms) + tuple(gqueries), True))
    for _ in range(nrandom):
        nn = ctx.rng.randint(1, 24)
        seq = []
        size = nn
        for _ in range(ctx.rng.randint(5, 120)):
            r = ctx.rng.random()
            hi = size + (1 if ctx.rng.random() < 0.05 else 0)  # occasionally out of range
            a, b = ctx.rng.randrange(hi + 0) if hi else 0, ctx.rng.randrange(hi) if hi else 0
            if r < 0.05:
                seq.append(("add",)); size += 1
            elif r < 0.30:
                seq.append(("union", a, b))
            elif r < 0.55:
                seq.append(("union_left", a, b))
            elif r < 0.75:
                seq.append(("find", a))
            elif r < 0.95:
                seq.append(("connected", a, b))
            else:
                seq.append(("roots",))
        cases.append((nn, tuple(seq), ctx.rng.random() < 0.5))
    all_lines: list[str] = []
    all_impl: list[str] = []
    g_lines: list[str] = []
    g_impl: list[str] = []
    for nn, seq, generic in cases:
        lines, impl, complaint, gen = uf_run(nn, seq, generic)
        if gen is not None:
            g_lines.extend(gen[0])
            g_impl.extend(gen[1])
            ctx.count("union_find.generic_cases")
        ctx.ev()
        if any(o == "bool true" for o, l in zip(impl, lines) if l.startswith("union")):
            ctx.nt(("uf", nn, seq, generic))
        if complaint is not None:
            upto = complaint[1]
            small = list(seq[:upto])
            if len(small) > 8:
                small = core.shrink_list(small, lambda c: uf_run(nn, c, generic)[2] is not None)
            op = lines[upto].split()[0] if upto < len(lines) else "?"
            cls = "DisjointSet" if generic else "IntDisjointSet"
            ctx.fail(f"xdsl.utils.disjoint_set.{cls}.{op}", "disagrees with reference partition",
                     {"structure": "union_find", "n": nn, "generic": generic, "ops": [list(o) for o in small]},
                     complaint[0], uf_run(nn, small, generic)[1], None)
        all_lines.extend(lines)
        all_impl.extend(impl)
    ctx.count("union_find.cases", len(cases))
    ctx.count("union_find.lines", len(all_lines))
    model = ctx.model("int_disjoint_set", all_lines)
    i = core.diff_streams(all_impl, model)
    if i is not None:
        j = max(k for k in range(i + 1) if all_lines[k].startswith("reset"))
        ctx.mismatch("correspondence:C12/int_disjoint_set", {"structure": "union_find", "lines": all_lines[j: i + 1]},
                     all_impl[j: i + 1], model[j: i + 1])
    # the generic wrapper against its own Lean model (values, not indices)
    rnd = ctx.rng
    for _ in range(max(50, nrandom // 4)):
        init = [rnd.randrange(5) for _ in range(rnd.randint(0, 5))]
        seq = []
        for _ in range(rnd.randint(3, 40)):
            r = rnd.random()
            a, b = rnd.randrange(7), rnd.randrange(7)
            seq.append(("add", a) if r < 0.15 else ("union", a, b) if r < 0.35 else ("union_left", a, b) if r < 0.55
                       else ("find", a) if r < 0.75 else ("connected", a, b) if r < 0.9 else ("roots",) if r < 0.95 else ("len",))
        lines, impl = gds_raw_run(init, seq)
        g_lines.extend(lines)
        g_impl.extend(impl)
        ctx.ev()
        ctx.count("union_find.generic_uncontracted_cases")
    ctx.count("union_find.generic_lines", len(g_lines))
    gmodel = gds_canon(ctx.model("disjoint_set", g_lines))
    i = core.diff_streams(g_impl, gmodel)
    if i is not None:
        j = max(k for k in range(i + 1) if g_lines[k].startswith("reset"))
        ctx.mismatch("correspondence:C12/disjoint_set", {"structure": "union_find", "glines": g_lines[j: i + 1]},
                     g_impl[j: i + 1], gmodel[j: i + 1])
    nn, seq, generic = cases[len(cases) // 3]
    ctx.sample({"structure": "union_find", "n": nn, "generic": generic, "ops": [list(o) for o in seq][:12]})


def run(ctx: core.Ctx) -> None:
    ctx.lean()
    if ctx.tier == "quick":
        run_worklist(ctx, maxlen=5, nrandom=300, randlen=200)
        run_scoped_dict(ctx, maxlen=4, nrandom=300)
        run_union_find(ctx, maxlen=2, nrandom=600)
    else:
        run_worklist(ctx, maxlen=6, nrandom=3000, randlen=500)
        run_scoped_dict(ctx, maxlen=5, nrandom=3000)
        run_union_find(ctx, maxlen=3, nrandom=6000)
    ctx.exhaustive = True
    ctx.extra["exhaustive_scope"] = "all histories up to the stated length over the small universes; random beyond"


def replay(ctx: core.Ctx, body: dict) -> int:
    case = body["case"]
    st = case["structure"]
    if st == "worklist":
        seq = [tuple(o) for o in case["ops"]]
        impl, spec = wl_impl(seq), wl_spec(seq)
        model = ctx.model("worklist", wl_lines(seq))[1:]
    elif st == "scoped_dict":
        if "mutations" in case:
            muts = [tuple(m) for m in case["mutations"]]
            lines, impl = sd_impl(muts)
            spec = sd_spec(muts)
        else:
            lines = case["lines"]; impl = body.get("impl_observation"); spec = None
        model = ctx.model("scoped_dict", lines)
    else:
        if "ops" in case:
            seq = [tuple(o) for o in case["ops"]]
            lines, impl, complaint, gen = uf_run(case["n"], seq, case.get("generic", False))
            spec = complaint
            if gen is not None:
                print("generic wrapper, implementation:", gen[1])
                print("generic wrapper, lean model    :", gds_canon(ctx.model("disjoint_set", gen[0])))
        elif "glines" in case:
            lines = case["glines"]; spec = None
            seq = [tuple(int(x) if x.isdigit() else x for x in l.split()) for l in lines[1:]]
            impl = gds_raw_run([int(x) for x in lines[0].split()[1:]], seq)[1]
            print("implementation:", impl)
            print("lean model    :", gds_canon(ctx.model("disjoint_set", lines)))
            bad = impl != gds_canon(ctx.model("disjoint_set", lines))
            print("implementation and model", "DIFFER" if bad else "agree", "on this case")
            return 1 if bad else 0
        else:
            lines = case["lines"]; impl = body.get("impl_observation"); spec = None
        model = ctx.model("int_disjoint_set", lines)
    print("implementation:", impl)
    print("lean model    :", model)
    print("reference/oracle:", spec)
    bad = (impl != spec) if st != "union_find" else (spec is not None)
    print("property", "FAILS" if bad else "holds", "on this case")
    return 1 if bad else 0
