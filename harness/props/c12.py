"""C12 — Worklist, union-find and scoped dictionary follow their abstract models."""
from __future__ import annotations

import itertools
from typing import Any

from vp import core

META = {
    "title": "Worklist, union-find and scoped dictionary follow their abstract models",
    "category": "proof",
    "design_ref": "DESIGN.md §5 C12",
    "lean_modules": ["XdslProofs.C12", "XdslProofs.C12Worklist", "XdslProofs.C12UnionFind", "XdslProofs.C12Generic"],
    "text": (
        "Lean theorems: the tombstoned-stack Worklist refines a duplicate-free LIFO stack for every "
        "history (step_refines/run_refines/history_refines); all ScopedDict lookup forms equal the "
        "innermost-binding lookup for every chain and value incl. None/0; IntDisjointSet add/find/union/"
        "union_left/connected preserve the forest invariant (acyclic by rank witness, counts = class "
        "sizes; the loop fuel is never exhausted, by pigeonhole), and for every history the "
        "represented partition is exactly the equivalence closure of the unions performed "
        "(uf_history/uf_connected), find returns a class member, union/union_left return true iff "
        "the classes differed and union_left keeps the left representative (uf_union_left_rep); the generic "
        "DisjointSet wrapper (values, _index_by_value, _base) is modelled too and, for distinct initial "
        "values and add of new values, every wrapper call is proved to be the IntDisjointSet call on the "
        "indices (gstep_eq_uf/gds_simulates), KeyError exactly for absent values, with the partition "
        "theorems transported to values (gstep_refines/gds_history/g_union_left_rep). The hand-written models are tied to /repo by running every "
        "operation sequence up to a bound (exhaustive) plus long random ones on the real classes and "
        "on the Lean driver and diffing every return value. ScopedDict objects are also exercised as a forest of "
        "live handles (outer scope written while inner scopes exist; Lean model scoped_forest, theorem "
        "forest_lookup_forms), and the union-find classes as several instances sharing one constructor argument "
        "with interleaved operations (each instance must behave as if alone)."
    ),
    "technique": "Lean 4 refinement proofs + exhaustive/random differential correspondence with the real classes",
    "level_note": (
        "Trusted: Lean kernel; hand-written models XdslModel/{Worklist,ScopedDict,DisjointSet}.lean "
        "(tied by correspondence only: all histories up to the bound, random beyond); Python dict/list "
        "semantics; DisjointSet.add of an already present value / duplicate initial values are outside "
        "the API contract ('add a new value'): no oracle and no theorem there, but the Lean model of "
        "the wrapper is still compared with the code on such inputs. ScopedDict(local_scope=…) deliberately "
        "aliases the caller's dict and is not exercised; caller-side mutation is applied only to the Sequence handed "
        "to DisjointSet (whose documented behaviour is 'initial values')."
    ),
    "rule": (
        "worklist: every sequence over {push x, remove x, pop, bool} x∈{0,1,2} up to the length bound, "
        "non-trivial = contains a pop or bool after a remove; scoped_dict: every mutation sequence over "
        "{enter, exit, set k v} (k∈{0,1}, v∈{None,0,1}) with all lookups after every step, non-trivial = "
        "some key bound in ≥2 scopes; union-find: every union/union_left sequence over 4 elements up to "
        "the bound with all find/connected queries after each step, non-trivial = ≥1 successful merge; "
        "the same for the generic DisjointSet over 3 values + 1 absent value + add (compared with both "
        "the index model and the value model); "
        "scoped forest (all created scopes stay alive): every sequence over {new p, set s k v} up to the bound (≤4 scopes) "
        "with all lookup forms from EVERY scope after every step, non-trivial = a scope that already has a child is "
        "written; shared instances: two DisjointSet/IntDisjointSet instances built from the SAME list/tuple object, "
        "every interleaving up to the bound of add/union/union_left on either and of the caller appending to its "
        "list, each instance judged on its own operations only, non-trivial = ≥2 instances mutated; "
        "plus seeded random long histories (incl. add and out-of-range KeyError calls). Distinct = "
        "distinct operation sequence."
    ),
    "trusted_base": [
        "correspondence harness harness/props/c12.py (differential, bounded-exhaustive + random)",
        "hand-written Lean models of worklist.py, scoped_dict.py, disjoint_set.py",
    ],
    "budget": {"quick": 150, "thorough": 1200},
}

# ---------------------------------------------------------------------------------------------
# Worklist
# ---------------------------------------------------------------------------------------------

def wl_ops(universe: int):
    ops = [("pop",), ("bool",)]
    for x in range(universe):
        ops += [("push", x), ("remove", x)]
    return ops


def wl_impl(seq) -> list[str]:
    from xdsl.utils.worklist import Worklist

    w: Any = Worklist()
    out = []
    for op in seq:
        try:
            if op[0] == "push":
                w.push(op[1]); out.append("ok")
            elif op[0] == "remove":
                w.remove(op[1]); out.append("ok")
            elif op[0] == "pop":
                out.append(f"item {w.pop()}")
            else:
                out.append("bool " + ("true" if bool(w) else "false"))
        except Exception as e:  # noqa: BLE001
            out.append("raise " + core.exc_name(e))
    return out


def wl_spec(seq) -> list[str]:
    """independent reference: duplicate-free stack, top at the end"""
    l: list[int] = []
    out = []
    for op in seq:
        if op[0] == "push":
            if op[1] not in l:
                l.append(op[1])
            out.append("ok")
        elif op[0] == "remove":
            if op[1] in l:
                l.remove(op[1])
            out.append("ok")
        elif op[0] == "pop":
            out.append(f"item {l.pop()}" if l else "raise IndexError")
        else:
            out.append("bool " + ("true" if l else "false"))
    return out


def wl_lines(seq) -> list[str]:
    return ["reset"] + [" ".join(map(str, op)) for op in seq]


def run_worklist(ctx: core.Ctx, maxlen: int, nrandom: int, randlen: int) -> None:
    ops = wl_ops(3)
    seqs: list[tuple] = []
    for n in range(1, maxlen + 1):
        seqs.extend(itertools.product(ops, repeat=n))
    rnd_ops = wl_ops(12)
    for _ in range(nrandom):
        seqs.append(tuple(ctx.rng.choice(rnd_ops) for _ in range(ctx.rng.randint(1, randlen))))
    lines: list[str] = []
    impl_all: list[list[str]] = []
    for seq in seqs:
        impl = wl_impl(seq)
        impl_all.append(impl)
        spec = wl_spec(seq)
        ctx.ev()
        kinds = [o[0] for o in seq]
        if "remove" in kinds and any(k in ("pop", "bool") for k in kinds[kinds.index("remove"):]):
            ctx.nt(("wl", seq))
        if impl != spec:
            i = core.diff_streams(impl, spec)
            small = core.shrink_list(list(seq[: i + 1]), lambda c: wl_impl(c) != wl_spec(c)) if len(seq) > 6 else list(seq[: i + 1])
            ctx.fail("xdsl.utils.worklist.Worklist." + seq[i][0] if seq[i][0] != "bool" else "xdsl.utils.worklist.Worklist.__bool__",
                     "return value differs from duplicate-free LIFO stack",
                     {"structure": "worklist", "ops": [list(o) for o in small]},
                     "Worklist return value differs from the abstract LIFO-set", wl_impl(small), wl_spec(small))
        lines.extend(wl_lines(seq))
    ctx.count("worklist.sequences", len(seqs))
    ctx.count("worklist.ops", sum(len(s) for s in seqs))
    model = ctx.model("worklist", lines)
    pos = 0
    for seq, impl in zip(seqs, impl_all):
        m = model[pos + 1: pos + 1 + len(seq)]
        pos += 1 + len(seq)
        if m != impl:
            ctx.mismatch("correspondence:C12/worklist", {"structure": "worklist", "ops": [list(o) for o in seq]}, impl, m)
            break
    ctx.sample({"structure": "worklist", "ops": [list(o) for o in seqs[len(seqs) // 2]], "impl": impl_all[len(seqs) // 2]})


# ---------------------------------------------------------------------------------------------
# ScopedDict
# ---------------------------------------------------------------------------------------------
SD_KEYS = [0, 1]
SD_VALS = [None, 0, 1]
SD_DEFAULTS = [None, 7]


def sd_show(v) -> str:
    return "None" if v is None else str(v)


def sd_queries():
    q = []
    for k in SD_KEYS:
        q.append(("getitem", k))
        q.append(("contains", k))
        for d in SD_DEFAULTS:
            q.append(("get", k, d))
    return q


def sd_impl(muts) -> tuple[list[str], list[str]]:
    """returns (protocol lines, impl outputs); all queries are issued after every mutation"""
    from xdsl.utils.scoped_dict import ScopedDict

    cur: Any = ScopedDict()
    lines, out = ["reset"], ["ok"]

    def queries():
        for q in sd_queries():
            lines.append(" ".join(sd_show(x) if i > 0 and q[0] == "get" and i == 2 else str(x) for i, x in enumerate(q)))
            try:
                if q[0] == "getitem":
                    out.append("val " + sd_show(cur[q[1]]))
                elif q[0] == "contains":
                    out.append("bool " + ("true" if q[1] in cur else "false"))
                else:
                    out.append("val " + sd_show(cur.get(q[1], q[2])))
            except Exception as e:  # noqa: BLE001
                out.append("raise " + core.exc_name(e))

    queries()
    for m in muts:
        if m[0] == "enter":
            cur = ScopedDict(cur)
            lines.append("enter"); out.append("ok")
        elif m[0] == "exit":
            lines.append("exit")
            if cur.parent is None:
                out.append("bad-op")
            else:
                cur = cur.parent; out.append("ok")
        else:
            cur[m[1]] = m[2]
            lines.append(f"set {m[1]} {sd_show(m[2])}"); out.append("ok")
        queries()
    return lines, out


def sd_spec(muts) -> list[str]:
    """independent reference: list of plain dicts, innermost last"""
    scopes: list[dict] = [{}]
    out = ["ok"]

    def queries():
        for q in sd_queries():
            hit = next((s for s in reversed(scopes) if q[1] in s), None)
            if q[0] == "getitem":
                out.append("raise KeyError" if hit is None else "val " + sd_show(hit[q[1]]))
            elif q[0] == "contains":
                out.append("bool " + ("true" if hit is not None else "false"))
            else:
                out.append("val " + sd_show(q[2] if hit is None else hit[q[1]]))

    queries()
    for m in muts:
        if m[0] == "enter":
            scopes.append({}); out.append("ok")
        elif m[0] == "exit":
            if len(scopes) == 1:
                out.append("bad-op")
            else:
                scopes.pop(); out.append("ok")
        else:
            scopes[-1][m[1]] = m[2]; out.append("ok")
        queries()
    return out


def run_scoped_dict(ctx: core.Ctx, maxlen: int, nrandom: int) -> None:
    muts = [("enter",), ("exit",)] + [("set", k, v) for k in SD_KEYS for v in SD_VALS]
    seqs: list[tuple] = []
    for n in range(0, maxlen + 1):
        seqs.extend(itertools.product(muts, repeat=n))
    for _ in range(nrandom):
        seqs.append(tuple(ctx.rng.choice(muts) for _ in range(ctx.rng.randint(maxlen + 1, 30))))
    all_lines: list[str] = []
    all_impl: list[str] = []
    first_bad = None
    for seq in seqs:
        lines, impl = sd_impl(seq)
        spec = sd_spec(seq)
        ctx.ev()
        depth, bound = 0, [set()]
        multi = False
        for m in seq:
            if m[0] == "enter":
                bound.append(set())
            elif m[0] == "exit":
                if len(bound) > 1:
                    bound.pop()
            else:
                bound[-1].add(m[1])
                multi = multi or sum(1 for b in bound if m[1] in b) >= 2
        if multi:
            ctx.nt(("sd", seq))
        if impl != spec:
            i = core.diff_streams(impl, spec)
            q = lines[i].split()
            site = {"get": "get", "getitem": "__getitem__", "contains": "__contains__"}.get(q[0], q[0])
            # signature: which lookup form, and whether a stored None is involved
            sig = "lookup differs from innermost binding"
            if q[0] == "get" and any(m[0] == "set" and m[2] is None for m in seq):
                sig = "get() on a key whose innermost binding is None"
            ctx.fail(f"xdsl.utils.scoped_dict.ScopedDict.{site}", sig,
                     {"structure": "scoped_dict", "mutations": [list(m) for m in seq], "query": lines[i]},
                     f"`{lines[i]}` returned `{impl[i]}`, innermost-scope lookup gives `{spec[i]}`",
                     impl[i], spec[i])
        all_lines.extend(lines)
        all_impl.extend(impl)
    ctx.count("scoped_dict.mutation_sequences", len(seqs))
    ctx.count("scoped_dict.queries", len(all_lines))
    model = ctx.model("scoped_dict", all_lines)
    i = core.diff_streams(all_impl, model)
    if i is not None:
        j = max(k for k in range(i + 1) if all_lines[k] == "reset")
        ctx.mismatch("correspondence:C12/scoped_dict", {"structure": "scoped_dict", "lines": all_lines[j: i + 1]},
                     all_impl[j: i + 1], model[j: i + 1])
    mid = seqs[len(seqs) // 2]
    ctx.sample({"structure": "scoped_dict", "mutations": [list(m) for m in mid], "impl_tail": sd_impl(mid)[1][-8:]})


# --- several scopes alive at once ---------------------------------------------------------------
# The chain family above always works on the innermost scope: an outer scope is never written while
# an inner one still exists.  ScopedDict objects are ordinary handles, though (the interpreter, the
# printer and the parser all keep outer scopes around and write them while inner ones are alive), and
# the property speaks of "every sequence of operations".  Here every created scope stays reachable:
# `new p` makes a child of scope p (`new` a further root), `set s k v` writes scope s, and after every
# mutation all lookup forms are issued from scopes of the forest.  The answer must depend on the
# current bindings of the scope and its ancestors only — not on what was looked up before.

def sdf_queries(keys):
    return [q for k in keys for q in (("getitem", k), ("contains", k), ("get", k, None), ("get", k, 7))]


def sdf_plan(ops, keys, pick=None):
    """the full line plan of a case: after the reset and after every mutation, queries from the scopes
    `pick(step, nscopes)` (default: all).  Returns a list of ('new', p|None) / ('set', s, k, v) /
    ('q', s, query)."""
    plan, n = [], 1
    qs = sdf_queries(keys)

    def ask(step):
        for s in (range(n) if pick is None else pick(step, n)):
            plan.extend(("q", s, q) for q in qs)

    ask(0)
    for i, op in enumerate(ops):
        plan.append(tuple(op))
        if op[0] == "new":
            n += 1
        ask(i + 1)
    return plan


def sdf_line(item) -> str:
    if item[0] == "new":
        return "new" if item[1] is None else f"new {item[1]}"
    if item[0] == "set":
        return f"at {item[1]} set {item[2]} {sd_show(item[3])}"
    q = item[2]
    return f"at {item[1]} " + " ".join([q[0], str(q[1])] + ([sd_show(q[2])] if q[0] == "get" else []))


def sdf_impl(plan) -> list[str]:
    from xdsl.utils.scoped_dict import ScopedDict

    scopes: list[Any] = [ScopedDict()]
    out = ["ok"]
    for it in plan:
        try:
            if it[0] == "new":
                scopes.append(ScopedDict() if it[1] is None else ScopedDict(scopes[it[1]])); out.append("ok")
            elif it[0] == "set":
                scopes[it[1]][it[2]] = it[3]; out.append("ok")
            else:
                d, q = scopes[it[1]], it[2]
                if q[0] == "getitem":
                    out.append("val " + sd_show(d[q[1]]))
                elif q[0] == "contains":
                    out.append("bool " + ("true" if q[1] in d else "false"))
                else:
                    out.append("val " + sd_show(d.get(q[1], q[2])))
        except Exception as e:  # noqa: BLE001
            out.append("raise " + core.exc_name(e))
    return out


def sdf_spec(plan) -> list[str]:
    """independent reference: plain dicts + parent indices; innermost binding by walking up"""
    parent: list[int | None] = [None]
    local: list[dict] = [{}]
    out = ["ok"]
    for it in plan:
        if it[0] == "new":
            parent.append(it[1]); local.append({}); out.append("ok")
        elif it[0] == "set":
            local[it[1]][it[2]] = it[3]; out.append("ok")
        else:
            s, q = it[1], it[2]
            while s is not None and q[1] not in local[s]:
                s = parent[s]
            if q[0] == "getitem":
                out.append("raise KeyError" if s is None else "val " + sd_show(local[s][q[1]]))
            elif q[0] == "contains":
                out.append("bool " + ("true" if s is not None else "false"))
            else:
                out.append("val " + sd_show(q[2] if s is None else local[s][q[1]]))
    return out


def sdf_enumerate(maxlen: int, keys, vals, maxscopes: int):
    """every mutation sequence up to `maxlen` over {new p (p an existing scope), set s k v}"""
    seq: list[tuple] = []

    def rec(n):
        yield tuple(seq)
        if len(seq) == maxlen:
            return
        if n < maxscopes:
            for p in range(n):
                seq.append(("new", p)); yield from rec(n + 1); seq.pop()
        for s in range(n):
            for k in keys:
                for v in vals:
                    seq.append(("set", s, k, v)); yield from rec(n); seq.pop()

    yield from rec(1)


def run_scoped_forest(ctx: core.Ctx, families, nrandom: int) -> None:
    cases: list[tuple[tuple, list, Any]] = []  # (ops, keys, pick)
    for maxlen, keys, vals, maxscopes in families:
        for ops in sdf_enumerate(maxlen, keys, vals, maxscopes):
            cases.append((ops, keys, None))
    ctx.count("scoped_forest.exhaustive_sequences", len(cases))
    rnd = ctx.rng
    for _ in range(nrandom):
        keys = list(range(rnd.randint(1, 3)))
        ops: list[tuple] = []
        n = 1
        for _ in range(rnd.randint(6, 30)):
            if n < 8 and rnd.random() < 0.3:
                # mostly deepen the newest scope (long chains), sometimes branch, rarely a new root
                r = rnd.random()
                ops.append(("new", None if r < 0.05 else n - 1 if r < 0.6 else rnd.randrange(n)))
                n += 1
            else:
                ops.append(("set", rnd.randrange(n), rnd.choice(keys), rnd.choice([None, 0, 1, 2])))
        picks = [[rnd.randrange(8) for _ in range(3)] for _ in range(len(ops) + 1)]
        cases.append((tuple(ops), keys,
                      (lambda step, m, picks=picks: sorted({x % m for x in picks[step]} | {m - 1}))))
    all_lines: list[str] = []
    all_impl: list[str] = []
    for ops, keys, pick in cases:
        plan = sdf_plan(ops, keys, pick)
        impl, spec = sdf_impl(plan), sdf_spec(plan)
        lines = ["reset"] + [sdf_line(it) for it in plan]
        ctx.ev()
        # non-trivial: some scope that has a descendant is written after that descendant was created
        haskid: set[int] = set()
        nscopes = 1
        for op in ops:
            if op[0] == "new":
                if op[1] is not None:
                    haskid.add(op[1])
                nscopes += 1
            elif op[1] in haskid:
                ctx.nt(("sdf", ops))
                break
        if impl != spec:
            i = core.diff_streams(impl, spec)
            # shrink: drop mutations (renumbering is avoided: only `set`s and trailing ops are dropped)
            def still(c, keys=keys):
                try:
                    pl = sdf_plan(c, keys)
                    return sdf_impl(pl) != sdf_spec(pl)
                except Exception:  # noqa: BLE001
                    return False
            small = list(ops)
            if still(small):
                changed = True
                while changed:
                    changed = False
                    for j in range(len(small) - 1, -1, -1):
                        if small[j][0] == "set" or j == len(small) - 1:
                            c = small[:j] + small[j + 1:]
                            if still(c):
                                small = c; changed = True
                pl = sdf_plan(small, keys)
                im, sp = sdf_impl(pl), sdf_spec(pl)
                i = core.diff_streams(im, sp)
                pl = pl[:i]  # i indexes the outputs, which have the leading reset "ok"
                qline, got, want = sdf_line(pl[-1]), im[i], sp[i]
                case = {"structure": "scoped_forest", "ops": [list(o) for o in small], "keys": list(keys), "query": qline}
            else:  # only manifests with the sampled query schedule: keep the literal plan
                pl = plan[:i]
                qline, got, want = sdf_line(pl[-1]), impl[i], spec[i]
                case = {"structure": "scoped_forest", "plan": [list(x) if x[0] != "q" else ["q", x[1], list(x[2])] for x in pl],
                        "query": qline}
            form = qline.split()[2]
            site = {"get": "get", "getitem": "__getitem__", "contains": "__contains__"}.get(form, form)
            ctx.fail(f"xdsl.utils.scoped_dict.ScopedDict.{site}",
                     "lookup from a scope differs from the innermost binding after another live scope was written",
                     case, f"`{qline}` returned `{got}`, the innermost binding now is `{want}`", got, want)
        all_lines.extend(lines)
        all_impl.extend(impl)
    ctx.count("scoped_forest.cases", len(cases))
    ctx.count("scoped_forest.lines", len(all_lines))
    model = ctx.model("scoped_forest", all_lines)
    i = core.diff_streams(all_impl, model)
    if i is not None:
        j = max(k for k in range(i + 1) if all_lines[k] == "reset")
        ctx.mismatch("correspondence:C12/scoped_forest", {"structure": "scoped_forest", "lines": all_lines[j: i + 1]},
                     all_impl[j: i + 1], model[j: i + 1])
    mid = cases[len(cases) // 2]
    ctx.sample({"structure": "scoped_forest", "ops": [list(o) for o in mid[0]], "keys": list(mid[1])})


# ---------------------------------------------------------------------------------------------
# Union-find
# ---------------------------------------------------------------------------------------------

class RefPartition:
    """naive reference: explicit classes"""

    def __init__(self, n: int):
        self.cls = [{i} for i in range(n)]  # class of each element (shared set objects)

    def add(self) -> int:
        self.cls.append({len(self.cls)})
        return len(self.cls) - 1

    def same(self, a: int, b: int) -> bool:
        return self.cls[a] is self.cls[b]

    def merge(self, a: int, b: int) -> bool:
        if self.cls[a] is self.cls[b]:
            return False
        u = self.cls[a] | self.cls[b]
        for x in u:
            self.cls[x] = u
        return True


def gval(i: int) -> int:
    """value standing at index i in the generic runs: injective for i < 257, not monotone, never
    equal to its own index for small i (so an index/value confusion shows)"""
    return (i * 37 + 11) % 257


class UFRunner:
    """One real IntDisjointSet (or DisjointSet over the values gval(·) when `generic`) driven step by
    step next to the reference partition, with the direct oracle of the property.  `ds` may be handed
    in (an instance built by the caller, e.g. from an argument object shared with other instances);
    `shift` moves the values this instance *adds* (index ≥ the initial n) to gval(i + shift) so that
    different instances add different values.
    After the run: lines/out = index-level protocol and observations, glines/gout = value-level ones
    (generic only), complaint = None | [message, position in out]."""

    def __init__(self, n: int, generic: bool, ds: Any = None, shift: int = 0):
        from xdsl.utils.disjoint_set import DisjointSet, IntDisjointSet

        self.generic, self.n0, self.shift = generic, n, shift
        self.glines: list[str] = []
        self.gout: list[str] = []
        if generic:
            self.names = [gval(i) for i in range(n)]
            self.ds = DisjointSet(list(self.names)) if ds is None else ds
            self.glines.append("reset " + " ".join(map(str, self.names)))
            self.gout.append("ok")
        else:
            self.ds = IntDisjointSet(size=n) if ds is None else ds
        self.ref = RefPartition(n)
        self.lines, self.out = [f"reset {n}"], ["ok"]
        self.complaint: list | None = None

    # a value not (yet) added is simply absent -> KeyError
    def enc(self, i: int):
        if not self.generic:
            return i
        return gval(i) if i < self.n0 else gval(i + self.shift)

    def dec(self, v) -> int:
        if not self.generic:
            return v
        # a value that is not an element of THIS structure is in nobody's class
        return self.names.index(v) if v in self.names else -1

    def bad(self, msg: str) -> None:
        if self.complaint is None:
            self.complaint = [msg, len(self.out)]

    def same(self, r: int, x: int) -> bool:
        return 0 <= r < len(self.ref.cls) and self.ref.same(r, x)

    def step(self, op) -> None:
        generic, ds, ref, out, gout, enc, dec, bad = (self.generic, self.ds, self.ref, self.out, self.gout,
                                                      self.enc, self.dec, self.bad)
        self.lines.append(" ".join(map(str, op)))
        if generic:
            self.glines.append(" ".join([op[0]] + [str(enc(x)) for x in op[1:]]) if op[0] != "add"
                               else f"add {enc(len(self.names))}")
        try:
            if op[0] == "add":
                if generic:
                    self.names.append(enc(len(self.names)))
                    res = ds.add(self.names[-1])
                    gout.append("none" if res is None else f"unexpected {res!r}")
                    r = len(self.names) - 1
                    if len(ds) != len(self.names):
                        bad("len() after add is not the number of values")
                else:
                    r = ds.add()
                if r != ref.add():
                    bad("add returned wrong index")
                out.append(f"nat {r}")
            elif op[0] == "find":
                if generic:
                    v = ds.find(enc(op[1]))
                    gout.append(f"val {v}")
                    r = dec(v)
                else:
                    r = ds[op[1]]
                out.append(f"nat {r}")
                if not self.same(r, op[1]):
                    bad(f"find({op[1]}) = {r} is not in the class of {op[1]}")
            elif op[0] in ("union", "union_left"):
                in_range = all(0 <= x < len(ref.cls) for x in op[1:])
                rep_before = None
                if in_range and op[0] == "union_left":
                    rep_before = dec(ds.find(enc(op[1])) if generic else ds[op[1]])
                r = getattr(ds, op[0])(enc(op[1]), enc(op[2]))
                out.append("bool " + ("true" if r else "false"))
                if generic:
                    gout.append(out[-1])
                exp = ref.merge(op[1], op[2])
                if r != exp:
                    bad(f"{op[0]}{op[1:]} returned {r}, classes were {'distinct' if exp else 'equal'}")
                if op[0] == "union_left":
                    rep_after = dec(ds.find(enc(op[2])) if generic else ds[op[2]])
                    if rep_after != rep_before:
                        bad(f"union_left{op[1:]}: representative {rep_before} of the left class became {rep_after}")
            elif op[0] == "connected":
                r = ds.connected(enc(op[1]), enc(op[2]))
                out.append("bool " + ("true" if r else "false"))
                if generic:
                    gout.append(out[-1])
                if r != ref.same(op[1], op[2]):
                    bad(f"connected{op[1:]} = {r} but reference partition says {ref.same(op[1], op[2])}")
            elif op[0] == "roots":
                raw = list(ds.roots())
                if generic:
                    gout.append("roots " + " ".join(map(str, sorted(raw))))
                rs = sorted(dec(x) for x in raw)
                out.append("roots " + " ".join(map(str, rs)))
                if len(rs) != len({id(c) for c in ref.cls}):
                    bad("number of roots differs from number of classes")
        except KeyError:
            out.append("raise KeyError")
            if generic:
                gout.append("raise KeyError")
            if all(0 <= x < len(ref.cls) for x in op[1:] if isinstance(x, int)):
                bad(f"{op} raised KeyError for present elements")
        except Exception as e:  # noqa: BLE001
            out.append("raise " + core.exc_name(e))
            if generic:
                gout.append(out[-1])
            bad(f"{op} raised {core.exc_name(e)}")

    def finish(self):
        if self.generic:
            self.glines.append("len")
            self.gout.append(f"nat {len(self.ds)}")
            if len(self.ds) != len(self.names):
                self.bad("len() is not the number of values of this structure")
        return self.lines, self.out, self.complaint, ((self.glines, self.gout) if self.generic else None)


def uf_run(n: int, seq, generic: bool):
    """Run `seq` on one fresh real structure.  Returns (index-level protocol lines, impl outputs on
    indices, oracle complaint or None, None | (value-level protocol lines, impl outputs on values))."""
    r = UFRunner(n, generic)
    for op in seq:
        r.step(op)
    return r.finish()


# --- several instances next to each other -------------------------------------------------------
# "For every sequence of operations the structure represents exactly the partition induced by the
# unions performed" is a statement about ONE structure: what happens to other structures, or to the
# objects the caller handed to a constructor, is not among "the unions performed".  The families
# above build one instance per case from a fresh argument.  Here several instances are built from the
# SAME argument object (list or tuple) — and, for every structure, several instances of the class live
# side by side — their operations are interleaved, and the caller also goes on using its own list.
# Each instance must answer exactly as if it were alone: the oracle and the Lean comparison of every
# instance see only that instance's own operations.

def uf_shared_run(n: int, kind: str, seqs, schedule):
    """`kind`: 'int' (IntDisjointSet), 'list' / 'tuple' (DisjointSet built from one shared list/tuple
    object).  `schedule`: list of instance numbers, or -1 = the caller appends a foreign value to its
    own list.  Returns the runners."""
    from xdsl.utils.disjoint_set import DisjointSet, IntDisjointSet

    generic = kind != "int"
    arg: Any = [gval(i) for i in range(n)]
    if kind == "tuple":
        arg = tuple(arg)
    runners = [UFRunner(n, generic, ds=(DisjointSet(arg) if generic else IntDisjointSet(size=n)), shift=40 * (j + 1))
               for j in range(len(seqs))]
    pos = [0] * len(seqs)
    junk = 1000
    for j in schedule:
        if j < 0:
            if kind == "list":
                arg.append(junk); junk += 1
        elif pos[j] < len(seqs[j]):
            runners[j].step(seqs[j][pos[j]]); pos[j] += 1
    for j, r in enumerate(runners):
        for op in seqs[j][pos[j]:]:
            r.step(op)
    return runners


def gds_canon(model_lines: list[str]) -> list[str]:
    """the order of `roots()` is not part of the property: compare it sorted"""
    return [("roots " + " ".join(map(str, sorted(int(x) for x in l.split()[1:]))))
            if l.startswith("roots") and all(x.isdigit() for x in l.split()[1:]) else l for l in model_lines]


def gds_raw_run(init: list[int], seq) -> tuple[list[str], list[str]]:
    """Run value-level operations on the real DisjointSet WITHOUT assuming the contract (duplicate
    initial values, `add` of a present value): correspondence with the Lean model only, no oracle —
    the property says nothing there, but the model claims to mirror the code for every input."""
    from xdsl.utils.disjoint_set import DisjointSet

    ds: Any = DisjointSet(list(init))
    lines, out = ["reset " + " ".join(map(str, init))], ["ok"]
    for op in seq:
        lines.append(" ".join(map(str, op)))
        try:
            if op[0] == "add":
                res = ds.add(op[1]); out.append("none" if res is None else f"unexpected {res!r}")
            elif op[0] == "find":
                out.append(f"val {ds.find(op[1])}")
            elif op[0] == "roots":
                out.append("roots " + " ".join(map(str, sorted(ds.roots()))))
            elif op[0] == "len":
                out.append(f"nat {len(ds)}")
            else:
                out.append("bool " + ("true" if getattr(ds, op[0])(op[1], op[2]) else "false"))
        except Exception as e:  # noqa: BLE001
            out.append("raise " + core.exc_name(e))
    return lines, out


def run_union_find(ctx: core.Ctx, maxlen: int, nrandom: int) -> None:
    n = 4
    muts = [(k, a, b) for k in ("union", "union_left") for a in range(n) for b in range(n)]
    queries = [("find", a) for a in range(n)] + [("connected", a, b) for a in range(n) for b in range(a + 1, n)] + [("roots",)]
    cases: list[tuple[int, tuple, bool]] = []
    for L in range(0, maxlen + 1):
        for ms in itertools.product(muts, repeat=L):
            seq: list[tuple] = []
            for m in ms:
                seq.append(m)
            # queries after the last mutation only (prefixes are separate cases); compression is
            # exercised because queries themselves mutate the forest
            seq.extend(queries)
            cases.append((n, tuple(seq), False))
    # the generic wrapper, exhaustively: 3 present values, value 3 absent until an `add`; every
    # union/union_left/add sequence up to the bound, then all queries (incl. the absent value)
    gn = 3
    gmuts = [(k, a, b) for k in ("union", "union_left") for a in range(gn + 1) for b in range(gn + 1)] + [("add",)]
    gqueries = ([("find", a) for a in range(gn + 2)]
                + [("connected", a, b) for a in range(gn + 1) for b in range(a, gn + 1)] + [("roots",)])
    for L in range(0, maxlen + 1):
        for ms in itertools.product(gmuts, repeat=L):
            cases.append((gn, tuple(ms) + tuple(gqueries), True))
    for _ in range(nrandom):
        nn = ctx.rng.randint(1, 24)
        seq = []
        size = nn
        for _ in range(ctx.rng.randint(5, 120)):
            r = ctx.rng.random()
            hi = size + (1 if ctx.rng.random() < 0.05 else 0)  # occasionally out of range
            a, b = ctx.rng.randrange(hi + 0) if hi else 0, ctx.rng.randrange(hi) if hi else 0
            if r < 0.05:
                seq.append(("add",)); size += 1
            elif r < 0.30:
                seq.append(("union", a, b))
            elif r < 0.55:
                seq.append(("union_left", a, b))
            elif r < 0.75:
                seq.append(("find", a))
            elif r < 0.95:
                seq.append(("connected", a, b))
            else:
                seq.append(("roots",))
        cases.append((nn, tuple(seq), ctx.rng.random() < 0.5))
    all_lines: list[str] = []
    all_impl: list[str] = []
    g_lines: list[str] = []
    g_impl: list[str] = []
    for nn, seq, generic in cases:
        lines, impl, complaint, gen = uf_run(nn, seq, generic)
        if gen is not None:
            g_lines.extend(gen[0])
            g_impl.extend(gen[1])
            ctx.count("union_find.generic_cases")
        ctx.ev()
        if any(o == "bool true" for o, l in zip(impl, lines) if l.startswith("union")):
            ctx.nt(("uf", nn, seq, generic))
        if complaint is not None:
            upto = complaint[1]
            small = list(seq[:upto])
            if len(small) > 8:
                small = core.shrink_list(small, lambda c: uf_run(nn, c, generic)[2] is not None)
            op = lines[upto].split()[0] if upto < len(lines) else "?"
            cls = "DisjointSet" if generic else "IntDisjointSet"
            ctx.fail(f"xdsl.utils.disjoint_set.{cls}.{op}", "disagrees with reference partition",
                     {"structure": "union_find", "n": nn, "generic": generic, "ops": [list(o) for o in small]},
                     complaint[0], uf_run(nn, small, generic)[1], None)
        all_lines.extend(lines)
        all_impl.extend(impl)
    ctx.count("union_find.cases", len(cases))
    ctx.count("union_find.lines", len(all_lines))
    model = ctx.model("int_disjoint_set", all_lines)
    i = core.diff_streams(all_impl, model)
    if i is not None:
        j = max(k for k in range(i + 1) if all_lines[k].startswith("reset"))
        ctx.mismatch("correspondence:C12/int_disjoint_set", {"structure": "union_find", "lines": all_lines[j: i + 1]},
                     all_impl[j: i + 1], model[j: i + 1])
    # the generic wrapper against its own Lean model (values, not indices)
    rnd = ctx.rng
    for _ in range(max(50, nrandom // 4)):
        init = [rnd.randrange(5) for _ in range(rnd.randint(0, 5))]
        seq = []
        for _ in range(rnd.randint(3, 40)):
            r = rnd.random()
            a, b = rnd.randrange(7), rnd.randrange(7)
            seq.append(("add", a) if r < 0.15 else ("union", a, b) if r < 0.35 else ("union_left", a, b) if r < 0.55
                       else ("find", a) if r < 0.75 else ("connected", a, b) if r < 0.9 else ("roots",) if r < 0.95 else ("len",))
        lines, impl = gds_raw_run(init, seq)
        g_lines.extend(lines)
        g_impl.extend(impl)
        ctx.ev()
        ctx.count("union_find.generic_uncontracted_cases")
    ctx.count("union_find.generic_lines", len(g_lines))
    gmodel = gds_canon(ctx.model("disjoint_set", g_lines))
    i = core.diff_streams(g_impl, gmodel)
    if i is not None:
        j = max(k for k in range(i + 1) if g_lines[k].startswith("reset"))
        ctx.mismatch("correspondence:C12/disjoint_set", {"structure": "union_find", "glines": g_lines[j: i + 1]},
                     g_impl[j: i + 1], gmodel[j: i + 1])
    nn, seq, generic = cases[len(cases) // 3]
    ctx.sample({"structure": "union_find", "n": nn, "generic": generic, "ops": [list(o) for o in seq][:12]})


def uf_shared_complaints(n, kind, seqs, schedule):
    rs = uf_shared_run(n, kind, seqs, schedule)
    res = [r.finish() for r in rs]
    return [(j, x) for j, x in enumerate(res) if x[2] is not None], res


def run_uf_shared(ctx: core.Ctx, maxlen: int, nrandom: int) -> None:
    cases: list[tuple[int, str, list, list]] = []
    # exhaustive: two instances over the same 2 initial values, every interleaving up to `maxlen` of
    # {add, union, union_left (also with the value added later)} on either instance and of the caller
    # appending to its own list; then every query on both instances
    n = 2
    acts = [("add",), ("union", 0, 1), ("union_left", 1, 0), ("union_left", 2, 0), ("union", 1, 2)]
    queries = ([("find", a) for a in range(n + 2)]
               + [("connected", a, b) for a in range(n + 1) for b in range(a + 1, n + 1)] + [("roots",)])
    alphabet = [(j, a) for j in (0, 1) for a in acts] + [(-1, None)]
    for kind in ("list", "tuple", "int"):
        for L in range(0, maxlen + 1):
            for word in itertools.product(alphabet if kind == "list" else alphabet[:-1], repeat=L):
                if kind != "list" and not any(j == 1 for j, _ in word):
                    continue  # one instance from an immutable argument: the solo families have it
                seqs = [[a for j, a in word if j == i] + queries for i in (0, 1)]
                cases.append((n, kind, seqs, [j for j, _ in word]))
    ctx.count("union_find.shared_exhaustive_cases", len(cases))
    rnd = ctx.rng
    for _ in range(nrandom):
        nn = rnd.randint(0, 8)
        kind = rnd.choice(["list", "list", "tuple", "int"])
        seqs = []
        for _ in range(rnd.randint(2, 3)):
            seq, size = [], nn
            for _ in range(rnd.randint(3, 40)):
                r = rnd.random()
                hi = size + (1 if rnd.random() < 0.1 else 0)
                a, b = (rnd.randrange(hi), rnd.randrange(hi)) if hi else (0, 0)
                if r < 0.15 and size - nn < 25:
                    seq.append(("add",)); size += 1
                elif r < 0.30:
                    seq.append(("union", a, b))
                elif r < 0.45:
                    seq.append(("union_left", a, b))
                elif r < 0.70:
                    seq.append(("find", a))
                elif r < 0.95:
                    seq.append(("connected", a, b))
                else:
                    seq.append(("roots",))
            seqs.append(seq)
        total = sum(len(q) for q in seqs)
        schedule = [(-1 if rnd.random() < 0.08 else rnd.randrange(len(seqs))) for _ in range(2 * total)]
        cases.append((nn, kind, seqs, schedule))
    i_lines: list[str] = []
    i_impl: list[str] = []
    g_lines: list[str] = []
    g_impl: list[str] = []
    for nn, kind, seqs, schedule in cases:
        bad, res = uf_shared_complaints(nn, kind, seqs, schedule)
        ctx.ev()
        if sum(1 for j in set(schedule) if j >= 0 and any(o[0] in ("add", "union", "union_left") for o in seqs[j])) >= 2:
            ctx.nt(("ufs", nn, kind, tuple(map(tuple, seqs)), tuple(schedule)))
        if bad:
            def still(sq, sch, nn=nn, kind=kind):
                try:
                    return bool(uf_shared_complaints(nn, kind, sq, sch)[0])
                except Exception:  # noqa: BLE001
                    return False
            sq, sch = [list(q) for q in seqs], list(schedule)
            if len(sch) > 6:
                for j in range(len(sq)):
                    sq[j] = core.shrink_list(sq[j], lambda c, j=j: still(sq[:j] + [c] + sq[j + 1:], sch))
                sch = core.shrink_list(sch, lambda c: still(sq, c))
            bad2, res2 = uf_shared_complaints(nn, kind, sq, sch)
            j, (lines, out, complaint, gen) = bad2[0] if bad2 else bad[0]
            if not bad2:
                sq, sch = [list(q) for q in seqs], list(schedule)
            upto = complaint[1]
            op = lines[upto].split()[0] if upto < len(lines) else "__len__"
            cls = "IntDisjointSet" if kind == "int" else "DisjointSet"
            ctx.fail(f"xdsl.utils.disjoint_set.{cls}.{op}",
                     "instance is affected by another instance / by the caller's own argument object",
                     {"structure": "union_find_shared", "n": nn, "kind": kind, "seqs": [[list(o) for o in q] for q in sq],
                      "schedule": sch},
                     f"instance {j}: {complaint[0]}", (gen[1] if gen else out), None)
        for lines, out, _c, gen in res:
            if gen is not None:
                g_lines.extend(gen[0]); g_impl.extend(gen[1])
            i_lines.extend(lines); i_impl.extend(out)
    ctx.count("union_find.shared_cases", len(cases))
    ctx.count("union_find.shared_lines", len(i_lines) + len(g_lines))
    for name, lines, impl, canon in (("int_disjoint_set", i_lines, i_impl, lambda x: x),
                                     ("disjoint_set", g_lines, g_impl, gds_canon)):
        model = canon(ctx.model(name, lines))
        i = core.diff_streams(impl, model)
        if i is not None:
            j = max(k for k in range(i + 1) if lines[k].startswith("reset"))
            key = "lines" if name == "int_disjoint_set" else "glines"
            ctx.mismatch(f"correspondence:C12/{name}", {"structure": "union_find", key: lines[j: i + 1], "shared_instances": True},
                         impl[j: i + 1], model[j: i + 1])
    nn, kind, seqs, schedule = cases[len(cases) // 2]
    ctx.sample({"structure": "union_find_shared", "n": nn, "kind": kind, "seqs": [[list(o) for o in q][:6] for q in seqs],
                "schedule": schedule[:12]})


def run(ctx: core.Ctx) -> None:
    ctx.lean()
    if ctx.tier == "quick":
        run_worklist(ctx, maxlen=5, nrandom=300, randlen=200)
        run_scoped_dict(ctx, maxlen=4, nrandom=300)
        run_scoped_forest(ctx, [(4, [0, 1], [None, 1], 4), (5, [0], [None, 1], 3)], nrandom=100)
        run_union_find(ctx, maxlen=2, nrandom=600)
        run_uf_shared(ctx, maxlen=3, nrandom=200)
    else:
        run_worklist(ctx, maxlen=6, nrandom=3000, randlen=500)
        run_scoped_dict(ctx, maxlen=5, nrandom=3000)
        run_scoped_forest(ctx, [(4, [0, 1], [None, 0, 1], 4), (5, [0], [None, 0, 1], 4), (5, [0, 1], [None, 1], 3)],
                          nrandom=1500)
        run_union_find(ctx, maxlen=3, nrandom=6000)
        run_uf_shared(ctx, maxlen=4, nrandom=3000)
    ctx.exhaustive = True
    ctx.extra["exhaustive_scope"] = "all histories up to the stated length over the small universes; random beyond"


def replay(ctx: core.Ctx, body: dict) -> int:
    case = body["case"]
    st = case["structure"]
    if st == "worklist":
        seq = [tuple(o) for o in case["ops"]]
        impl, spec = wl_impl(seq), wl_spec(seq)
        model = ctx.model("worklist", wl_lines(seq))[1:]
    elif st == "scoped_forest":
        if "lines" in case:
            lines = case["lines"]; impl = body.get("impl_observation"); spec = None
        else:
            if "ops" in case:
                plan = sdf_plan([tuple(o) for o in case["ops"]], case["keys"])
            else:
                plan = [tuple(x) if x[0] != "q" else ("q", x[1], tuple(x[2])) for x in case["plan"]]
            lines = ["reset"] + [sdf_line(it) for it in plan]
            impl, spec = sdf_impl(plan), sdf_spec(plan)
        model = ctx.model("scoped_forest", lines)
    elif st == "scoped_dict":
        if "mutations" in case:
            muts = [tuple(m) for m in case["mutations"]]
            lines, impl = sd_impl(muts)
            spec = sd_spec(muts)
        else:
            lines = case["lines"]; impl = body.get("impl_observation"); spec = None
        model = ctx.model("scoped_dict", lines)
    elif st == "union_find_shared":
        bad, res = uf_shared_complaints(case["n"], case["kind"], [[tuple(o) for o in q] for q in case["seqs"]], case["schedule"])
        for j, (lines, out, complaint, gen) in enumerate(res):
            print(f"instance {j}: operations  :", (gen[0] if gen else lines))
            print(f"instance {j}: implementation:", (gen[1] if gen else out))
            print(f"instance {j}: lean model    :", gds_canon(ctx.model("disjoint_set", gen[0])) if gen
                  else ctx.model("int_disjoint_set", lines))
            print(f"instance {j}: oracle complaint:", complaint)
        print("property", "FAILS" if bad else "holds", "on this case")
        return 1 if bad else 0
    else:
        if "ops" in case:
            seq = [tuple(o) for o in case["ops"]]
            lines, impl, complaint, gen = uf_run(case["n"], seq, case.get("generic", False))
            spec = complaint
            if gen is not None:
                print("generic wrapper, implementation:", gen[1])
                print("generic wrapper, lean model    :", gds_canon(ctx.model("disjoint_set", gen[0])))
        elif "glines" in case:
            lines = case["glines"]; spec = None
            seq = [tuple(int(x) if x.isdigit() else x for x in l.split()) for l in lines[1:]]
            impl = gds_raw_run([int(x) for x in lines[0].split()[1:]], seq)[1]
            print("implementation:", impl)
            print("lean model    :", gds_canon(ctx.model("disjoint_set", lines)))
            bad = impl != gds_canon(ctx.model("disjoint_set", lines))
            print("implementation and model", "DIFFER" if bad else "agree", "on this case")
            return 1 if bad else 0
        else:
            lines = case["lines"]; impl = body.get("impl_observation"); spec = None
        model = ctx.model("int_disjoint_set", lines)
    print("implementation:", impl)
    print("lean model    :", model)
    print("reference/oracle:", spec)
    bad = (impl != spec) if st != "union_find" else (spec is not None)
    print("property", "FAILS" if bad else "holds", "on this case")
    return 1 if bad else 0
