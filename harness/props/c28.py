"""C28 — equality saturation preserves program results."""
from __future__ import annotations

import json
import os
import signal
import tempfile
from typing import Any

from vp import core, miniir, proggen
from props import c28_rules

META = {
    "title": "Equality saturation preserves program results",
    "category": "proof",
    "design_ref": "DESIGN.md §5 C28",
    "lean_modules": ["XdslProofs.C28", "XdslProofs.C28Total", "XdslProofs.C28Union", "XdslProofs.C28Reorder"],
    "text": (
        "Lean model XdslModel/EGraph.lean of the e-graph embedding (equivalence.class ops over SSA values): "
        "createEclasses (eqsat-create-eclasses), addCosts (eqsat-add-costs fixed point), extract (eqsat-extract incl. "
        "the stable topological re-ordering), eclassUnion (e-class merge on the C12 union-find) and addNode. "
        "Semantics: every op is an arbitrary function of its operand values; a graph is consistent with a valuation "
        "when every op node has the value of its function on its operands' values and every alternative of a class "
        "has the class's value. Theorems for every interpretation, input, program and e-graph: "
        "evalSeq_consistent_run (a well-formed SSA function is consistent with its own run); "
        "createEclasses_consistent; merge_preserves_consistency (merging two classes of equal value, whichever is "
        "kept) and eclassUnion_preserves_consistency (the same through the union-find with stale handles, using the "
        "C12 theorems; also forest invariant and handle soundness preserved, never raises); "
        "insert_preserves_consistency; satSteps_refines (any sequence of sound merges/insertions); "
        "addCosts_consistent; extract_sound_partial (consistent g, ANY min_cost_index assignment, cyclic graphs "
        "included: every successful run of the extracted function returns the values of g's roots); "
        "pipeline_sound_partial (create, sound saturation, costs, extract: successful runs return the original "
        "results); create_extract_id (FULL: with no rules, for every default cost/cost table the round trip succeeds, "
        "the extracted function runs on every input on which the source runs, and returns the same results). "
        "Translation validation on every run: generated pure arith functions through the real passes (no rules; and "
        "sound PDL rules converted by convert-pdl-to-pdl-interp + convert-pdl-interp-to-eqsat-pdl-interp and applied "
        "by apply_eqsat_pdl_interp with bounded iterations), source and extracted function executed by the Lean "
        "reference semantics (driver model `sem`) on random inputs; no-rule output compared structurally with the "
        "source minus dead code; stage-wise structural correspondence of the real create / add-costs / extract / "
        "eclass_union with the model (class structure, chosen alternative, operation order). "
        "Modules of several functions go through the same pipelines (the rewriter's hash-cons table, union-find and "
        "worklist are shared by the module): every function is observed, compared with the model and executed on its "
        "own, and after every stage no function may use a value defined outside its body. "
        "The re-ordering that ends eqsat-extract (restore_dominance_order) is additionally run on blocks of its own: "
        "every DAG of up to 4 binary operations in every placement, random larger blocks in several disorder shapes "
        "(uses nested in regions, a few cyclic blocks); oracle: the result is a permutation of the block and, when "
        "the dependencies are acyclic, every operation follows the definitions of its operands; the new order is "
        "compared with the model's topoSort (theorems topoSort_perm, topoSort_ordered, topoSort_runs in C28Reorder)."
    ),
    "technique": "Lean 4 proofs on an abstract e-graph model + translation validation against the Lean reference semantics + stage-wise structural correspondence",
    "level_note": (
        "The pattern matcher/rewriter (apply_eqsat_pdl_interp: which classes get merged, hash-consing, rebuilding) "
        "and the PDL→pdl_interp conversion are NOT modelled: rule applications are validated per run (results on "
        "random inputs, ub runs of the source excluded), not proved. The theorems use total abstract op functions "
        "(no UB); UB is handled on the validation leg only. A pipeline exception is JUDGED: with a sound rule set, an "
        "exception raised by conversion, saturation, add-costs or extract on a function on which the no-rule pipeline "
        "succeeds is reported as a failing input (call site = the stage that raised; shrunk over rules and statements), "
        "except for the documented unsupported cases, which are only counted: pdl_interp.switch_type (rule sets over "
        "two element types, no interpreter implementation) and the CPU guard of the harness; "
        "equivalence.const_class is serialised like equivalence.class for the add-costs/extract correspondence (both "
        "passes treat them alike), its constant-folding role in the rewriter is not modelled. "
        "Success of extraction and of the run of its output for a saturated (possibly cyclic) graph is validated, not "
        "proved (extract_sound_partial / pipeline_sound_partial are partial-correctness statements; missing: "
        "acyclicity of the alternatives chosen by the cost fixed point, safety of every erase; the re-ordering itself "
        "is proved correct on every acyclic block — C28Reorder — but not yet chained into a total extract theorem); "
        "for the no-rule round trip it is proved (create_extract_id). An exception raised by a modelled "
        "stage (create, add-costs, extract) is compared with the model (which is total / raises only on an unsafe "
        "erase) and reported as broken correspondence when the model disagrees."
    ),
    "rule": (
        "A case = generated module: @main (dense single-type arith DAG biased towards rule left-hand sides; `mirror`: "
        "such a DAG in which some operations are stated again LATER in the block in the form a library rule produces "
        "from them — operands swapped, x*2 / x<<1 / x+x, re-association, distribution — with a live user in between "
        "and mostly a cost table that makes the later form the cheaper one, so that the rewriter re-uses an operation "
        "behind the matched root and extraction has to re-order the block; or a "
        "vp/proggen program restricted to pure arith/cmp/select/cast without control flow and externs), in 15–30 % of "
        "the cases together with 1–2 further functions of the same element type placed before or after it (dense, "
        "multisite, or small functions built around the constants 0/1/2 that library rules create) × rule set "
        "(empty, or 1–10 sound rules of c28_rules for one element type; `multisite` functions carry the same redex "
        "`v op v` of a constant-CREATING rule (x-x→0, x^x→0, x%x→0, x/x→1, x+x→x*2) at 2–4 sites with other uses of the "
        "operands and without the created constant in the source, so that several classes are merged into one fresh "
        "equivalence.const_class) × iteration bound × cost assignment "
        "(default, random cost file, random per-op eqsat_cost) × 4–5 random input vectors. Non-trivial = the "
        "source run is defined (not ub) and, for the rules leg, saturation added at least one alternative to a "
        "class (counted per distinct (program, rules, costs, input)); no-rule leg: the program has ≥1 live op. "
        "Reorder leg: a block = operations in block order with operand ids; non-trivial = restore_dominance_order "
        "changed the order (counted per distinct block). "
        "Correspondence cases: every stage output of every function of every case, every reorder block, plus eclass_union sequences on created e-graphs in "
        "which the classes of one constant value are equivalence.const_class ops: random pairs (stale handles included) "
        "and targeted const-class × regular-class merges of equal size in both argument orders followed by further "
        "merges through both handles."
    ),
    "trusted_base": [
        "Lean reference semantics XdslModel/Sem.lean (MLIR integer semantics on BitVec, native IEEE floats) and the MiniIR serialiser harness/vp/miniir.py",
        "hand-written Lean model XdslModel/EGraph.lean, tied to the real passes by stage-wise structural correspondence (e-graph text of the real IR before/after each pass)",
        "soundness of the rule library harness/props/c28_rules.py (each rule is an arith identity at its type; reviewed by hand, exercised by the validation itself)",
    ],
    "assumptions": [
        "op semantics in the theorems are total functions of operand values (UB/poison only on the validation leg)",
        "the e-matching engine is validated, not modelled",
    ],
    "budget": {"quick": 150, "thorough": 1100},
}

INT_TYPES = ["i8", "i16", "i32", "i64", "index"]
SITE_EXTRACT = "xdsl.transforms.eqsat_extract.eqsat_extract"
SITE_CREATE = "xdsl.transforms.eqsat_create_eclasses.insert_eclass_ops"
SITE_COSTS = "xdsl.transforms.eqsat_add_costs.add_eqsat_costs"
SITE_APPLY = "xdsl.transforms.apply_eqsat_pdl_interp.apply_eqsat_pdl_interp"
SITE_CONVERT = "xdsl.transforms.convert_pdl_to_pdl_interp.conversion.PatternAnalyzer._extract_attribute_predicates"
SIG_ORDER = "extracted operation uses a value that is defined later in the block"
SIG_ATTR = "matcher does not check a constant attribute whose value is falsy (0 / false / 0.0)"
SIG_RESULT_RULES = "extracted program returns different results than the source (sound rules)"
SIG_RESULT_NORULE = "create-eclasses + extract without rules changes the results"
SIG_DROPPED = "create-eclasses + extract without rules is not the source minus dead code"
SIG_LEFTOVER = "e-class left unextracted although every operation has a cost"
SIG_FOREIGN = "a function uses a value that is defined in another function"
SITE_REORDER = "xdsl.transforms.eqsat_extract.restore_dominance_order"
SIG_REORDER_ORDER = "an operation is left before the definition of one of its operands (acyclic block)"
SIG_REORDER_PERM = "the reordered block is not a permutation of the operations of the block"
SITE_CONVERT_PASS = "xdsl.transforms.convert_pdl_to_pdl_interp.conversion.ConvertPDLToPDLInterpPass.apply"
STAGE_SITE = {"convert": SITE_CONVERT_PASS, "saturate": SITE_APPLY, "costs": SITE_COSTS, "extract": SITE_EXTRACT}
# documented unsupported cases of the pipeline: counted, never judged
UNSUPPORTED_EXC = ("Could not find interpretation function for op pdl_interp.switch_type", "Timeout:")


def sig_exception(stage: str, exc: str) -> str:
    return f"{stage} raises {exc} on a valid function with a sound rule set (the no-rule pipeline succeeds)"


# ------------------------------------------------------------------------------------------------
# real-code adapters
# ------------------------------------------------------------------------------------------------

def mkctx() -> Any:
    from xdsl.context import Context
    from xdsl.dialects import arith, builtin, eqsat_pdl_interp, equivalence, func, pdl, pdl_interp

    ctx = Context()
    for d in (builtin.Builtin, arith.Arith, func.Func, pdl.PDL, pdl_interp.PDLInterp,
              eqsat_pdl_interp.EqSatPDLInterp, equivalence.Equivalence):
        ctx.load_dialect(d)
    return ctx


def parse(ctx: Any, text: str) -> Any:
    from xdsl.parser import Parser

    m = Parser(ctx, text).parse_module()
    m.verify()
    return m


class Timeout(Exception):
    pass


class cpu_guard:
    """CPU-time guard around a pipeline stage (a runaway saturation is not a verdict)."""

    def __init__(self, seconds: float):
        self.seconds = seconds

    def __enter__(self):
        def _guard(signum, frame):
            raise Timeout("pipeline exceeded its CPU budget")
        self.old = signal.signal(signal.SIGVTALRM, _guard)
        signal.setitimer(signal.ITIMER_VIRTUAL, self.seconds)

    def __exit__(self, *a):
        signal.setitimer(signal.ITIMER_VIRTUAL, 0)
        signal.signal(signal.SIGVTALRM, self.old)
        return False


def rule_text(rules: list[list[str]]) -> str:
    return "".join(c28_rules.rules_for(T)[name] if name in c28_rules.rules_for(T) else c28_rules.unsound_rules(T)[name]
                   for T, name in rules)


def matched_constants(pdl_module: Any) -> list[Any]:
    """constant attributes that a pattern *matches on* (pdl.attribute with a value outside pdl.rewrite)"""
    from xdsl.dialects import pdl

    out = []
    for pat in pdl_module.body.ops:
        if isinstance(pat, pdl.PatternOp):
            for o in pat.body.ops:
                if isinstance(o, pdl.AttributeOp) and o.value is not None:
                    out.append(o.value)
    return out


def checked_constants(interp_module: Any) -> list[Any]:
    from xdsl.dialects import pdl_interp

    out = []
    for o in interp_module.walk():
        if isinstance(o, pdl_interp.CheckAttributeOp):
            out.append(o.constantValue)
        elif isinstance(o, pdl_interp.SwitchAttributeOp):
            out.extend(o.caseValues.data)
    return out


def build_rules(rules: list[list[str]]) -> tuple[Any, list[str]]:
    """PDL text → pdl_interp (xDSL converter) → eqsat_pdl_interp; second component: constants the
    patterns match on that the generated matcher never compares (direct oracle of the conversion)"""
    from xdsl.transforms.convert_pdl_interp_to_eqsat_pdl_interp import ConvertPDLInterpToEqsatPDLInterpPass
    from xdsl.transforms.convert_pdl_to_pdl_interp.conversion import ConvertPDLToPDLInterpPass

    ctx = mkctx()
    m = parse(ctx, "builtin.module {\n" + rule_text(rules) + "}\n")
    want = matched_constants(m)
    ConvertPDLToPDLInterpPass().apply(ctx, m)
    ConvertPDLInterpToEqsatPDLInterpPass().apply(ctx, m)
    m.verify()
    have = checked_constants(m)
    missing = sorted({str(a) for a in want if a not in have})
    return m, missing


def is_class(o: Any) -> bool:
    from xdsl.dialects import equivalence

    return isinstance(o, equivalence.ClassOp | equivalence.ConstantClassOp)


def main_block(module: Any, fname: str = "main") -> Any:
    from xdsl.dialects import func

    for o in module.body.ops:
        if isinstance(o, func.FuncOp) and o.sym_name.data == fname:
            return o.body.block
    raise miniir.Unsupported("no @" + fname)


def func_names(module: Any) -> list[str]:
    from xdsl.dialects import func

    return [o.sym_name.data for o in module.body.ops if isinstance(o, func.FuncOp)]


def foreign_uses(module: Any) -> list[str]:
    """direct oracle: `func.func` is isolated from above — operations of a function body whose operand is neither
    an argument of that body nor the result of an operation of that body (one text line per offending op)"""
    from xdsl.dialects import func
    from xdsl.ir import Operation

    out = []
    for f in module.body.ops:
        if not isinstance(f, func.FuncOp) or not f.body.blocks:
            continue
        blk = f.body.block
        for o in blk.ops:
            for x in o.operands:
                owner = x.owner                         # the defining operation, or the block of a block argument
                if owner is blk or (isinstance(owner, Operation) and owner.parent is blk):
                    continue
                w = owner if isinstance(owner, Operation) else owner.parent_op()
                while w is not None and not isinstance(w, func.FuncOp):
                    w = w.parent_op()
                out.append(f"@{f.sym_name.data}: {o.name} uses a value of "
                           + ("@" + w.sym_name.data if w is not None else "a detached operation"))
                break
    return out


def clean(s: str) -> str:
    return s.replace(" ", "").replace(";", ",").replace("\n", "") or "_"


def eg_text(module: Any, fname: str = "main") -> str:
    """e-graph protocol text (XdslModel/EGraph.lean) of @fname; ids: block args, then results in block order"""
    from xdsl.dialects import equivalence, func
    from xdsl.dialects.builtin import IntAttr

    blk = main_block(module, fname)
    ids: dict[Any, int] = {}
    for a in blk.args:
        ids[a] = len(ids)
    body = [o for o in blk.ops if not isinstance(o, func.ReturnOp)]
    for o in body:
        if len(o.results) != 1 or o.regions:
            raise miniir.Unsupported(o.name)
        ids[o.results[0]] = len(ids)
    parts = [str(len(blk.args))]

    def opt(a: Any) -> str:
        if a is None:
            return "-"
        if not isinstance(a, IntAttr) or a.data < 0:
            raise miniir.Unsupported("cost attribute")
        return str(a.data)

    for o in list(body) + [blk.last_op]:
        if any(x not in ids for x in o.operands):
            raise miniir.Unsupported("operand defined outside the function body")
    for o in body:
        args = " ".join(str(ids[x]) for x in o.operands)
        r = ids[o.results[0]]
        if isinstance(o, equivalence.ClassOp | equivalence.ConstantClassOp):
            # add-costs and extract treat both kinds alike (`AnyClassOp`); the constant value is not modelled
            parts.append(f"c {r} {opt(o.min_cost_index)} {args}".rstrip())
        else:
            kv = sorted((k, str(v)) for k, v in list(o.properties.items()) + list(o.attributes.items()) if k != "eqsat_cost")
            key = clean("|".join(f"{k}={v}" for k, v in kv) + ":" + str(o.results[0].type))
            parts.append(f"o {r} {o.name} {key} {opt(o.attributes.get('eqsat_cost'))} {args}".rstrip())
    last = blk.last_op
    parts.append(("r " + " ".join(str(ids[x]) for x in last.operands)).rstrip())
    return " ; ".join(parts)


def parse_eg(text: str) -> tuple[int, list[list[str]], list[str]]:
    segs = [s.split() for s in text.split(";")]
    return int(segs[0][0]), segs[1:-1], segs[-1][1:]


def canon(text: str) -> str:
    """renumber ids by definition order (block arguments first)"""
    if text in ("raise", "bad-op") or text.startswith("fuel"):
        return text
    nargs, nodes, ret = parse_eg(text)
    m = {str(i): str(i) for i in range(nargs)}
    for n in nodes:
        m.setdefault(n[1], str(len(m)))
    f = lambda x: m.get(x, "?" + x)
    out = [str(nargs)]
    for n in nodes:
        if n[0] == "o":
            out.append(" ".join(["o", f(n[1]), n[2], n[3], n[4]] + [f(x) for x in n[5:]]))
        else:
            out.append(" ".join(["c", f(n[1]), n[2]] + [f(x) for x in n[3:]]))
    out.append(" ".join(["r"] + [f(x) for x in ret]))
    return " ; ".join(out)


def eg_ordered(text: str) -> bool:
    nargs, nodes, ret = parse_eg(text)
    seen = {str(i) for i in range(nargs)}
    for n in nodes:
        ops = n[5:] if n[0] == "o" else n[3:]
        if any(x not in seen for x in ops):
            return False
        seen.add(n[1])
    return all(x in seen for x in ret)


def eg_dce(text: str) -> str:
    """the source minus dead code (reference for the no-rule round trip), costs dropped"""
    nargs, nodes, ret = parse_eg(text)
    live = set(ret)
    keep = []
    for n in reversed(nodes):
        if n[1] in live:
            keep.append(n)
            live.update(n[5:])
    keep.reverse()
    return canon(" ; ".join([str(nargs)] + [" ".join(n[:4] + ["-"] + n[5:]) for n in keep] + [" ".join(["r"] + ret)]))


def dict_token(costs: dict[str, int] | None) -> str:
    return ",".join(f"{k}={v}" for k, v in sorted(costs.items())) if costs else "-"


class GeneratorReject(Exception):
    """the generated text is not an input of the pipeline (parser / serialiser refuses the SOURCE)"""


def case_funcs(case: dict[str, Any]) -> dict[str, list[str]]:
    """function name -> argument types (cases written before the multi-function leg have only @main)"""
    return case.get("funcs") or {"main": case["arg_types"]}


def run_pipeline(case: dict[str, Any]) -> dict[str, Any]:
    """the real pipeline on one case (a module of one or more functions); every stage of every function
    observed as e-graph text (`obs["fn"][name]["s0".."s4"]`)"""
    from xdsl.dialects.builtin import IntAttr
    from xdsl.transforms.apply_eqsat_pdl_interp import apply_eqsat_pdl_interp
    from xdsl.transforms.eqsat_add_costs import EqsatAddCostsPass
    from xdsl.transforms.eqsat_create_eclasses import EqsatCreateEclassesPass
    from xdsl.transforms.eqsat_extract import EqsatExtractPass

    obs: dict[str, Any] = {"stage": "parse", "missing_checks": [], "fn": {}, "foreign": []}
    try:
        ctx = mkctx()
        m = parse(ctx, case["program"])
        names = func_names(m)
        obs["names"] = names
        obs["src_sexp"] = miniir.serialize(m)
        for nm in names:
            obs["fn"][nm] = {"s0": eg_text(m, nm)}
    except Exception as e:  # noqa: BLE001
        raise GeneratorReject(core.exc_name(e)) from e

    def texts(key: str, strict: bool = False) -> None:
        for nm in names:
            try:
                obs["fn"][nm][key] = eg_text(m, nm)
            except miniir.Unsupported as e:
                if strict:
                    raise
                obs["fn"][nm][key] = None
                obs["unsupported"] = str(e)

    def isolated() -> bool:
        obs["foreign"] = foreign_uses(m)
        return not obs["foreign"]

    try:
        with cpu_guard(case.get("cpu_s", 8.0)):
            obs["stage"] = "create"
            EqsatCreateEclassesPass().apply(ctx, m)
            if not isolated():
                return obs
            m.verify()
            texts("s1", strict=True)
            if case.get("rules"):
                obs["stage"] = "convert"
                rm, missing = build_rules(case["rules"])
                obs["missing_checks"] = missing
                obs["stage"] = "saturate"
                apply_eqsat_pdl_interp(m, ctx, rm, case.get("iters", 3))
                if not isolated():
                    return obs
                m.verify()
            obs["stage"] = "costs"
            if "main" in names:
                body = [o for o in main_block(m).ops if o.results and not is_class(o)]
                for k, c in case.get("presets") or []:
                    if k < len(body):
                        body[k].attributes["eqsat_cost"] = IntAttr(c)
            texts("s2")
            if case.get("costs"):
                f = tempfile.NamedTemporaryFile("w", suffix=".json", delete=False)
                json.dump(case["costs"], f)
                f.close()
                try:
                    EqsatAddCostsPass(cost_file=f.name, default=case.get("default")).apply(ctx, m)
                finally:
                    os.unlink(f.name)
            else:
                EqsatAddCostsPass(default=case.get("default")).apply(ctx, m)
            m.verify()
            for nm in names:
                obs["fn"][nm]["s3"] = None
            if all(obs["fn"][nm]["s2"] is not None for nm in names):
                texts("s3")
            obs["stage"] = "extract"
            before = {nm: [id(o) for o in main_block(m, nm).ops] for nm in names}
            EqsatExtractPass().apply(ctx, m)
            if not isolated():
                return obs
            m.verify()
            obs["stage"] = "done"
    except Exception as e:  # noqa: BLE001
        obs["exception"] = f"{obs['stage']}:{core.exc_name(e)}:{str(e)[:70]}"
        return obs
    obs["out_text"] = str(m)
    obs["leftover"] = any(is_class(o) for o in m.walk())
    # did extraction have to re-order a block?  (survivors no longer in their relative order)
    obs["reordered"] = []
    for nm in names:
        after = [id(o) for o in main_block(m, nm).ops]
        keep = set(after)
        if [i for i in before[nm] if i in keep] != after:
            obs["reordered"].append(nm)
    texts("s4")
    if not obs["leftover"]:
        try:
            obs["out_sexp"] = miniir.serialize(m)
        except miniir.Unsupported as e:
            obs["unsupported"] = str(e)
    return obs


# ------------------------------------------------------------------------------------------------
# generators
# ------------------------------------------------------------------------------------------------

COMM_OPS = ("addi", "muli", "andi", "ori", "xori")


def func_text(name: str, T: str, args: list[str], lines: list[str], rets: list[str]) -> str:
    sig = ", ".join(f"{a}: {T}" for a in args)
    return (f"func.func @{name}(" + sig + ") -> (" + ", ".join([T] * len(rets)) + ") {\n" + "".join(l + "\n" for l in lines)
            + "  func.return " + ", ".join(rets) + " : " + ", ".join([T] * len(rets)) + "\n}\n")


def module_text(funcs: list[str]) -> str:
    return "builtin.module {\n" + "".join(funcs) + "}\n"


def split_functions(text: str) -> tuple[str, list[tuple[str, str]], str] | None:
    """(header, [(name, chunk)], footer) of a generated module text (functions are `func.func @n(…) … {` … `}` at
    column 0); None when the text does not have that shape"""
    lines = text.split("\n")
    if not lines or not lines[0].startswith("builtin.module"):
        return None
    chunks: list[tuple[str, str]] = []
    i = 1
    while i < len(lines) and lines[i].startswith("func.func @"):
        j = i
        while j < len(lines) and lines[j] != "}":
            j += 1
        if j >= len(lines):
            return None
        name = lines[i][len("func.func @"):].split("(")[0]
        chunks.append((name, "\n".join(lines[i:j + 1]) + "\n"))
        i = j + 1
    footer = "\n".join(lines[i:])
    if footer.strip() != "}":
        return None
    return lines[0] + "\n", chunks, footer


def gen_dense(rng: Any, T: str | None = None, name: str = "main", mirror: bool = False) -> dict[str, Any]:
    """single-type integer expression DAG biased towards the left-hand sides of the rule library.
    `mirror`: some operations are stated again LATER in the block in the form a library rule produces from them
    (operands swapped; x*2 as x<<1 and back; x+x as x*2; (x∘y)∘z as x∘(y∘z); x*y+x*z as x*(y+z)), so that the
    rewriter finds the operation it is about to create already present behind the matched root (hash-cons reuse
    of a later operation) and extraction has to re-order the block; the rules concerned are returned as `must_rules`"""
    T = T or rng.choice(INT_TYPES)
    w = proggen.width(T)
    nargs = rng.randint(1, 3)
    args = [f"%a{i}" for i in range(nargs)]
    pool = list(args)
    lines: list[str] = []
    n = [0]

    def fresh(p: str = "v") -> str:
        n[0] += 1
        return f"%{p}{n[0]}"

    consts: dict[int, str] = {}

    def const(v: int, reuse: float = 0.7) -> str:
        if v in consts and rng.random() < reuse:
            return consts[v]
        c = fresh("c")
        lines.append(f"  {c} = arith.constant {v} : {T}")
        consts[v] = c
        return c

    def operand() -> str:
        r = rng.random()
        if r < 0.7:
            return rng.choice(pool)
        if r < 0.93:
            return const(rng.choice([0, 1, 2, -1, 0, 1, 2, 3]))
        return const(rng.randint(-(1 << (w - 1)), (1 << (w - 1)) - 1))

    ops = (["addi"] * 4 + ["muli"] * 4 + ["subi"] * 2 + ["andi", "ori", "xori"] * 2
           + ["shli", "shrui", "shrsi", "divui", "divsi", "remui", "minsi", "maxui"])
    if mirror:
        ops = ["addi"] * 5 + ["muli"] * 5 + ["andi", "ori", "xori", "subi", "shli"]
    exprs: list[tuple[str, str, str]] = []
    defs: dict[str, tuple[str, str, str]] = {}

    def emit(op: str, a: str, b: str) -> str:
        v = fresh()
        lines.append(f"  {v} = arith.{op} {a}, {b} : {T}")
        pool.append(v)
        exprs.append((op, a, b))
        defs[v] = (op, a, b)
        return v

    for _ in range(rng.randint(2, 7 if mirror else 9)):
        op = rng.choice(ops)
        if exprs and rng.random() < 0.15:
            op, a, b = rng.choice(exprs)
            a, b = b, a
        else:
            a, b = operand(), operand()
            if rng.random() < 0.12:
                b = a
            if mirror and op == "muli" and rng.random() < 0.4:
                b = const(2)
            if mirror and op in ("addi", "muli") and rng.random() < 0.35 and any(d[0] == op for d in defs.values()):
                a = rng.choice([v for v, d in defs.items() if d[0] == op])       # (x∘y)∘z
            if op in ("shli", "shrui", "shrsi") and rng.random() < 0.85:
                b = const(rng.choice([0, 1, 1, 2, w - 1]))
            if op in ("divui", "divsi", "remui") and rng.random() < 0.7:
                b = const(rng.choice([1, 2, 3, -1]))
        emit(op, a, b)
    must: list[str] = []
    prefer: list[tuple[str, str]] = []
    live: list[str] = []
    if mirror:
        isconst = lambda v, k: consts.get(k) == v or any(l.startswith(f"  {v} = arith.constant {k} :") for l in lines)
        for _ in range(rng.randint(1, 4)):
            v = rng.choice([x for x in pool if x in defs])
            op, a, b = defs[v]
            cands: list[tuple[str, Any, tuple[str, str] | None]] = []   # rule, builder, (cheaper op, dearer op)
            if op in COMM_OPS and a != b:
                cands.append(("comm_" + op, lambda: emit(op, b, a), None))
            if op == "muli" and isconst(b, 2) and w > 2:
                cands.append(("mul2shl", lambda: emit("shli", a, const(1, 0.5)), ("shli", "muli")))
            if op == "shli" and isconst(b, 1) and w > 2:
                cands.append(("shl1mul", lambda: emit("muli", a, const(2, 0.5)), ("muli", "shli")))
            if op == "addi" and a == b and w > 2:
                cands.append(("addxx", lambda: emit("muli", a, const(2, 0.5)), ("muli", "addi")))
            if op in ("addi", "muli") and defs.get(a, ("",))[0] == op:
                x, y = defs[a][1], defs[a][2]
                cands.append(("assoc_" + op, lambda: emit(op, x, emit(op, y, b)), None))
            if op == "addi" and defs.get(a, ("",))[0] == "muli" and defs.get(b, ("",))[0] == "muli" and defs[a][1] == defs[b][1]:
                x, y, z = defs[a][1], defs[a][2], defs[b][2]
                cands.append(("distrib", lambda: emit("muli", x, emit("addi", y, z)), None))
            if cands:
                rule, make, pref = rng.choice(cands)
                if rng.random() < 0.8:      # a live user of the original form IN FRONT OF the re-stated form
                    live.append(emit(rng.choice(["addi", "xori", "subi", "ori"]), v, rng.choice(pool)))
                make()
                if rule not in must:
                    must.append(rule)
                if pref and pref[::-1] not in prefer:
                    prefer.append(pref)
    if rng.random() < 0.3:   # a late constant that a rewrite may want to reuse
        const(rng.choice([0, 1, 2]))
    nret = rng.randint(1, 2)
    rets = [rng.choice(pool[nargs:] or pool) if rng.random() < 0.8 else rng.choice(pool) for _ in range(nret)]
    if rng.random() < 0.6:
        rets[0] = pool[-1]
    if live and rng.random() < 0.9:
        rets = rng.sample(live, min(len(live), rng.randint(1, 2))) + ([rng.choice(pool)] if rng.random() < 0.3 else [])
    out = {"func": func_text(name, T, args, lines, rets), "arg_types": [T] * nargs, "T": T}
    if must:
        out["must_rules"] = [[T, r] for r in must]
        out["prefer"] = prefer
    return out


def gen_multisite(rng: Any, T: str | None = None, name: str = "main") -> dict[str, Any]:
    """the same redex `v op v` of a constant-creating rule at several sites, the operands also used
    elsewhere, and the created constant absent from the function (e.g. `(x-x) + x*y + (y-y)`)"""
    T = T or rng.choice(INT_TYPES)
    rule = rng.choice(sorted(c28_rules.CREATES_CONSTANT))
    op, created = c28_rules.CREATES_CONSTANT[rule]
    nargs = rng.randint(1, 3)
    args = [f"%a{i}" for i in range(nargs)]
    lines: list[str] = []
    n = [0]

    def fresh(p: str = "v") -> str:
        n[0] += 1
        return f"%{p}{n[0]}"

    def emit(o: str, a: str, b: str) -> str:
        v = fresh()
        lines.append(f"  {v} = arith.{o} {a}, {b} : {T}")
        return v

    pool = list(args)
    others = ["muli", "addi", "andi", "ori", "xori", "subi", "maxui"]
    for _ in range(rng.randint(0, 2)):       # derived operands
        pool.append(emit(rng.choice(others), rng.choice(pool), rng.choice(pool)))
    if rng.random() < 0.4:                   # a constant different from the one the rule creates
        c = fresh("c")
        lines.append(f"  {c} = arith.constant {rng.choice([v for v in (3, 5, 7, -1, -2) if v != created])} : {T}")
        pool.append(c)
    nsites = rng.randint(2, 4)
    bases = [rng.choice(pool) for _ in range(nsites)] if rng.random() < 0.3 else (rng.sample(pool, min(nsites, len(pool))) * 2)[:nsites]
    terms = [emit(op, b, b) for b in bases]
    for _ in range(rng.randint(1, 3)):       # other uses of the operands
        terms.append(emit(rng.choice(others), rng.choice(pool), rng.choice(pool)))
    rng.shuffle(terms)
    acc = terms[0]
    for t in terms[1:]:
        acc = emit(rng.choice(["addi", "addi", "ori", "xori", "muli"]), acc, t)
    rets = [acc] + ([rng.choice(terms)] if rng.random() < 0.3 else [])
    return {"func": func_text(name, T, args, lines, rets), "arg_types": [T] * nargs, "T": T, "must_rules": [[T, rule]]}


def gen_constuser(rng: Any, T: str, name: str) -> dict[str, Any]:
    """a small function built around the constants that library rules CREATE (0, 1, 2): in a module it is the
    structurally identical twin, in ANOTHER function, of an operation a rewrite is about to build"""
    nargs = rng.randint(1, 2)
    args = [f"%a{i}" for i in range(nargs)]
    lines: list[str] = []
    pool = list(args)
    k = 0
    for v in rng.sample([0, 1, 2], rng.randint(1, 3)):
        k += 1
        lines.append(f"  %c{k} = arith.constant {v} : {T}")
        c = f"%c{k}"
        k += 1
        lines.append(f"  %v{k} = arith.{rng.choice(['addi', 'subi', 'muli', 'xori', 'ori', 'shli'])} "
                     + (f"{rng.choice(pool)}, {c}" if rng.random() < 0.7 else f"{c}, {rng.choice(pool)}") + f" : {T}")
        pool.append(f"%v{k}")
    rets = [pool[-1]] + ([rng.choice(pool)] if rng.random() < 0.3 else [])
    return {"func": func_text(name, T, args, lines, rets), "arg_types": [T] * nargs, "T": T}


def pure_config() -> Any:
    cfg = proggen.Config(scf_if=False, scf_for=False, cf=False, calls=False, externs=False, select=True)
    cfg.int_ops = list(proggen.INT_OPS_ALL)
    cfg.float_ops = list(proggen.FLOAT_OPS_ALL)
    cfg.casts = ["index_cast", "extsi", "extui", "trunci"]
    cfg.max_stmts = 12
    return cfg


def gen_case(ctx: core.Ctx, g: Any, leg: str) -> dict[str, Any]:
    rng = ctx.rng
    r = rng.random()
    must: list[list[str]] = []
    if leg == "rules" and r < 0.2:
        f = gen_multisite(rng)
        kind = "multisite"
    elif leg == "rules" and r < 0.44:
        f = gen_dense(rng, mirror=True)
        kind = "mirror"
    elif rng.random() < (0.6 if leg == "rules" else 0.4):
        f = gen_dense(rng)
        kind = "dense"
    else:
        f = None
        kind = "proggen"
    if f is not None:
        funcs = [("main", f["func"])]
        sigs = {"main": f["arg_types"]}
        types = [f["T"]]
        must = f.get("must_rules", [])
    else:
        p = g.program()
        parts = split_functions(p["text"])
        funcs = parts[1] if parts else []
        sigs = {"main": p["arg_types"]}
        types = [t for t in INT_TYPES + ["f32", "f64"] if f": {t}" in p["text"]] or ["i32"]
    # a module of several functions: the e-graph state of the rewriter (hash-cons table, union-find, worklist) is
    # shared by the whole module, the functions are not
    if funcs and rng.random() < (0.3 if leg == "rules" else 0.15):
        T = rng.choice([t for t in types if t in INT_TYPES] or ["i32"])
        for i in range(rng.randint(1, 2)):
            nm = f"f{i + 1}"
            q = rng.random()
            e = (gen_constuser(rng, T, nm) if q < 0.4 else gen_dense(rng, T, nm) if q < 0.8 or leg != "rules"
                 else gen_multisite(rng, T, nm))
            funcs.insert(rng.randint(0, len(funcs)), (nm, e["func"]))
            sigs[nm] = e["arg_types"]
            if T not in types:
                types.append(T)
            if leg == "rules" and e.get("must_rules") and rng.random() < 0.5:
                must = must + [x for x in e["must_rules"] if x not in must]
        kind += "+multi"
    case: dict[str, Any] = {"program": module_text([t for _, t in funcs]) if funcs else p["text"],
                            "arg_types": sigs["main"], "funcs": sigs, "types": types, "gen": kind}
    case["leg"] = leg
    case["cpu_s"] = 3.0 if ctx.tier == "quick" else 8.0
    case["default"] = rng.choice([1, 1, 1, 1, 0, 3])
    case["costs"] = ({"arith." + k: rng.choice([0, 1, 1, 2, 3, 5, 10]) for k in
                      ["addi", "muli", "subi", "andi", "ori", "xori", "shli", "constant", "divui", "addf", "mulf"]}
                     if rng.random() < 0.5 else None)
    case["presets"] = ([[k, rng.choice([0, 1, 2, 3, 7, 20])] for k in range(40) if rng.random() < 0.4]
                       if rng.random() < (0.5 if kind.startswith("mirror") else 0.35) else [])
    if kind.startswith("mirror") and f.get("prefer") and rng.random() < 0.7:
        # make the re-stated (later) form the cheaper one, so that extraction picks an operation that sits behind
        # users of its class
        case["costs"] = case["costs"] or {}
        for cheap, dear in f["prefer"]:
            case["costs"]["arith." + cheap] = rng.choice([0, 1, 1])
            case["costs"]["arith." + dear] = rng.choice([3, 5, 10])
    if leg == "rules":
        types = case["types"] if rng.random() < 0.97 else rng.sample(INT_TYPES, 2)   # 2 types: pdl_interp.switch_type
        T = [rng.choice(types)] if len(types) == 1 or rng.random() < 0.98 else types[:2]
        if must and rng.random() < 0.9:
            T = [must[0][0]]
        rules: list[list[str]] = []
        for t in T:
            R = sorted(c28_rules.rules_for(t))
            # prefer rules whose root operation occurs in the program (so that they can fire)
            rel = [nm for nm in R if f"arith.{RULE_ROOT[nm]} " in case["program"]]
            k = rng.randint(1, min(len(R), 10 if len(T) == 1 else 4))
            pick = rng.sample(rel, min(len(rel), k)) if rng.random() < 0.8 else []
            pick += [nm for nm in rng.sample(R, k) if nm not in pick][: max(0, k - len(pick))]
            rules += [[t, nm] for nm in pick]
        must = [x for x in must if x[1] in c28_rules.rules_for(x[0])]
        if must:
            extra = [r for r in rules if r not in must][: rng.choice([0, 0, 1, 2, 4])]
            rules = must + extra
            rng.shuffle(rules)
        case["rules"] = rules
        case["iters"] = rng.choice([1, 2, 3, 3, 5, 8])
    else:
        case["rules"] = []
    return case


RULE_ROOT = {
    "add0": "addi", "sub0": "subi", "or0": "ori", "xor0": "xori", "shl0": "shli", "and_m1": "andi", "mul0": "muli",
    "and0": "andi", "subxx": "subi", "xorxx": "xori", "andxx": "andi", "orxx": "ori", "comm_addi": "addi",
    "comm_muli": "muli", "comm_andi": "andi", "comm_ori": "ori", "comm_xori": "xori", "mul1": "muli", "divui1": "divui",
    "mul2shl": "muli", "shl1mul": "shli", "addxx": "addi", "divuixx": "divui", "assoc_addi": "addi",
    "assoc_muli": "muli", "distrib": "addi", "comm_addf": "addf", "comm_mulf": "mulf", "comm_minimumf": "minimumf",
    "comm_maximumf": "maximumf", "mulf1": "mulf", "minxx": "minimumf", "maxxx": "maximumf",
    "divsixx": "divsi", "remuixx": "remui", "remsixx": "remsi",
}

REGRESSION_CASES: list[dict[str, Any]] = [
    {   # minimal input of the (fixed) defect: `pdl.attribute = 0 : T` lost its check, `x * c -> c` for every c
        "program": "builtin.module {\nfunc.func @main(%a0: i32) -> (i32) {\n  %c1 = arith.constant 2 : i32\n"
                   "  %v2 = arith.muli %a0, %c1 : i32\n  func.return %v2 : i32\n}\n}\n",
        "arg_types": ["i32"], "types": ["i32"], "leg": "rules", "gen": "regression", "default": 1, "costs": None,
        "presets": [], "rules": [["i32", "mul0"]], "iters": 3},
    {   # minimal input of the (fixed) defect: a rewrite reuses a constant defined later in the block
        "program": "builtin.module {\nfunc.func @main(%a0: i32) -> (i32, i32) {\n  %v1 = arith.addi %a0, %a0 : i32\n"
                   "  %c2 = arith.constant 2 : i32\n  func.return %v1, %c2 : i32, i32\n}\n}\n",
        "arg_types": ["i32"], "types": ["i32"], "leg": "rules", "gen": "regression", "default": 1,
        "costs": {"arith.addi": 5, "arith.muli": 1}, "presets": [], "rules": [["i32", "addxx"]], "iters": 3},
    {   # `x - x -> 0` at two sites, no 0 in the function: two merges into one fresh constant class
        "program": "builtin.module {\nfunc.func @main(%a0: i32, %a1: i32) -> (i32) {\n  %v1 = arith.subi %a0, %a0 : i32\n"
                   "  %v2 = arith.subi %a1, %a1 : i32\n  %v3 = arith.muli %a0, %a1 : i32\n  %v4 = arith.addi %v1, %v3 : i32\n"
                   "  %v5 = arith.addi %v4, %v2 : i32\n  func.return %v5 : i32\n}\n}\n",
        "arg_types": ["i32", "i32"], "types": ["i32"], "leg": "rules", "gen": "regression", "default": 1, "costs": None,
        "presets": [], "rules": [["i32", "subxx"]], "iters": 3},
    {   # the identity project test of the corpus
        "program": "builtin.module {\nfunc.func @main(%x: index) -> (index) {\n  %c2 = arith.constant 2 : index\n"
                   "  %res = arith.muli %x, %c2 : index\n  func.return %res : index\n}\n}\n",
        "arg_types": ["index"], "types": ["index"], "leg": "norule", "gen": "regression", "default": 1, "costs": None,
        "presets": [], "rules": []},
    {   # two functions; `x - x -> 0` fires in @main while the only `0` of the module sits in @f1
        "program": "builtin.module {\nfunc.func @main(%a0: i32, %a1: i32) -> (i32) {\n  %v1 = arith.muli %a0, %a1 : i32\n"
                   "  %v2 = arith.subi %v1, %v1 : i32\n  %v3 = arith.addi %v2, %a1 : i32\n  func.return %v3 : i32\n}\n"
                   "func.func @f1(%a0: i32) -> (i32) {\n  %c1 = arith.constant 0 : i32\n  %v2 = arith.subi %c1, %a0 : i32\n"
                   "  func.return %v2 : i32\n}\n}\n",
        "arg_types": ["i32", "i32"], "funcs": {"main": ["i32", "i32"], "f1": ["i32"]}, "types": ["i32"], "leg": "rules",
        "gen": "regression", "default": 1, "costs": None, "presets": [], "rules": [["i32", "subxx"]], "iters": 3},
]


# ------------------------------------------------------------------------------------------------
# evaluation on the Lean reference semantics
# ------------------------------------------------------------------------------------------------

FUEL = 100000


def sem_lines(sexp: str, fname: str, arg_types: list[str], vecs: list[list[Any]]) -> list[str]:
    return ["prog " + sexp] + [f"run {FUEL} {fname} " + " ".join(miniir.arg_text(t, v) for t, v in zip(arg_types, vec))
                               for vec in vecs]


def compare_on_sem(ctx: Any, items: list[tuple[dict, dict, str, list[list[Any]]]]) -> list[tuple[dict, dict, str, list[Any], str, str]]:
    """items: (case, obs, function name, input vectors).  Returns the differing (case, obs, fname, vec, src_out, out_out)."""
    lines: list[str] = []
    index: list[tuple[int, str, int]] = []
    for i, (case, obs, fname, vecs) in enumerate(items):
        for which in ("src_sexp", "out_sexp"):
            ls = sem_lines(obs[which], fname, case_funcs(case)[fname], vecs)
            for j, l in enumerate(ls):
                lines.append(l)
                index.append((i, which, j - 1))
    outs = ctx.model("sem", lines) if lines else []
    res: dict[tuple[int, str, int], str] = {}
    for key, o in zip(index, outs):
        if key[2] < 0:
            if o != "ok":
                raise core.InfraError("MiniIR serialisation rejected by the Lean parser")
            continue
        res[key] = o
    bad = []
    for i, (case, obs, fname, vecs) in enumerate(items):
        for j, vec in enumerate(vecs):
            a, b = res[(i, "src_sexp", j)], res[(i, "out_sexp", j)]
            kind = a.split(" ")[0]
            ctx.count(f"{case['leg']}.source_run.{kind}")
            ctx.ev()
            if kind != "ok":
                continue   # ub / unsupported / fuel in the source: MLIR does not define the result
            ctx.disagreements_checked += 1
            if case["leg"] == "norule" or obs["fn"][fname].get("alternatives", 0) > 0:
                ctx.nt((case["leg"], case["program"], fname, json.dumps(case.get("rules")), json.dumps(case.get("costs")),
                        json.dumps(case.get("presets")), case.get("default"), tuple(map(repr, vec))))
            if a != b:
                bad.append((case, obs, fname, vec, a, b))
    return bad


def still_differs(ctx: core.Ctx, case: dict, fname: str, vec: list[Any]) -> bool:
    try:
        obs = run_pipeline(case)
    except Exception:  # noqa: BLE001
        return False
    if "out_sexp" not in obs or fname not in obs["fn"]:
        return False
    try:
        return bool(compare_on_sem(_Quiet(ctx), [(case, obs, fname, [vec])]))
    except core.InfraError:
        return False


class _Quiet:
    """context proxy for shrinking: uses the driver, records nothing"""

    def __init__(self, ctx: core.Ctx):
        self._ctx = ctx
        self.disagreements_checked = 0

    def model(self, name: str, lines: list[str]) -> list[str]:
        return self._ctx.model(name, lines)

    def count(self, *a: Any) -> None:
        pass

    def ev(self, *a: Any) -> None:
        pass

    def nt(self, *a: Any) -> None:
        pass


def shrink_generic(ctx: core.Ctx, case: dict, pred: Any, budget: int = 60, keep_fn: str | None = None) -> dict:
    """greedy shrinking of a pipeline case over rules, cost settings, whole functions and statements; `pred(case)`
    says whether the candidate still shows the failure"""
    case = dict(case)
    left = [budget]

    def fails(c: dict) -> bool:
        if left[0] <= 0:
            return False
        left[0] -= 1
        try:
            return bool(pred(c))
        except Exception:  # noqa: BLE001
            return False

    if ctx.time_left() <= 30:
        return case
    if len(case.get("rules") or []) > 1:
        case["rules"] = core.shrink_list(case["rules"], lambda rs: fails({**case, "rules": rs}), max_steps=25)
    for k in ("presets", "costs"):
        if case.get(k) and fails({**case, k: [] if k == "presets" else None}):
            case[k] = [] if k == "presets" else None
    parts = split_functions(case["program"])
    if parts and len(parts[1]) > 1:
        head, chunks, foot = parts
        for nm, _ in list(chunks):
            if nm == keep_fn or len(chunks) == 1:
                continue
            rest = [c for c in chunks if c[0] != nm]
            cand = {**case, "program": head + "".join(t for _, t in rest) + foot,
                    "funcs": {k: v for k, v in case_funcs(case).items() if k != nm}}
            if "main" in cand["funcs"] or "main" not in case_funcs(case):
                if fails(cand):
                    case, chunks = cand, rest
    lines = case["program"].split("\n")
    body = [i for i, l in enumerate(lines) if " = arith." in l]
    for i in reversed(body):
        cand = "\n".join(l for j, l in enumerate(lines) if j != i)
        try:
            parse(mkctx(), cand)
        except Exception:  # noqa: BLE001
            continue
        if fails({**case, "program": cand}):
            lines = cand.split("\n")
            case["program"] = cand
    return case


def public_case(case: dict, vec: list[Any] | None = None, fname: str | None = None) -> dict:
    out = {k: case.get(k) for k in ("program", "arg_types", "rules", "iters", "default", "costs", "presets", "leg")}
    if len(case_funcs(case)) > 1 or "main" not in case_funcs(case):
        out["funcs"] = case_funcs(case)
    if vec is not None:
        out["args"] = [repr(v) for v in vec]
        if fname not in (None, "main"):
            out["function"] = fname
    return out


# ------------------------------------------------------------------------------------------------
# the two legs + stage-wise correspondence
# ------------------------------------------------------------------------------------------------

def classify_and_report(ctx: core.Ctx, case: dict, obs: dict, fname: str, vec: list[Any], a: str, b: str) -> None:
    small = shrink_generic(ctx, case, lambda c: still_differs(ctx, c, fname, vec), keep_fn=fname)
    sobs = run_pipeline(small)
    s4 = sobs["fn"].get(fname, {}).get("s4")
    if sobs.get("missing_checks"):
        ctx.fail(SITE_CONVERT, SIG_ATTR, public_case(small, vec, fname),
                 "convert-pdl-to-pdl-interp produced a matcher that never compares the constant attribute(s) "
                 f"{sobs['missing_checks']} the pattern matches on, so the rule fires for every constant; the "
                 "extracted program returns different results", b, a)
    elif s4 and not eg_ordered(s4):
        ctx.fail(SITE_EXTRACT, SIG_ORDER, public_case(small, vec, fname),
                 "eqsat-extract left an operation before the definition of one of its operands (the e-graph is not "
                 "kept in dominance order); the extracted function cannot be executed\n" + sobs.get("out_text", ""), b, a)
    elif case["leg"] == "norule":
        ctx.fail(SITE_EXTRACT, SIG_RESULT_NORULE, public_case(small, vec, fname),
                 "the no-rule round trip returned different results\n" + sobs.get("out_text", ""), b, a)
    else:
        ctx.fail(SITE_APPLY, SIG_RESULT_RULES, public_case(small, vec, fname),
                 "saturation with sound rules + extraction returned different results\n" + sobs.get("out_text", ""), b, a)


def report_foreign(ctx: core.Ctx, case: dict, obs: dict) -> None:
    """a function body refers to a value of another function (or of an erased operation): it cannot be executed"""
    stage = obs["stage"]
    if any(f.kind == "failing-input" and f.signature == SIG_FOREIGN for f in ctx.failures):
        return

    def same(c: dict) -> bool:
        o = run_pipeline(c)
        return bool(o.get("foreign")) and o["stage"] == stage

    small = shrink_generic(ctx, case, same, budget=50)
    sobs = run_pipeline(small)
    site = {"create": SITE_CREATE, "saturate": SITE_APPLY, "extract": SITE_EXTRACT}.get(stage, SITE_APPLY)
    ctx.fail(site, SIG_FOREIGN, public_case(small),
             f"after the `{stage}` stage an operation of one function uses a value that is not defined in that function "
             "(func.func is isolated from above): the function cannot be executed, so it does not return the results "
             "of the source", sobs.get("foreign") or obs.get("foreign"), [])


def exception_key(obs: dict) -> tuple[str, str] | None:
    if "exception" not in obs:
        return None
    stage, exc = obs["exception"].split(":")[:2]
    return stage, exc


def judge_exception(ctx: core.Ctx, case: dict, obs: dict) -> None:
    """a sound rule set made the pipeline raise on a module the no-rule pipeline handles: failing input"""
    key = exception_key(obs)
    if key is None or any(f.kind == "failing-input" and f.signature == sig_exception(*key) for f in ctx.failures):
        if key is not None:
            ctx.count("rules.exception_judged_again")
        return
    try:
        base = run_pipeline({**case, "rules": [], "leg": "norule"})
    except Exception:  # noqa: BLE001
        return
    if "exception" in base:
        return                      # not a valid input for the pipeline at all

    def same(c: dict) -> bool:
        if exception_key(run_pipeline(c)) != key:
            return False
        return "exception" not in run_pipeline({**c, "rules": [], "leg": "norule"})

    small = shrink_generic(ctx, case, same, budget=40)
    sobs = run_pipeline(small)
    ctx.fail(STAGE_SITE[key[0]], sig_exception(*key), public_case(small),
             "with a sound rule set the pipeline raises on a valid module (create-eclasses, add-costs and extract "
             "succeed on it without rules); the exception is not one of the documented unsupported cases "
             "(pdl_interp.switch_type across element types, CPU guard)",
             sobs.get("exception"), "no exception")


def single_function_cases(case: dict) -> list[dict]:
    """the functions of a multi-function case as modules of their own (same rules and costs)"""
    parts = split_functions(case["program"])
    if not parts or len(parts[1]) < 2:
        return []
    head, chunks, foot = parts
    return [{**case, "program": head + t + foot, "funcs": {nm: case_funcs(case)[nm]}, "arg_types": case_funcs(case)[nm],
             "gen": "split", "presets": case.get("presets") if nm == "main" else []} for nm, t in chunks]


def run_cases(ctx: core.Ctx, cases: list[dict], g: Any) -> None:
    items: list[tuple[dict, dict, str, list[list[Any]]]] = []
    corr: list[tuple[str, str, str, dict]] = []   # (model line, expected canonical text, stage, case)
    queue = list(cases)
    while queue:
        case = queue.pop(0)
        if ctx.time_left() < 25:
            break
        leg = case["leg"]
        try:
            obs = run_pipeline(case)
        except GeneratorReject as e:   # the generator produced something the parser / serialiser refuses
            ctx.count(f"{leg}.generator_rejected.{e}")
            continue
        names = obs["names"]
        multi = len(names) > 1
        ctx.programs += 1
        ctx.count(f"{leg}.programs.{case['gen']}")
        if multi:
            ctx.count(f"{leg}.modules_with_several_functions")
        if obs.get("missing_checks"):
            # direct oracle of the conversion the documented pipeline relies on
            ctx.fail(SITE_CONVERT, SIG_ATTR, public_case({**case, "presets": [], "costs": None}),
                     "convert-pdl-to-pdl-interp produced a matcher that never compares the constant attribute(s) "
                     f"{obs['missing_checks']} which the pattern matches on", obs["missing_checks"], [])
        if obs.get("foreign"):
            ctx.count(f"{leg}.foreign_value.{obs['stage']}")
            report_foreign(ctx, case, obs)
            continue
        if "exception" in obs:
            ctx.count(f"{leg}.pipeline_exception.{obs['exception']}")
            # the modelled stages are total in the model (create, costs) or raise exactly when an erase is
            # unsafe (extract): an exception there is compared with the model like any other observation
            stage = obs["stage"]
            dflt = case["default"] if case.get("default") is not None else "-"
            if not multi:
                F = obs["fn"][names[0]]
                if stage == "create":
                    corr.append(("create " + F["s0"], "raise", "create", case))
                elif stage == "costs" and F.get("s2"):
                    corr.append((f"costs {dflt} {dict_token(case.get('costs'))} " + F["s2"], "raise", "costs", case))
                elif stage == "extract" and F.get("s3"):
                    corr.append(("extract " + F["s3"], "raise", "extract", case))
            elif leg == "norule" and case["gen"] != "split" and not any(u in obs["exception"] for u in UNSUPPORTED_EXC):
                # which function is it?  every function goes through the pipeline (and the model) alone; when none
                # of them raises, it is the module of several functions that the no-rule pipeline cannot handle
                singles = single_function_cases(case)
                alone = []
                for c in singles:
                    try:
                        alone.append("exception" in run_pipeline(c))
                    except GeneratorReject:
                        alone.append(True)
                if singles and not any(alone):
                    key = exception_key(obs)
                    ctx.fail(STAGE_SITE.get(key[0], SITE_CREATE),
                             f"{key[0]} raises {key[1]} on a module of several functions without rules (every function alone passes)",
                             public_case(case), "the no-rule pipeline raises on a valid module", obs["exception"], "no exception")
                else:
                    queue = singles + queue
            if leg == "rules" and stage in STAGE_SITE and not any(u in obs["exception"] for u in UNSUPPORTED_EXC):
                judge_exception(ctx, case, obs)
            continue
        # ---- structure
        for nm in names:
            F = obs["fn"][nm]
            if F.get("s2"):
                _, nodes, _ = parse_eg(F["s2"])
                F["alternatives"] = sum(len(n) - 4 for n in nodes if n[0] == "c" and len(n) > 4)
                ctx.count(f"{leg}.saturated_classes_with_alternatives", sum(1 for n in nodes if n[0] == "c" and len(n) > 4))
        if obs["reordered"]:
            ctx.count(f"{leg}.extraction_reordered_a_block", len(obs["reordered"]))
        if obs["leftover"]:
            ctx.count(f"{leg}.leftover_class")
            uncosted = any(obs["fn"][nm].get("s3") is None or any(n[0] == "o" and n[4] == "-" for n in parse_eg(obs["fn"][nm]["s3"])[1])
                           for nm in names)
            if not uncosted:
                ctx.fail(SITE_COSTS, SIG_LEFTOVER, public_case(case),
                         "every operation has an eqsat_cost but an e-class kept no min_cost_index / was not extracted\n"
                         + obs["out_text"], {nm: obs["fn"][nm]["s3"] for nm in names}, None)
            continue
        for nm in names:
            F = obs["fn"][nm]
            s0, s1, s2, s3, s4 = F["s0"], F.get("s1"), F.get("s2"), F.get("s3"), F.get("s4")
            # (an output that is not in def-before-use order is reported through the result comparison below
            #  — source not ub — with a shrunk case)
            if leg == "norule" and s4 is not None:
                want = eg_dce(s0)
                if canon(s4) != want:
                    ctx.fail(SITE_EXTRACT, SIG_DROPPED, public_case(case),
                             f"the no-rule round trip of @{nm} is not the source minus dead code", canon(s4), want)
            # ---- correspondence with the Lean model, stage by stage (inputs are the real stage inputs)
            corr.append(("create " + s0, canon(s1), "create", case))
            if s2 and s3:
                corr.append((f"costs {case['default'] if case.get('default') is not None else '-'} {dict_token(case.get('costs'))} " + s2,
                             canon(s3), "costs", case))
                if s4 is not None:
                    corr.append(("extract " + s3, canon(s4), "extract", case))
            if leg == "norule" and s4 is not None and not (case.get("presets") and nm == "main"):
                corr.append((f"norule {case['default']} {dict_token(case.get('costs'))} " + s0, canon(s4), "norule", case))
        if "out_sexp" in obs:
            for nm in names:
                items.append((case, obs, nm, g.inputs(case_funcs(case)[nm], 5 if ctx.tier == "thorough" else 4 if not multi else 3)))
        else:
            ctx.count(f"{leg}.unsupported_output")
    # ---- results on the reference semantics
    bad = compare_on_sem(ctx, items)
    seen: set[str] = set()
    for case, obs, fname, vec, a, b in bad:
        ctx.count(f"{case['leg']}.result_differs")
        key = case["program"] + json.dumps(case.get("rules"))
        if key in seen or len(seen) >= 6:
            continue
        seen.add(key)
        classify_and_report(ctx, case, obs, fname, vec, a, b)
    # ---- model
    if corr:
        outs = ctx.model("egraph", [c[0] for c in corr])
        for (line, want, stage, case), out in zip(corr, outs):
            ctx.count(f"correspondence.{stage}")
            ctx.ev()
            if canon(out) != want:
                ctx.count(f"correspondence.{stage}.differs")
                ctx.mismatch(f"correspondence:C28/egraph.{stage}", {"line": line, "case": public_case(case)}, want, canon(out),
                             f"real {stage} output differs from the Lean model on the same stage input")


# ------------------------------------------------------------------------------------------------
# restore_dominance_order (the re-ordering that ends eqsat-extract) on blocks of its own
# ------------------------------------------------------------------------------------------------
# A block is `{"nargs": k, "ops": [[id, …], …], "nested": {"j": [id, …]}}`: the operations in BLOCK order with their
# operand ids (`< k`: block argument, `k + j`: the result of the operation at position j — wherever that is), and
# for some operations the ids used by an operation nested in a region of theirs.

def reorder_deps(spec: dict, j: int) -> list[int]:
    """positions of the operations `_dependencies` returns for the op at position j (walk order, duplicates kept)"""
    k = spec["nargs"]
    return [i - k for i in list(spec["ops"][j]) + list((spec.get("nested") or {}).get(str(j), [])) if i >= k and i - k != j]


def reorder_acyclic(spec: dict) -> bool:
    n = len(spec["ops"])
    state = [0] * n

    def visit(j: int) -> bool:
        if state[j] == 1:
            return False
        if state[j] == 2:
            return True
        state[j] = 1
        ok = all(visit(d) for d in reorder_deps(spec, j))
        state[j] = 2
        return ok

    return all(visit(j) for j in range(n))


def reorder_real(spec: dict) -> list[int] | str:
    """build the block from real operations, run the real `restore_dominance_order`, return the new order as
    original positions (−1: an operation that was not in the block)"""
    from xdsl.dialects import arith, test
    from xdsl.dialects.builtin import i32
    from xdsl.ir import Block, Region
    from xdsl.transforms.eqsat_extract import restore_dominance_order

    k, ops, nested = spec["nargs"], spec["ops"], spec.get("nested") or {}
    blk = Block(arg_types=[i32] * max(k, 1))
    ph = blk.args[0]
    made: list[Any] = []
    for j, a in enumerate(ops):
        if str(j) in nested:
            inner = test.TestOp([ph] * len(nested[str(j)]), [i32])
            made.append(test.TestOp([ph] * len(a), [i32], regions=[Region(Block([inner]))]))
        elif len(a) == 2:
            made.append((arith.AddiOp, arith.MuliOp, arith.SubiOp)[j % 3](ph, ph))
        else:
            made.append(test.TestOp([ph] * len(a), [i32]))
    val = lambda i: blk.args[i] if i < k else made[i - k].results[0]
    for j, a in enumerate(ops):
        made[j].operands = [val(i) for i in a]
        if str(j) in nested:
            made[j].regions[0].block.first_op.operands = [val(i) for i in nested[str(j)]]
    blk.add_ops(made)
    try:
        restore_dominance_order(blk)
    except Exception as e:  # noqa: BLE001
        return core.exc_name(e)
    pos = {id(o): j for j, o in enumerate(made)}
    return [pos.get(id(o), -1) for o in blk.ops]


def reorder_line(spec: dict) -> str:
    k = spec["nargs"]
    parts = [str(k)]
    for j, a in enumerate(spec["ops"]):
        ids = list(a) + list((spec.get("nested") or {}).get(str(j), []))
        parts.append(" ".join(["o", str(k + j), "test.op", "k", "-"] + [str(i) for i in ids]))
    parts.append("r")
    return "extract " + " ; ".join(parts)


def reorder_model_order(spec: dict, out: str) -> list[int] | str:
    if out in ("raise", "bad-op"):
        return out
    return [int(n[1]) - spec["nargs"] for n in parse_eg(out)[1]]


def reorder_judge(spec: dict, got: list[int] | str) -> tuple[str, str] | None:
    """direct oracle: (signature, description) or None"""
    n = len(spec["ops"])
    if isinstance(got, str):
        return ("restore_dominance_order raises " + got, "the re-ordering raised on a block")
    if sorted(got) != list(range(n)):
        return (SIG_REORDER_PERM, "operations were lost, duplicated or added by the re-ordering")
    if reorder_acyclic(spec):
        pos = {j: p for p, j in enumerate(got)}
        for j in range(n):
            for d in reorder_deps(spec, j):
                if pos[d] >= pos[j]:
                    return (SIG_REORDER_ORDER,
                            f"the operation at original position {j} ends up at {pos[j]}, before the operation (original "
                            f"position {d}, now {pos[d]}) that defines one of its operands; the dependency graph is acyclic")
    return None


def reorder_enum(n: int, ordered_pairs: bool) -> Any:
    """every DAG on n binary operations (operands: the block argument or an earlier node of a topological numbering;
    as ordered pairs or as multisets) in every placement in the block"""
    import itertools

    def pairs(t: int) -> list[tuple[int, int]]:
        rng_ = range(-1, t)
        return [(x, y) for x in rng_ for y in rng_ if ordered_pairs or x <= y]

    for dag in itertools.product(*[pairs(t) for t in range(n)]):
        for perm in itertools.permutations(range(n)):      # perm[t] = position of topological node t
            ops: list[list[int]] = [[] for _ in range(n)]
            for t in range(n):
                ops[perm[t]] = [0 if x < 0 else 1 + perm[x] for x in dag[t]]
            yield {"nargs": 1, "ops": ops}


def reorder_random(rng: Any) -> dict:
    """random DAG (0–3 operands per operation, some nested uses) laid out by one of several disorder shapes: full
    shuffle, a few operations hoisted in front of earlier ones / sunk, reversal, rotation; a small share is cyclic"""
    n = rng.randint(3, 12)
    k = rng.randint(1, 3)
    dag: list[list[int]] = []
    nested: dict[int, list[int]] = {}
    chainy = rng.random() < 0.4
    for t in range(n):
        m = rng.choice([0, 1, 2, 2, 2, 3])
        src = lambda: (-1 - rng.randrange(k)) if t == 0 or rng.random() < (0.15 if chainy else 0.4) else (
            t - 1 - min(t - 1, int(rng.expovariate(0.8))) if chainy else rng.randrange(t))
        dag.append([src() for _ in range(m)])
        if rng.random() < 0.08:
            nested[t] = [src() for _ in range(rng.randint(1, 2))]
    shape = rng.choice(["shuffle", "hoist", "hoist", "hoist", "sink", "reverse", "rotate", "sorted"])
    order = list(range(n))                   # order[p] = topological node at position p
    if shape == "shuffle":
        rng.shuffle(order)
    elif shape in ("hoist", "sink"):
        for _ in range(rng.randint(1, 3)):
            a, b = sorted(rng.sample(range(n), 2))
            if shape == "hoist":
                order.insert(a, order.pop(b))
            else:
                order.insert(b, order.pop(a))
    elif shape == "reverse":
        order.reverse()
    elif shape == "rotate":
        r = rng.randrange(n)
        order = order[r:] + order[:r]
    perm = {t: p for p, t in enumerate(order)}
    conv = lambda x: (-1 - x) if x < 0 else k + perm[x]
    ops: list[list[int]] = [[] for _ in range(n)]
    for t in range(n):
        ops[perm[t]] = [conv(x) for x in dag[t]]
    spec: dict[str, Any] = {"nargs": k, "ops": ops}
    if nested:
        spec["nested"] = {str(perm[t]): [conv(x) for x in v] for t, v in nested.items()}
    if rng.random() < 0.06:                  # a back edge: cycles are left alone, nothing may be lost
        a, b = rng.sample(range(n), 2)
        spec["ops"][a] = list(spec["ops"][a]) + [k + b]
        spec["ops"][b] = list(spec["ops"][b]) + [k + a]
    return spec


def reorder_shrink(spec: dict, sig: str) -> dict:
    """drop operations (uses of a dropped result become uses of block argument 0) while the same oracle fails"""
    def drop(s: dict, j: int) -> dict:
        k = s["nargs"]
        f = lambda i: i if i < k else (0 if i - k == j else (i - 1 if i - k > j else i))
        out: dict[str, Any] = {"nargs": k, "ops": [[f(i) for i in a] for p, a in enumerate(s["ops"]) if p != j]}
        ne = {str(int(p) - (1 if int(p) > j else 0)): [f(i) for i in v] for p, v in (s.get("nested") or {}).items() if int(p) != j}
        if ne:
            out["nested"] = ne
        return out

    changed = True
    while changed and len(spec["ops"]) > 1:
        changed = False
        for j in reversed(range(len(spec["ops"]))):
            cand = drop(spec, j)
            v = reorder_judge(cand, reorder_real(cand))
            if v is not None and v[0] == sig:
                spec, changed = cand, True
                break
    return spec


def run_reorder(ctx: core.Ctx) -> None:
    """direct leg on `restore_dominance_order`: exhaustive small blocks + random larger ones; oracle (nothing lost,
    every definition before its uses when the dependencies are acyclic) and correspondence with the model's topoSort"""
    quick = ctx.tier == "quick"
    specs: list[dict] = []
    for n in (1, 2, 3, 4):
        specs.extend(reorder_enum(n, ordered_pairs=True))
    ctx.count("reorder.exhaustive_blocks_up_to_4_ops", len(specs))
    if not quick and ctx.time_left() > 400:
        before = len(specs)
        specs.extend(reorder_enum(5, ordered_pairs=False))
        ctx.count("reorder.exhaustive_blocks_5_ops_multiset_operands", len(specs) - before)
    nrand = 2500 if quick else 40000
    specs.extend(reorder_random(ctx.rng) for _ in range(nrand))
    ctx.count("reorder.random_blocks", nrand)
    lines: list[str] = []
    gots: list[Any] = []
    kept: list[dict] = []
    reported: set[str] = set()
    for spec in specs:
        if ctx.time_left() < 15:
            break
        got = reorder_real(spec)
        ctx.ev()
        acyclic = reorder_acyclic(spec)
        moved = not isinstance(got, str) and got != list(range(len(spec["ops"])))
        ctx.count("reorder.acyclic.reordered" if acyclic and moved else "reorder.acyclic.already_ordered" if acyclic else "reorder.cyclic")
        if moved:
            ctx.nt(("reorder", json.dumps(spec, sort_keys=True)))
        v = reorder_judge(spec, got)
        if v is not None and v[0] not in reported:
            reported.add(v[0])      # the enumeration is smallest-first; a random block is shrunk
            small = reorder_shrink(spec, v[0])
            sgot = reorder_real(small)
            sv = reorder_judge(small, sgot) or v
            ctx.fail(SITE_REORDER, sv[0], {"leg": "reorder", **small}, sv[1] + " — block: operations in block order with "
                     "operand ids (ids below nargs are block arguments, nargs+j is the result of the operation at position j)",
                     sgot, "a permutation of 0…n-1 in which every operation follows the operations defining its operands")
        lines.append(reorder_line(spec))
        gots.append(got)
        kept.append(spec)
    outs = ctx.model("egraph", lines) if lines else []
    ctx.count("correspondence.reorder", len(lines))
    for spec, got, line, out in zip(kept, gots, lines, outs):
        want = reorder_model_order(spec, out)
        if want != got:
            ctx.count("correspondence.reorder.differs")
            ctx.mismatch("correspondence:C28/egraph.topoSort", {"line": line, "case": {"leg": "reorder", **spec}}, got, want,
                         "real restore_dominance_order differs from the Lean model's topoSort on the same block")
            break
    if kept:
        ctx.sample({"reorder": next((s for s in kept[-50:] if s), kept[-1])})


def run_merges(ctx: core.Ctx, g: Any, n: int) -> None:
    """random eclass_union sequences on created e-graphs: real EqsatPDLInterpFunctions vs model"""
    from xdsl.dialects.builtin import ModuleOp
    from xdsl.interpreter import Interpreter
    from xdsl.interpreters.eqsat_pdl_interp import EqsatPDLInterpFunctions
    from xdsl.interpreters.pdl_interp import PDLInterpFunctions
    from xdsl.pattern_rewriter import PatternRewriter
    from xdsl.transforms.eqsat_create_eclasses import EqsatCreateEclassesPass

    from xdsl.dialects import arith, equivalence
    from xdsl.rewriter import Rewriter

    lines, wants, cases = [], [], []
    rng = ctx.rng
    for _ in range(n):
        program = module_text([gen_dense(rng)["func"]])
        case = {"program": program}
        xctx = mkctx()
        m = parse(xctx, case["program"])
        EqsatCreateEclassesPass().apply(xctx, m)
        blk = main_block(m)
        # turn the classes of the constants of ONE value into `equivalence.const_class` ops (what the rewriter
        # creates for a constant it builds); equal values only, so the two-constant assert cannot fire
        const_ops = [o for o in blk.ops if isinstance(o, arith.ConstantOp)]
        if const_ops and rng.random() < 0.75:
            val = rng.choice(const_ops).value
            for o in const_ops:
                if o.value == val:
                    old = next(iter(o.result.uses)).operation
                    Rewriter.replace_op(old, equivalence.ConstantClassOp(o.result))
        before = eg_text(m)
        classes = [o for o in blk.ops if is_class(o)]
        ids = {id(o): int(n[1]) for o, n in zip(classes, [n for n in parse_eg(before)[1] if n[0] == "c"])}
        consts = [o for o in classes if isinstance(o, equivalence.ConstantClassOp)]
        regular = [o for o in classes if not isinstance(o, equivalence.ConstantClassOp)]
        interp = Interpreter(ModuleOp([]))
        fns = EqsatPDLInterpFunctions()
        fns.populate_known_ops(m)
        pf = PDLInterpFunctions()
        PDLInterpFunctions.set_ctx(interp, xctx)
        rw = PatternRewriter(blk.first_op)
        rw.operation_modification_handler.append(fns.modification_handler)
        pf.set_rewriter(interp, rw)
        plan: list[tuple[Any, Any]] = []
        if consts and regular and rng.random() < 0.7:
            # a fresh constant class and a fresh regular class (equal size), in either argument order, then
            # further merges through the (possibly stale) handles of both
            k, r = rng.choice(consts), rng.choice(regular)
            plan.append((k, r) if rng.random() < 0.5 else (r, k))
            for _ in range(rng.randint(1, 4)):
                h = rng.choice([k, r, k, r, rng.choice(classes)])
                o = rng.choice(classes)
                plan.append((h, o) if rng.random() < 0.5 else (o, h))
        else:
            plan = [(rng.choice(classes), rng.choice(classes)) for _ in range(rng.randint(1, 6))]
        pairs, outs = [], []
        for a, b in plan:                      # stale (already replaced) handles included
            pairs.append(f"{ids[id(a)]}:{ids[id(b)]}")
            try:
                outs.append("true" if fns.eclass_union(interp, a, b) else "false")
            except Exception as e:  # noqa: BLE001
                outs.append(core.exc_name(e))
        # the model numbers ids of the *input* graph; the real graph after merging is re-serialised, so both
        # sides are compared in canonical numbering
        try:
            after = canon(eg_text(m))
        except Exception as e:  # noqa: BLE001  (dangling operands after a corrupted merge)
            after = "unserialisable:" + core.exc_name(e)
        ctok = ",".join(str(ids[id(o)]) for o in consts) or "-"
        lines.append("merge " + ",".join(pairs) + " " + ctok + " " + before)
        wants.append(",".join(outs) + " | " + after)
        cases.append({"program": case["program"], "pairs": pairs, "const_classes": ctok})
        ctx.ev()
        ctx.count("correspondence.merge.with_const_class" if consts else "correspondence.merge.plain")
        if "true" in outs:
            ctx.nt(("merge", case["program"], tuple(pairs), ctok))
    outs = ctx.model("egraph", lines)
    ctx.count("correspondence.merge", len(lines))
    for line, want, case, out in zip(lines, wants, cases, outs):
        head, _, prog = out.partition(" | ")
        got = head + " | " + canon(prog)
        if got != want:
            ctx.count("correspondence.merge.differs")
            ctx.mismatch("correspondence:C28/egraph.merge", {"line": line, "case": case}, want, got,
                         "real eclass_union sequence differs from the Lean model")
            break
    if lines:
        ctx.sample({"merge": cases[0], "model_line": lines[0][:300]})


def run(ctx: core.Ctx) -> None:
    ctx.lean()
    g = proggen.ProgGen(ctx.rng, pure_config())
    quick = ctx.tier == "quick"
    run_reorder(ctx)
    rounds = 1 if quick else 30
    per_round = (140, 160) if quick else (260, 340)
    for r in range(rounds):
        if ctx.time_left() < 40:
            break
        cases = list(REGRESSION_CASES) if r == 0 else []
        cases += [gen_case(ctx, g, "norule") for _ in range(per_round[0])]
        cases += [gen_case(ctx, g, "rules") for _ in range(per_round[1])]
        run_cases(ctx, cases, g)
        if r == 0:
            ctx.sample(public_case(cases[len(REGRESSION_CASES) + per_round[0]]))
            ctx.sample(public_case(cases[len(REGRESSION_CASES)]))
    run_merges(ctx, g, 80 if quick else 600)
    ctx.extra["pipelines"] = {
        "no_rule": "eqsat-create-eclasses, eqsat-add-costs{default[,cost_file]}, eqsat-extract",
        "rules": "PDL → convert-pdl-to-pdl-interp → convert-pdl-interp-to-eqsat-pdl-interp; eqsat-create-eclasses, "
                 "apply_eqsat_pdl_interp(max_iterations), eqsat-add-costs, eqsat-extract",
        "rule_library": sorted(c28_rules.rules_for("i32")) + sorted(c28_rules.rules_for("f32")),
    }


def replay(ctx: core.Ctx, body: dict) -> int:
    case = body["case"]
    if "line" in case:   # broken correspondence: model line + case
        print("model input :", case["line"][:2000])
        print("model output:", ctx.model("egraph", [case["line"]])[0][:2000])
        print("recorded real observation:", body.get("impl_observation"))
        return 0
    if case.get("leg") == "reorder":
        got = reorder_real(case)
        print("block (operations in block order, operand ids; ids <", case["nargs"], "are block arguments):", case["ops"],
              "nested uses:", case.get("nested") or {})
        print("restore_dominance_order → order of the original positions:", got)
        print("model topoSort                                           :", reorder_model_order(case, ctx.model("egraph", [reorder_line(case)])[0]))
        v = reorder_judge(case, got)
        print("oracle:", v[0] + " — " + v[1] if v else "ok")
        return 1 if v else 0
    case = {**case, "types": [], "gen": "replay"}
    obs = run_pipeline(case)
    fname = case.get("function", "main")
    print("source:\n" + case["program"])
    print("rules:", case.get("rules"), "iters:", case.get("iters"), "default:", case.get("default"), "costs:", case.get("costs"),
          "presets:", case.get("presets"))
    if obs.get("missing_checks"):
        print("constants matched by the patterns but never compared by the generated matcher:", obs["missing_checks"])
    if obs.get("foreign"):
        print(f"after stage `{obs['stage']}`:", "; ".join(obs["foreign"]))
        return 1
    if "exception" in obs:
        print("pipeline exception:", obs["exception"])
        return 0
    print("extracted:\n" + obs.get("out_text", ""))
    for nm in obs["names"]:
        if obs["fn"][nm].get("s4"):
            print(f"extracted @{nm} in def-before-use order:", eg_ordered(obs["fn"][nm]["s4"]))
    rc = 1 if obs.get("missing_checks") else 0
    if "out_sexp" in obs and case.get("args"):
        import ast
        vec = [ast.literal_eval(a) if a not in ("nan", "inf", "-inf") else float(a) for a in case["args"]]
        bad = compare_on_sem(_Quiet(ctx), [(case, obs, fname, [vec])])
        at = case_funcs(case)[fname]
        lines = ctx.model("sem", sem_lines(obs["src_sexp"], fname, at, [vec]) + sem_lines(obs["out_sexp"], fname, at, [vec]))
        print(f"reference semantics, source    @{fname}:", lines[1])
        print(f"reference semantics, extracted @{fname}:", lines[3])
        rc = 1 if bad else rc
    return rc
