"""C05 — custom forms that print EXPRESSIONS (affine maps spelled over SSA names).

`affine.load / store / vector_load / vector_store` print their access map as infix expressions over
the names of their index operands (`%m[(%i + %j) floordiv 4, %k * -3 + 5]`) with the minimal
parentheses; `affine.apply` prints the map attribute followed by its operands.  The text still
parses when an operator loses its parentheses or an SSA name is taken from the wrong operand
position — it just denotes another access.  The custom parser legitimately renames dimensions to
symbols, merges repeated names and drops unused operands (listed known findings about the *shape*
of the `map` property), so attribute equality cannot judge these operations.  This module holds

* `sem_check(original, reparsed)`: for every operation with an *affine binding* (a map property
  applied to operands) in two structurally parallel modules, the ACCESS FUNCTION — values of the
  operands ↦ (memref, stored value, result types, evaluated map results) — is compared on a fixed
  sample of integer points (own evaluator over the expression trees, mathematical floor / ceiling /
  remainder; points where a divisor is not positive are outside the statement and skipped);
* a generator of operations over a grammar of affine expressions: every operator (add, sub, mul,
  mod, floordiv, ceildiv, negative coefficients, constant-valued sub-expressions) as LEFT and as
  RIGHT operand of every operator up to depth 3 (exhaustive for depth ≤ 2 over a small alphabet,
  random above), built with the smart constructors (= what the parser builds from a generic-form
  input) and with the raw `AffineBinaryOpExpr` constructor (= what a pass can build), over dims,
  symbols and mixed spaces, with operands shared between positions;
* the second generation: the operation parsed from the custom text is itself a verified operation
  in the parser's normal form (symbols only, no repeated / unused operands): its custom round trip
  must parse and give the same access function again (the map itself is compared by value only:
  `a + (b + c)` is legitimately printed `a + b + c` and read back left-associated);
* correspondence of the real SSA-name expression parser with the Lean model of the affine parser
  (`XdslModel/Affine.lean`, `parse`): the printed index expressions, names replaced by `s<k>`, are
  parsed by the model; the expression it builds must be the one the real parser built, and its value
  (model evaluator `evalPy`) at a sample point must be the value of the ORIGINAL map there.
"""
from __future__ import annotations

import itertools
import json
import random
import re
from typing import Any, Callable

from vp import core

from props import c04_ir as I
from props import c05_rt as R

SIG_MAP = "custom form denotes a different access map"
SIG_APPLY = "custom form denotes a different map"
SIG_FIXED = "custom form accesses a different memref or value, or changes result types / other properties"
SIG_GEN2 = "custom form of the re-parsed operation (symbol form)"
SIG_GEN2_SEM = "custom form of the re-parsed operation (symbol form) denotes a different access map"

KINDS = ("add", "mul", "mod", "fdiv", "cdiv")
DIVS = ("mod", "fdiv", "cdiv")
CODE = {"add": "+", "mul": "*", "mod": "%", "fdiv": "/", "cdiv": "^"}

# operation name → (map property, accessor of the operands the map is applied to, signature)
BINDINGS: dict[str, tuple[str, str, str]] = {
    "affine.load": ("map", "indices", SIG_MAP),
    "affine.store": ("map", "indices", SIG_MAP),
    "affine.vector_load": ("map", "indices", SIG_MAP),
    "affine.vector_store": ("map", "indices", SIG_MAP),
    "affine.apply": ("map", "mapOperands", SIG_APPLY),
}
OP_KINDS = ("load", "store", "vload", "vstore", "apply")


class Rejected(Exception):
    pass


# ---------------------------------------------------------------------------------------------
# expressions:  ["c", v] | ["d", i] | ["s", i] | [kind, l, r] | ["sub", l, r] | ["neg", a]
# ---------------------------------------------------------------------------------------------

def build_expr(e: list, raw: bool):
    """the real expression object; smart = operators of AffineExpr (what the parser applies), raw =
    AffineBinaryOpExpr nodes as written (sub / neg are spelled with `* -1` as the smart ones do)"""
    from xdsl.ir.affine import AffineBinaryOpExpr, AffineBinaryOpKind, AffineExpr

    K = {"add": AffineBinaryOpKind.Add, "mul": AffineBinaryOpKind.Mul, "mod": AffineBinaryOpKind.Mod,
         "fdiv": AffineBinaryOpKind.FloorDiv, "cdiv": AffineBinaryOpKind.CeilDiv}
    t = e[0]
    if t == "c":
        return AffineExpr.constant(e[1])
    if t == "d":
        return AffineExpr.dimension(e[1])
    if t == "s":
        return AffineExpr.symbol(e[1])
    try:
        if t == "neg":
            a = build_expr(e[1], raw)
            return AffineBinaryOpExpr(K["mul"], a, AffineExpr.constant(-1)) if raw else -a
        l, r = build_expr(e[1], raw), build_expr(e[2], raw)
        if t == "sub":
            return AffineBinaryOpExpr(K["add"], l, AffineBinaryOpExpr(K["mul"], r, AffineExpr.constant(-1))) if raw else l - r
        if raw:
            return AffineBinaryOpExpr(K[t], l, r)
        if t == "add":
            return l + r
        if t == "mul":
            return l * r
        if t == "mod":
            return l % r
        if t == "fdiv":
            return l // r
        return l.ceil_div(r)
    except (NotImplementedError, ZeroDivisionError) as ex:
        raise Rejected(core.exc_name(ex)) from ex


def ev(x, dims, syms) -> int | None:
    """independent value of a real expression tree (None: a divisor is not positive — outside the
    statement of affine semantics)"""
    from xdsl.ir.affine import AffineBinaryOpExpr, AffineBinaryOpKind, AffineConstantExpr, AffineDimExpr, AffineSymExpr

    if isinstance(x, AffineConstantExpr):
        return x.value
    if isinstance(x, AffineDimExpr):
        return dims[x.position]
    if isinstance(x, AffineSymExpr):
        return syms[x.position]
    if isinstance(x, AffineBinaryOpExpr):
        a, b = ev(x.lhs, dims, syms), ev(x.rhs, dims, syms)
        if a is None or b is None:
            return None
        k = x.kind
        if k == AffineBinaryOpKind.Add:
            return a + b
        if k == AffineBinaryOpKind.Mul:
            return a * b
        if b <= 0:
            return None
        q, r = divmod(a, b)
        if k == AffineBinaryOpKind.FloorDiv:
            return q
        if k == AffineBinaryOpKind.Mod:
            return r
        return q + (1 if r else 0)
    raise core.InfraError(f"not an affine expression: {x!r}")


def show_real(x) -> str:
    """Polish form of a real expression (the `showExpr` of XdslModel/Affine.lean)"""
    from xdsl.ir.affine import AffineBinaryOpExpr, AffineBinaryOpKind as K, AffineConstantExpr, AffineDimExpr, AffineSymExpr

    if isinstance(x, AffineConstantExpr):
        return f"c{x.value}"
    if isinstance(x, AffineDimExpr):
        return f"d{x.position}"
    if isinstance(x, AffineSymExpr):
        return f"s{x.position}"
    if isinstance(x, AffineBinaryOpExpr):
        code = {K.Add: "+", K.Mul: "*", K.Mod: "%", K.FloorDiv: "/", K.CeilDiv: "^"}[x.kind]
        return f"{code} {show_real(x.lhs)} {show_real(x.rhs)}"
    raise core.InfraError(f"not an affine expression: {x!r}")


def const_value(e: list) -> int | None:
    """value of an expression without identifiers (None if it has one or divides by ≤ 0)"""
    t = e[0]
    if t == "c":
        return e[1]
    if t in ("d", "s"):
        return None
    if t == "neg":
        a = const_value(e[1])
        return None if a is None else -a
    a, b = const_value(e[1]), const_value(e[2])
    if a is None or b is None:
        return None
    if t == "add":
        return a + b
    if t == "sub":
        return a - b
    if t == "mul":
        return a * b
    if b <= 0:
        return None
    q, r = divmod(a, b)
    return q if t == "fdiv" else r if t == "mod" else q + (1 if r else 0)


def parseable(e: list) -> bool:
    """the shapes whose printed text the affine parser can read back (no semi-affine products or
    divisions: one factor / the divisor is constant-valued, divisors are positive)"""
    t = e[0]
    if t in ("c", "d", "s"):
        return True
    if t == "neg":
        return parseable(e[1])
    if not (parseable(e[1]) and parseable(e[2])):
        return False
    if t in ("add", "sub"):
        return True
    if t == "mul":
        return const_value(e[1]) is not None or const_value(e[2]) is not None
    v = const_value(e[2])
    return v is not None and v > 0


def depth(e: list) -> int:
    return 0 if e[0] in ("c", "d", "s") else 1 + max(depth(x) for x in e[1:])


def idents(e: list, acc: set | None = None) -> set:
    acc = set() if acc is None else acc
    if e[0] in ("d", "s"):
        acc.add((e[0], e[1]))
    elif e[0] != "c":
        for x in e[1:]:
            idents(x, acc)
    return acc


# -- generators --------------------------------------------------------------------------------

def gen_const_expr(rng, positive: bool, d: int) -> list:
    """a constant-valued expression (a literal mostly; otherwise a small tree of literals)"""
    if d <= 0 or rng.random() < 0.7:
        return ["c", rng.choice([2, 3, 4, 5, 8, 16] if positive else [-3, -2, -1, 2, 3, 4, 7])]
    for _ in range(8):
        k = rng.choice(["add", "mul", "sub", "fdiv", "mod"])
        e = [k, gen_const_expr(rng, positive or k in ("fdiv", "mod"), d - 1), gen_const_expr(rng, positive or k in ("fdiv", "mod"), d - 1)]
        v = const_value(e)
        if v is not None and (v > 0 if positive else v != 0) and abs(v) <= 64:
            return e
    return ["c", 2]


def gen_expr(rng, d: int, leaves: list[list]) -> list:
    """random parseable expression of depth ≤ d: every operator may sit on either side of every
    operator (the non-constant side of `*` is random; divisors are constant-valued and positive)"""
    if d <= 0 or rng.random() < 0.12:
        return rng.choice(leaves) if rng.random() < 0.85 else ["c", rng.choice([-4, -1, 0, 1, 3, 6])]
    k = rng.choice(["add", "add", "sub", "mul", "mod", "fdiv", "cdiv", "neg"])
    if k == "neg":
        return ["neg", gen_expr(rng, d - 1, leaves)]
    if k in ("add", "sub"):
        return [k, gen_expr(rng, d - 1, leaves), gen_expr(rng, d - 1, leaves)]
    if k == "mul":
        c = gen_const_expr(rng, False, min(d - 1, 2))
        x = gen_expr(rng, d - 1, leaves)
        return ["mul", x, c] if rng.random() < 0.75 else ["mul", c, x]
    return [k, gen_expr(rng, d - 1, leaves), gen_const_expr(rng, True, min(d - 1, 2))]


def exhaustive_exprs() -> list[list]:
    """every operator as left and as right operand of every operator, depth ≤ 2, over two
    identifiers and fixed constants (inner nodes over identifiers and constants)"""
    a, b = ["d", 0], ["d", 1]
    lvl1: list[list] = []
    for k in ("add", "sub"):
        lvl1 += [[k, a, b], [k, a, ["c", 3]]]
    lvl1 += [["mul", a, ["c", 3]], ["mul", ["c", -2], b], ["mod", a, ["c", 4]], ["fdiv", b, ["c", 2]], ["cdiv", a, ["c", 8]], ["neg", b],
             ["add", ["c", 2], ["c", 3]], ["mul", ["c", 2], ["c", 2]]]
    out = list(lvl1)
    for k in ("add", "sub", "mul", "mod", "fdiv", "cdiv"):
        for x in lvl1:
            for side in ("l", "r"):
                other = b if k in ("add", "sub") else ["c", 4]
                e = [k, x, other] if side == "l" else [k, other if k in ("add", "sub") else a, x]
                if parseable(e):
                    out.append(e)
    for x in lvl1:
        out.append(["neg", x])
    return out


# ---------------------------------------------------------------------------------------------
# cases → modules
# ---------------------------------------------------------------------------------------------
# op spec: {"op": kind, "nd": n, "ns": m, "results": [expr…], "raw": bool, "operands": [value index…]}
# (operands: which of the module's index values feeds each map input, dims first; repeats allowed)

def build_module(ops: list[dict[str, Any]]):
    """module: one test.op producing the memrefs / index values / stored values, then the operations"""
    from xdsl.dialects import affine
    from xdsl.dialects.builtin import AffineMapAttr, Float32Type, IndexType, MemRefType, ModuleOp, VectorType
    from xdsl.dialects.test import TestOp
    from xdsl.ir.affine import AffineMap

    f32 = Float32Type()
    nvals = max([max(o["operands"], default=-1) for o in ops] + [0]) + 1
    ranks = sorted({len(o["results"]) for o in ops if o["op"] != "apply"})
    types: list[Any] = [IndexType()] * nvals
    mem_at = {}
    for r in ranks:
        mem_at[r] = len(types)
        types.append(MemRefType(f32, [64] * r))
    sc_at = len(types)
    types.append(f32)
    vec_at = len(types)
    types.append(VectorType(f32, [4]))
    prod = TestOp(result_types=types)
    vals = prod.results
    body = [prod]
    for o in ops:
        exprs = tuple(build_expr(e, o["raw"]) for e in o["results"])
        m = AffineMapAttr(AffineMap(o["nd"], o["ns"], exprs))
        idx = [vals[i] for i in o["operands"]]
        if len(idx) != o["nd"] + o["ns"]:
            raise core.InfraError("bad case: operand count")
        k = o["op"]
        if k == "apply":
            op = affine.ApplyOp.create(operands=idx, properties={"map": m}, result_types=[IndexType()])
        else:
            mem = vals[mem_at[len(exprs)]]
            if k == "load":
                op = affine.LoadOp.create(operands=[mem, *idx], properties={"map": m}, result_types=[f32])
            elif k == "store":
                op = affine.StoreOp.create(operands=[vals[sc_at], mem, *idx], properties={"map": m})
            elif k == "vload":
                op = affine.VectorLoadOp.create(operands=[mem, *idx], properties={"map": m}, result_types=[VectorType(f32, [4])])
            elif k == "vstore":
                op = affine.VectorStoreOp.create(operands=[vals[vec_at], mem, *idx], properties={"map": m})
            else:
                raise core.InfraError(f"bad case: op kind {k}")
        body.append(op)
    return ModuleOp(body)


def describe(o: dict[str, Any]) -> str:
    try:
        from xdsl.ir.affine import AffineMap

        m = AffineMap(o["nd"], o["ns"], tuple(build_expr(e, o["raw"]) for e in o["results"]))
        return f"affine.{ {'vload': 'vector_load', 'vstore': 'vector_store'}.get(o['op'], o['op']) } with map {m} on operands {o['operands']}"
    except Exception as e:  # noqa: BLE001
        return f"{o} ({core.exc_name(e)})"


# ---------------------------------------------------------------------------------------------
# the semantic oracle
# ---------------------------------------------------------------------------------------------

def number_values(module) -> dict[Any, int]:
    ids: dict[Any, int] = {}
    for op in module.walk():
        for r in op.results:
            ids[r] = len(ids)
        for reg in op.regions:
            for b in reg.blocks:
                for a in b.args:
                    ids[a] = len(ids)
    return ids


_PTS: dict[int, list[list[int]]] = {}


def points(n: int, k: int = 20) -> list[list[int]]:
    """k fixed integer assignments to n values (deterministic: a replay sees the same ones)"""
    if n not in _PTS:
        rng = random.Random(f"c05-affine-points:{n}")
        pts = [[(3 * i + 1) % 11 + j for i in range(n)] for j in (0, 7)]
        while len(pts) < k:
            pts.append([rng.choice([-5, -2, -1]) if rng.random() < 0.12 else rng.randrange(0, 41) for _ in range(n)])
        _PTS[n] = pts
    return _PTS[n]


def binding_of(op):
    """(map, operands the map is applied to, signature) of an operation with an affine binding"""
    b = BINDINGS.get(op.name)
    if b is None:
        return None
    from xdsl.dialects.builtin import AffineMapAttr

    m = op.properties.get(b[0])
    if not isinstance(m, AffineMapAttr):
        return None
    try:
        idx = list(getattr(op, b[1]))
    except Exception:  # noqa: BLE001
        return None
    if len(idx) != m.data.num_dims + m.data.num_symbols:
        return None
    return m.data, idx, b[2]


def access(op, ids: dict[Any, int]):
    """(fixed part, function point → tuple of map results)"""
    bd = binding_of(op)
    if bd is None:
        return None
    amap, idx, sig = bd
    n_other = len(op.operands) - len(idx)
    b = BINDINGS[op.name]
    fixed = (op.name, tuple(ids.get(v, -1) for v in list(op.operands)[:n_other]), tuple(str(t) for t in op.result_types),
             tuple(sorted((k, str(v)) for k, v in op.properties.items() if k != b[0])),
             tuple(sorted((k, str(v)) for k, v in op.attributes.items())))
    pos = [ids.get(v, -1) for v in idx]
    nd = amap.num_dims

    def f(pt: list[int]):
        vals = [pt[p] for p in pos]
        return tuple(ev(r, vals[:nd], vals[nd:]) for r in amap.results)

    return fixed, f, sig


class SemFailure:
    def __init__(self, index: int, op, op2, signature: str, detail: str, point=None, want=None, got=None):
        self.index, self.op, self.op2, self.signature, self.detail = index, op, op2, signature, detail
        self.point, self.want, self.got = point, want, got


def sem_check(orig, parsed, stats: Callable[[str], None] | None = None) -> list[SemFailure]:
    """compare the access functions of parallel operations of two modules; [] when they agree (or the
    modules are not parallel: the structural oracle speaks then)"""
    ops1, ops2 = list(orig.walk()), list(parsed.walk())
    if not any(o.name in BINDINGS for o in ops1):
        return []
    if [o.name for o in ops1] != [o.name for o in ops2]:
        if stats:
            stats("sem.modules_not_parallel")
        return []
    ids1, ids2 = number_values(orig), number_values(parsed)
    if len(ids1) != len(ids2):
        if stats:
            stats("sem.modules_not_parallel")
        return []
    pts = points(len(ids1))
    out = []
    for k, (o1, o2) in enumerate(zip(ops1, ops2)):
        if o1.name not in BINDINGS:
            continue
        a1, a2 = access(o1, ids1), access(o2, ids2)
        if a1 is None or a2 is None:
            if stats:
                stats("sem.binding_not_readable")
            continue
        if stats:
            stats("sem.ops_compared")
        if a1[0] != a2[0]:
            out.append(SemFailure(k, o1, o2, SIG_FIXED, f"{o1.name}: {a1[0]} became {a2[0]}"))
            continue
        judged = 0
        for pt in pts:
            w, g = a1[1](pt), a2[1](pt)
            if any(x is None for x in w):
                continue  # a divisor of the ORIGINAL map is not positive here: outside affine semantics
            judged += 1
            if w != g:
                used = sorted({ids1[v] for v in binding_of(o1)[1] if v in ids1})
                out.append(SemFailure(k, o1, o2, a1[2],
                                      f"{o1.name}: map {binding_of(o1)[0]} gives {list(w)}, the operation parsed from the custom form "
                                      f"(map {binding_of(o2)[0]}) gives {list(g)} at operand values { {f'#{u}': pt[u] for u in used} }",
                                      {f"#{u}": pt[u] for u in used}, list(w), list(g)))
                break
        if stats and judged:
            stats("sem.ops_judged")
    return out


# ---------------------------------------------------------------------------------------------
# correspondence with the Lean model of the affine parser
# ---------------------------------------------------------------------------------------------

_ACCESS_TEXT = re.compile(r"affine\.(?:load|store|vector_load|vector_store)\s[^\[\n]*\[([^\]\n]*)\]")
_SSA = re.compile(r"%[A-Za-z0-9_$.\-]+")


def split_top(s: str) -> list[str]:
    out, d, cur = [], 0, ""
    for ch in s:
        if ch == "(":
            d += 1
        elif ch == ")":
            d -= 1
        if ch == "," and d == 0:
            out.append(cur.strip())
            cur = ""
        else:
            cur += ch
    if cur.strip():
        out.append(cur.strip())
    return out


def printed_index_exprs(custom_text: str) -> list[tuple[list[str], int]]:
    """per access operation of the text (in order): its index expressions with the SSA names replaced
    by s<k> (k = order of first occurrence within the bracket, as parse_affine_map_of_ssa_ids numbers
    them) and the number of distinct names"""
    out = []
    for m in _ACCESS_TEXT.finditer(custom_text):
        names: dict[str, int] = {}

        def sub(mm):
            return f"s{names.setdefault(mm.group(0), len(names))}"

        body = _SSA.sub(sub, m.group(1))
        out.append((split_top(body), len(names)))
    return out


class ModelLeg:
    """batches `parse` / `eval` lines for the Lean model `affine`"""

    def __init__(self, ctx: core.Ctx):
        self.ctx = ctx
        self.items: list[tuple[str, str, Any]] = []  # (line, expected output or "", case)
        self.evals: list[tuple[int, list[int], int, Any]] = []  # (index of the parse item, sym values, wanted value, case)

    def add(self, module, custom_text: str, parsed, case_of: Callable[[int], Any]) -> None:
        """`module` printed as `custom_text` and read back as `parsed` (parallel modules)"""
        ops1 = [o for o in module.walk() if o.name in BINDINGS and o.name != "affine.apply"]
        ops2 = [o for o in parsed.walk() if o.name in BINDINGS and o.name != "affine.apply"]
        texts = printed_index_exprs(custom_text)
        if not (len(ops1) == len(ops2) == len(texts)):
            self.ctx.count("affine.model.text_not_aligned")
            return
        ids1 = number_values(module)
        pt = points(len(ids1))[3 % len(points(len(ids1)))]
        for k, (o1, o2, (exprs, nnames)) in enumerate(zip(ops1, ops2, texts)):
            b1, b2 = binding_of(o1), binding_of(o2)
            if b1 is None or b2 is None or len(b2[0].results) != len(exprs) or b2[0].num_dims != 0 or b2[0].num_symbols != nnames:
                self.ctx.count("affine.model.text_not_aligned")
                continue
            # values of the names in order of first occurrence = operands of the re-parsed operation
            ids2 = None
            vals1 = [pt[ids1[v]] for v in b1[1]]
            want = [ev(r, vals1[:b1[0].num_dims], vals1[b1[0].num_dims:]) for r in b1[0].results]
            for j, text in enumerate(exprs):
                if not re.fullmatch(r"[ ()+\-*0-9A-Za-z_]*", text):
                    self.ctx.count("affine.model.text_outside_alphabet")
                    continue
                self.items.append((f"parse 0 {nnames} {text}", "ok " + show_real(b2[0].results[j]) + " rest 0", case_of(k)))
                if want[j] is not None and ids2 is None:
                    ids2 = number_values(parsed)
                if want[j] is not None:
                    # the re-parsed operation's operands carry the same value numbers as the original's
                    svals = [pt[ids2[v]] for v in b2[1]]
                    self.evals.append((len(self.items) - 1, svals, want[j], case_of(k)))

    def finish(self) -> None:
        ctx = self.ctx
        if not self.items:
            return
        out = ctx.model("affine", ["reset"] + [l for l, _, _ in self.items])[1:]
        elines, emeta = [], []
        for k, ((line, exp, case), got) in enumerate(zip(self.items, out)):
            ctx.ev()
            ctx.count("affine.model.parse_lines")
            if got != exp:
                ctx.mismatch("correspondence:C05/affine.parse_ssa_ids", case, exp, got,
                             f"`{line}`: the expression built by Parser.parse_affine_map_of_ssa_ids differs from the Lean model of the affine parser")
        for k, svals, want, case in self.evals:
            got = out[k] if k < len(out) else ""
            m = re.fullmatch(r"ok (.*) rest 0", got)
            if not m:
                continue
            elines.append(f"eval 0 {len(svals)} " + " ".join(map(str, svals)) + " " + m.group(1))
            emeta.append((want, case, self.items[k][0]))
        if elines:
            eo = ctx.model("affine", ["reset"] + elines)[1:]
            for (want, case, line), got in zip(emeta, eo):
                ctx.count("affine.model.eval_lines")
                if got.startswith("raise"):
                    continue
                if got != f"int {want}":
                    # the standard reading of the PRINTED text (proved parser model + evaluator) is not the
                    # value of the original map: the custom printer is at fault
                    ctx.mismatch("correspondence:C05/affine.printed_text_value", case, f"int {want}", got,
                                 f"`{line}`: the printed index expression, read by the Lean model of the affine parser, "
                                 f"does not evaluate to the value of the original map")


# ---------------------------------------------------------------------------------------------
# running cases
# ---------------------------------------------------------------------------------------------

def op_site(name: str) -> str:
    cls = I.fresh_context(allow_unregistered=False).get_optional_op(name)
    return f"{cls.__module__}.{cls.__qualname__}.print/parse" if cls is not None else name


def run_ops(ops: list[dict[str, Any]]) -> tuple[str, Any]:
    """('rejected'|'unverified'|'generic'|'print'|'parse'|'sem'|'gen2'|'gen2sem'|'ok', payload)"""
    try:
        m = build_module(ops)
    except Rejected as e:
        return "rejected", str(e)
    try:
        m.verify()
    except Exception as e:  # noqa: BLE001
        return "unverified", core.exc_name(e)
    # the generic form must be readable (otherwise the instance is no input of the parser at all)
    try:
        I.parse_module(I.print_generic(m))
    except Exception as e:  # noqa: BLE001
        return "generic", core.exc_name(e)
    try:
        tc = R.print_custom(m)
    except Exception as e:  # noqa: BLE001
        return "print", (m, f"custom printer raised {core.exc_name(e)}: {str(e)[:200]}")
    try:
        m2 = I.parse_module(tc)
        m2.verify()
    except Exception as e:  # noqa: BLE001
        msg = str(e).strip().splitlines()
        return "parse", (m, tc, f"{core.exc_name(e)}: {(msg[-1] if msg else '')[:200]}")
    fs = sem_check(m, m2)
    if fs:
        return "sem", (m, tc, m2, fs)
    # second generation: m2 is itself a verified module, in the parser's normal form
    try:
        tc2 = R.print_custom(m2)
    except Exception as e:  # noqa: BLE001
        return "gen2", (m, tc, m2, "print", "", f"custom printer raised {core.exc_name(e)}: {str(e)[:200]}")
    try:
        m3 = I.parse_module(tc2)
        m3.verify()
    except Exception as e:  # noqa: BLE001
        msg = str(e).strip().splitlines()
        return "gen2", (m, tc, m2, "parse", tc2, f"{core.exc_name(e)}: {(msg[-1] if msg else '')[:200]}")
    fs2 = sem_check(m2, m3)
    if fs2:
        return "gen2sem", (m, tc, m2, fs2)
    return "ok", (m, tc, m2, tc2)


def _sub_exprs(e: list):
    if e[0] in ("c", "d", "s"):
        return
    for i in range(1, len(e)):
        yield e[i]
        for small in (["c", 1], ["c", 2], ["d", 0]):
            if e[i] != small and e[i][0] != "c":
                yield e[:i] + [small] + e[i + 1:]
        for x in _sub_exprs(e[i]):
            yield e[:i] + [x] + e[i + 1:]


def esize(e: list) -> int:
    return 1 if e[0] in ("c", "d", "s") else 1 + sum(esize(x) for x in e[1:])


def shrink_op(o: dict[str, Any], stage: str, sig: str | None) -> dict[str, Any]:
    """greedy: one result, smaller expressions, fewer inputs — keeping stage (and signature)"""
    def fails(c) -> bool:
        try:
            st, pl = run_ops([c])
        except Exception:  # noqa: BLE001
            return False
        if st != stage:
            return False
        if sig is not None and st in ("sem", "gen2sem"):
            return any(f.signature == sig for f in pl[3])
        return True

    cur = json.loads(json.dumps(o))
    if cur["op"] != "apply" or len(cur["results"]) > 1:
        for j in range(len(cur["results"])):
            c = dict(cur, results=[cur["results"][j]])
            if len(cur["results"]) > 1 and fails(c):
                cur = c
                break
    steps = 0
    progress = True
    while progress and steps < 150:
        progress = False
        for j, e in enumerate(cur["results"]):
            for x in sorted(_sub_exprs(e), key=esize):
                steps += 1
                if steps >= 150:
                    break
                if esize(x) >= esize(e) and x[0] != "c":
                    continue
                c = dict(cur, results=cur["results"][:j] + [x] + cur["results"][j + 1:])
                if c != cur and fails(c):
                    cur, progress = c, True
                    break
            if progress:
                break
    # renumber: drop unused inputs when the failure stays
    used = set()
    for e in cur["results"]:
        used |= idents(e)
    for kind, cnt in (("s", cur["ns"]), ("d", cur["nd"])):
        for p in range(cnt - 1, -1, -1):
            if (kind, p) in used:
                continue
            at = p if kind == "d" else cur["nd"] + p

            def ren(e):
                if e[0] == kind and e[1] > p:
                    return [kind, e[1] - 1]
                return e if e[0] in ("c", "d", "s") else [e[0]] + [ren(x) for x in e[1:]]

            c = dict(cur, results=[ren(e) for e in cur["results"]], operands=cur["operands"][:at] + cur["operands"][at + 1:])
            c["nd" if kind == "d" else "ns"] -= 1
            if fails(c):
                cur = c
    # distinct operand values 0..n-1 when the failure stays
    c = dict(cur, operands=list(range(len(cur["operands"]))))
    if c != cur and fails(c):
        cur = c
    if cur["raw"]:
        c = dict(cur, raw=False)
        if fails(c):
            cur = c
    return cur


_REPORTED: set[tuple[str, str]] = set()


def report(ctx: core.Ctx, o: dict[str, Any], stage: str, payload) -> None:
    opname = {"vload": "affine.vector_load", "vstore": "affine.vector_store"}.get(o["op"], "affine." + o["op"])
    site = op_site(opname)
    sig0 = None
    if stage in ("sem", "gen2sem"):
        sig0 = payload[3][0].signature
    pre = (site, stage + ":" + (sig0 or ""))
    ctx.count(f"affine.fail.{stage}")
    if pre in _REPORTED:
        return
    _REPORTED.add(pre)
    small = shrink_op(o, stage, sig0)
    st, pl = run_ops([small])
    if st != stage:
        small, (st, pl) = o, run_ops([o])
    case = {"family": "affine-expr", "ops": [small], "what": describe(small)}
    if st == "print":
        ctx.fail(site, "custom printer raises", case, pl[1], {"stage": "print"}, None)
    elif st == "parse":
        ctx.fail(site, "custom form does not parse back", case, f"{describe(small)}: {pl[2]}",
                 {"stage": "parse", "custom": pl[1][:800], "detail": pl[2]}, None)
    elif st in ("sem", "gen2sem"):
        f = pl[3][0]
        sig = f.signature if st == "sem" else (SIG_GEN2_SEM if f.signature != SIG_FIXED else SIG_FIXED)
        ctx.fail(site, sig, case, f.detail[:600],
                 {"stage": st, "custom": pl[1][:800], "operand_values": f.point, "original_access": f.want, "reparsed_access": f.got},
                 {"expected_access": f.want})
    elif st == "gen2":
        ctx.fail(site, SIG_GEN2 + (": printer raises" if pl[3] == "print" else ": does not parse back"), case,
                 f"{describe(small)}: the operation parsed from the custom form is printed as\n{pl[4][:400]}\n{pl[5]}",
                 {"stage": "second-generation " + pl[3], "custom": pl[1][:800], "custom_of_reparsed": pl[4][:800], "detail": pl[5]}, None)

def _space(rng) -> tuple[int, int]:
    return rng.choice([(1, 0), (2, 0), (2, 0), (3, 0), (0, 1), (0, 2), (1, 1), (1, 1), (2, 1), (1, 2)])


def make_op(rng, kind: str, exprs_src: Callable[[list[list]], list], raw: bool, nvals: int = 4) -> dict[str, Any]:
    nd, ns = _space(rng)
    leaves = [["d", i] for i in range(nd)] + [["s", i] for i in range(ns)]
    nres = 1 if kind == "apply" else rng.choice([1, 1, 2, 3])
    results = [exprs_src(leaves) for _ in range(nres)]
    if rng.random() < 0.8:
        operands = rng.sample(range(nvals), nd + ns)
    else:
        operands = [rng.randrange(nvals) for _ in range(nd + ns)]   # a value may feed several inputs
    return {"op": kind, "nd": nd, "ns": ns, "results": results, "raw": raw, "operands": operands}


def rename_leaves(e: list, leaves: list[list], rng) -> list:
    """the exhaustive shapes are written over d0, d1: put them into the op's space"""
    if e[0] == "d":
        return leaves[e[1] % len(leaves)] if leaves else ["c", 1]
    if e[0] in ("c", "s"):
        return e
    return [e[0]] + [rename_leaves(x, leaves, rng) for x in e[1:]]


def run_family(ctx: core.Ctx, n_random: int, per_module: int, reserve: float) -> None:
    """exhaustive shapes (depth ≤ 2) × {smart, raw} × op kinds, then random expressions of depth ≤ 3"""
    rng = ctx.rng
    leg = ModelLeg(ctx)
    shapes = exhaustive_exprs()
    ctx.count("affine.exhaustive_shapes", len(shapes))
    todo: list[dict[str, Any]] = []
    kinds = itertools.cycle(("load", "store", "vload", "vstore", "load", "store", "apply"))
    for raw in (False, True):
        for e in shapes:
            kind = next(kinds)

            def src(leaves, e=e):
                return rename_leaves(e, leaves, rng)

            o = make_op(rng, kind, src, raw)
            if o["nd"] + o["ns"] >= 2 or rng.random() < 0.5:
                todo.append(o)
            else:
                o = dict(o, nd=2, ns=0, operands=rng.sample(range(4), 2))
                o["results"] = [e for _ in o["results"]]
                todo.append(o)
    for k in range(n_random):
        kind = ("load", "store", "vload", "vstore", "load", "apply")[k % 6]
        raw = rng.random() < 0.45
        d = rng.choice([1, 2, 2, 3, 3, 3])
        todo.append(make_op(rng, kind, lambda leaves, d=d: gen_expr(rng, d, leaves), raw))
    ctx.count("affine.cases_generated", len(todo))
    for at in range(0, len(todo), per_module):
        if ctx.time_left() < reserve:
            ctx.count("affine.skipped_for_time", len(todo) - at)
            break
        group = todo[at:at + per_module]
        # operations that cannot be built / verified / read in generic form leave the group
        good = []
        for o in group:
            try:
                build_module([o]).verify()
                good.append(o)
            except Rejected:
                ctx.count("affine.rejected_by_constructor")
            except Exception:  # noqa: BLE001
                ctx.count("affine.unverified")
        if not good:
            continue
        st, pl = run_ops(good)
        if st == "ok":
            _account(ctx, good, pl, leg)
            continue
        # something in the group: judge the operations one by one
        for o in good:
            st1, pl1 = run_ops([o])
            if st1 == "ok":
                _account(ctx, [o], pl1, leg)
            elif st1 in ("rejected", "unverified", "generic"):
                ctx.count(f"affine.not_judged.{st1}")
            else:
                ctx.ev()
                if st1 in ("sem", "gen2", "gen2sem"):
                    leg.add(pl1[0], pl1[1], pl1[2], lambda k, o=o: {"family": "affine-expr", "ops": [o], "what": describe(o)})
                report(ctx, o, st1, pl1)
    leg.finish()


def _account(ctx: core.Ctx, ops: list[dict[str, Any]], pl, leg: ModelLeg) -> None:
    m, tc, m2, tc2 = pl
    for o in ops:
        ctx.ev()
        ctx.count(f"affine.ok.{o['op']}.{'raw' if o['raw'] else 'smart'}")
        d = max(depth(e) for e in o["results"])
        ctx.count(f"affine.depth={d}")
        if d >= 1:
            ctx.nt(("affine-expr", o["op"], o["raw"], json.dumps(o["results"]), o["nd"], o["ns"], tuple(o["operands"])))
    ctx.count("affine.text_idempotent" if tc2 == tc else "affine.text_changes_once_normalised")
    leg.add(m, tc, m2, lambda k, ops=ops: {"family": "affine-expr", "ops": [ops[k]] if k < len(ops) else ops,
                                           "what": describe(ops[k]) if k < len(ops) else ""})
    if len(ctx.samples) < 5:
        ctx.sample({"family": "affine-expr", "case": describe(ops[0]), "custom": next((l.strip() for l in tc.splitlines() if "affine." in l), "")})


def check_bindings(ctx: core.Ctx, module, rt, case: dict[str, Any], family: str) -> bool:
    """the semantic oracle on any module that went through R.roundtrip (corpus, pass outputs, variants):
    access functions of original vs operation parsed from the custom form, then the second generation
    of the re-parsed module; True when nothing was reported"""
    if rt.parsed is None or not any(o.name in BINDINGS for o in module.walk()):
        return True
    ok = True
    for gen, (a, b) in enumerate(((module, rt.parsed), (rt.parsed, None))):
        if b is None:
            try:
                rt2 = R.roundtrip(a)
            except Exception:  # noqa: BLE001
                break
            if rt2.parsed is None:
                break
            b = rt2.parsed
        for f in sem_check(a, b, lambda k: ctx.count(f"{family}.{k}")):
            ok = False
            c = dict(case)
            c["op"] = f.op.name
            try:
                iso, _ = R.isolate(f.op)
                tci = R.print_custom(iso)
                fi = sem_check(iso, I.parse_module(tci))
                if fi:
                    c["isolated"] = True
                    c["generic_text"] = I.print_generic(iso)[:3000]
                    f = fi[0]
            except Exception:  # noqa: BLE001
                pass
            sig = f.signature if gen == 0 or f.signature == SIG_FIXED else SIG_GEN2_SEM
            ctx.count(f"{family}.fail.sem")
            ctx.fail(R.call_site(f.op), sig, c, f.detail[:600],
                     {"stage": "sem" if gen == 0 else "gen2sem", "operand_values": f.point, "original_access": f.want,
                      "reparsed_access": f.got}, {"expected_access": f.want})
        if not ok:
            break
    return ok


def replay_case(ctx: core.Ctx, case: dict[str, Any]) -> int:
    ops = case["ops"]
    for o in ops:
        print("case:", describe(o), "(raw constructor)" if o["raw"] else "(smart constructors)")
    st, pl = run_ops(ops)
    if st in ("rejected", "unverified", "generic"):
        print("not an input of the property any more:", st, pl)
        return 0
    if st == "print":
        print(pl[1])
    else:
        print("custom text:\n" + pl[1])
    if st == "parse":
        print("custom form does not parse back:", pl[2])
    elif st in ("sem", "gen2sem"):
        for f in pl[3]:
            print(("second generation: " if st == "gen2sem" else "") + f.signature + ": " + f.detail)
    elif st == "gen2":
        print("the re-parsed operation is printed as\n" + pl[4] + "\nsecond round trip FAILS at", pl[3], pl[5])
    bad = st != "ok"
    print("property", "FAILS" if bad else "holds", "on this case")
    return 1 if bad else 0
