"""Independent codec of the builtin float types (C08: every constructor route must store the bit
pattern that the type's format gives for the parameter).

Nothing here imports xDSL.  The formats are written down from the MLIR / LLVM APFloat definitions
(`fltSemantics`) keyed by the MLIR type NAME, not read from xDSL's `SEMANTICS` tables, so that a
change of a table, of an encoder or of a decoder in xDSL shows up as a difference.  All arithmetic is
exact integer arithmetic on the binary64 bit pattern of the parameter.

encode(fmt, f64 bits)  -> Enc:  the set of admissible bit patterns, or the exception class to expect
decode(fmt, pattern)   -> Dec:  the binary64 bit pattern of the Python float, or "some NaN"

NaN contract per family (what the carrier of the type can keep; stated in META["level_note"]):
  * binary64 (`f64`): identity.
  * binary32 (`f32`), `bf16`: C conversion double->float: sign kept, the leading payload bits kept,
    quiet bit set; bf16 then keeps the leading 7 fraction bits of that binary32 with the quiet bit
    (documented in `BFloat16Type._encode`: "quiet-NaN preservation; matches LLVM APFloat").
  * binary16 (`f16`): CPython `PyFloat_Pack2`: sign kept, payload canonical (quiet bit only).
  * APFloat-described reduced formats (tf32, f8*, f6*, f4*): their Python carrier is the canonical
    `math.nan`; which NaN pattern of the format is produced is not fixed by the property: every NaN
    pattern of the format is admissible (formats without NaN: unspecified, only determinism is
    demanded elsewhere).
"""
from __future__ import annotations

import dataclasses
from fractions import Fraction
from typing import Any


@dataclasses.dataclass(frozen=True)
class Fmt:
    name: str
    e: int
    m: int
    bias: int
    nonfinite: str = "ieee"        # ieee | nan_only | finite_only
    nan: str = "ieee"              # ieee | all_ones | neg_zero
    has_zero: bool = True
    has_sign: bool = True
    nan_policy: str = "any"        # exact | sign | any
    via: str | None = None         # round to this format first (double rounding), e.g. bf16 via f32
    overflow_raises: bool = False  # struct-packed formats raise OverflowError instead of giving inf

    @property
    def width(self) -> int:
        return int(self.has_sign) + self.e + self.m

    @property
    def size(self) -> int:
        return (self.width + 7) >> 3

    @property
    def maxe(self) -> int:
        return (1 << self.e) - 1

    @property
    def maxm(self) -> int:
        return (1 << self.m) - 1

    @property
    def emin(self) -> int:
        """unbiased exponent of the smallest normal number"""
        return (1 - self.bias) if self.has_zero else -self.bias


FORMATS: dict[str, Fmt] = {f.name: f for f in [
    Fmt("f64", 11, 52, 1023, nan_policy="exact"),
    Fmt("f32", 8, 23, 127, nan_policy="exact", overflow_raises=True),
    Fmt("f16", 5, 10, 15, nan_policy="sign", overflow_raises=True),
    Fmt("bf16", 8, 7, 127, nan_policy="exact", via="f32"),
    Fmt("tf32", 8, 10, 127),
    Fmt("f8E5M2", 5, 2, 15),
    Fmt("f8E4M3", 4, 3, 7),
    Fmt("f8E4M3FN", 4, 3, 7, nonfinite="nan_only", nan="all_ones"),
    Fmt("f8E5M2FNUZ", 5, 2, 16, nonfinite="nan_only", nan="neg_zero"),
    Fmt("f8E4M3FNUZ", 4, 3, 8, nonfinite="nan_only", nan="neg_zero"),
    Fmt("f8E4M3B11FNUZ", 4, 3, 11, nonfinite="nan_only", nan="neg_zero"),
    Fmt("f8E3M4", 3, 4, 3),
    Fmt("f8E8M0FNU", 8, 0, 127, nonfinite="nan_only", nan="all_ones", has_zero=False, has_sign=False),
    Fmt("f6E2M3FN", 2, 3, 1, nonfinite="finite_only"),
    Fmt("f6E3M2FN", 3, 2, 3, nonfinite="finite_only"),
    Fmt("f4E2M1FN", 2, 1, 1, nonfinite="finite_only"),
]}

ANY = "unspecified"


@dataclasses.dataclass(frozen=True)
class Enc:
    """result of encoding: exactly one of `pats` (admissible patterns), `raises`, or unspecified"""
    pats: frozenset[int] | None = None
    raises: str | None = None
    why: str = ""

    @property
    def exact(self) -> int | None:
        return next(iter(self.pats)) if self.pats is not None and len(self.pats) == 1 else None

    def admits(self, pat: int) -> bool:
        return self.pats is None and self.raises is None or (self.pats is not None and pat in self.pats)


def _fields64(bits: int) -> tuple[int, int, int]:
    return bits >> 63, (bits >> 52) & 0x7FF, bits & ((1 << 52) - 1)


def is_nan64(bits: int) -> bool:
    _, e, f = _fields64(bits)
    return e == 0x7FF and f != 0


def is_inf64(bits: int) -> bool:
    _, e, f = _fields64(bits)
    return e == 0x7FF and f == 0


def value64(bits: int) -> Fraction:
    """exact value of a finite binary64"""
    s, e, f = _fields64(bits)
    v = Fraction(f, 1 << 52) * Fraction(2) ** (-1022) if e == 0 else (1 + Fraction(f, 1 << 52)) * Fraction(2) ** (e - 1023)
    return -v if s else v


def nan_patterns(fmt: Fmt) -> frozenset[int]:
    sh = fmt.e + fmt.m
    signs = (0, 1) if fmt.has_sign else (0,)
    if fmt.nonfinite == "finite_only":
        return frozenset()
    if fmt.nonfinite == "ieee":
        return frozenset((s << sh) | (fmt.maxe << fmt.m) | f for s in signs for f in range(1, fmt.maxm + 1)) if fmt.m <= 12 else frozenset()
    if fmt.nan == "all_ones":
        return frozenset((s << sh) | (fmt.maxe << fmt.m) | fmt.maxm for s in signs)
    return frozenset({1 << sh})


def is_nan_pattern(fmt: Fmt, p: int) -> bool:
    sh = fmt.e + fmt.m
    ef, mf = (p >> fmt.m) & fmt.maxe, p & fmt.maxm
    if fmt.nonfinite == "finite_only":
        return False
    if fmt.nonfinite == "ieee":
        return ef == fmt.maxe and mf != 0
    if fmt.nan == "all_ones":
        return ef == fmt.maxe and mf == fmt.maxm
    return p == 1 << sh


def max_finite(fmt: Fmt) -> tuple[int, Fraction]:
    """(magnitude pattern, value) of the largest finite number"""
    if fmt.nonfinite == "ieee":
        ef, mf = fmt.maxe - 1, fmt.maxm
    elif fmt.nonfinite == "nan_only" and fmt.nan == "all_ones":
        ef, mf = (fmt.maxe, fmt.maxm - 1) if fmt.m > 0 else (fmt.maxe - 1, 0)
    else:
        ef, mf = fmt.maxe, fmt.maxm
    return (ef << fmt.m) | mf, _mag_value(fmt, ef, mf)


def _mag_value(fmt: Fmt, ef: int, mf: int) -> Fraction:
    if fmt.has_zero and ef == 0:
        return Fraction(mf, 1 << fmt.m) * Fraction(2) ** fmt.emin
    return (1 + Fraction(mf, 1 << fmt.m)) * Fraction(2) ** (ef - fmt.bias)


def _floor_log2(v: Fraction) -> int:
    n, d = v.numerator, v.denominator
    k = n.bit_length() - d.bit_length()
    if Fraction(2) ** k > v:
        k -= 1
    assert Fraction(2) ** k <= v < Fraction(2) ** (k + 1)
    return k


def _round_half_even(q: Fraction) -> int:
    n = q.numerator // q.denominator
    r = q - n
    if r > Fraction(1, 2) or (r == Fraction(1, 2) and n & 1):
        n += 1
    return n


def _round_magnitude(fmt: Fmt, v: Fraction) -> tuple[str, int, Fraction]:
    """round a positive rational to the format (nearest, ties to even, unbounded exponent upwards).
    -> ("ok", magnitude pattern, rounded value) | ("overflow", 0, rounded) | ("tiny", 0, 0)"""
    ex = _floor_log2(v)
    if ex < fmt.emin and not fmt.has_zero:
        # the format has neither zero nor subnormals: everything below the smallest value maps to it
        return "ok", 0, Fraction(2) ** fmt.emin
    eff = max(ex, fmt.emin)
    quantum = Fraction(2) ** (eff - fmt.m)
    n = _round_half_even(v / quantum)
    rounded = n * quantum
    if n == 0:
        return "tiny", 0, Fraction(0)
    if n >= 1 << (fmt.m + 1):       # carried into the next binade
        assert n == 1 << (fmt.m + 1)
        eff += 1
        n >>= 1
    if rounded > max_finite(fmt)[1]:
        return "overflow", 0, rounded
    if n < 1 << fmt.m:              # subnormal
        assert eff == fmt.emin and fmt.has_zero
        return "ok", n, rounded
    return "ok", ((eff + fmt.bias) << fmt.m) | (n - (1 << fmt.m)), rounded


def _f64_from_value(sign: int, v: Fraction) -> int:
    """binary64 bits of an exactly representable value"""
    if v == 0:
        return sign << 63
    st, mag, r = _round_magnitude(FORMATS["f64"], v)
    assert st == "ok" and r == v, "not exactly representable in binary64"
    return (sign << 63) | mag


def encode(fmt: Fmt, bits: int) -> Enc:
    """admissible patterns of `fmt` for the Python float with binary64 pattern `bits`"""
    if fmt.via is not None:
        first = encode(FORMATS[fmt.via], bits)
        if first.raises or first.exact is None:
            return first
        bits = decode(FORMATS[fmt.via], first.exact).bits  # exact widening of the intermediate value
    sign, _, frac = _fields64(bits)
    sh = fmt.e + fmt.m
    s = sign if fmt.has_sign else 0
    if is_nan64(bits):
        if fmt.nonfinite == "finite_only":
            return Enc(why="NaN parameter, format without NaN")
        if fmt.nan_policy == "exact":
            if fmt.m >= 52:
                return Enc(frozenset({bits}), why="NaN kept bit for bit")
            payload = (frac >> (52 - fmt.m)) | (1 << (fmt.m - 1))
            return Enc(frozenset({(s << sh) | (fmt.maxe << fmt.m) | payload}), why="NaN: sign and leading payload bits kept, quiet bit set")
        if fmt.nan_policy == "sign":
            return Enc(frozenset({(s << sh) | (fmt.maxe << fmt.m) | (1 << (fmt.m - 1))}), why="NaN: sign kept, canonical quiet payload")
        return Enc(nan_patterns(fmt), why="NaN: any NaN pattern of the format")
    if is_inf64(bits):
        return _overflow(fmt, s, finite=False)
    v = value64(bits)
    if v == 0:
        if not fmt.has_zero:
            return Enc(why="zero parameter, format without zero")
        if fmt.nan == "neg_zero":
            return Enc(frozenset({0}), why="the format has no negative zero")
        return Enc(frozenset({s << sh}), why="zero keeps its sign")
    if sign and not fmt.has_sign:
        return Enc(raises="ValueError", why="negative value, unsigned format")
    st, mag, _ = _round_magnitude(fmt, abs(v))
    if st == "overflow":
        return _overflow(fmt, s, finite=True)
    if st == "tiny":
        if fmt.nan == "neg_zero":
            return Enc(frozenset({0}), why="underflow to zero, no negative zero")
        return Enc(frozenset({s << sh}), why="underflow to zero keeps the sign")
    return Enc(frozenset({(s << sh) | mag}), why="nearest representable value, ties to even")


def _overflow(fmt: Fmt, s: int, finite: bool) -> Enc:
    sh = fmt.e + fmt.m
    if finite and fmt.overflow_raises:
        return Enc(raises="OverflowError", why="finite value too large for the struct format")
    if fmt.nonfinite == "ieee":
        return Enc(frozenset({(s << sh) | (fmt.maxe << fmt.m)}), why="infinity keeps its sign")
    if fmt.nonfinite == "nan_only":
        return Enc(nan_patterns(fmt), why="no infinity: NaN")
    return Enc(frozenset({(s << sh) | max_finite(fmt)[0]}), why="finite-only format saturates to the largest finite value")


@dataclasses.dataclass(frozen=True)
class Dec:
    bits: int | None          # binary64 pattern; None = some NaN
    why: str = ""

    def admits(self, b: int) -> bool:
        return is_nan64(b) if self.bits is None else b == self.bits


def decode(fmt: Fmt, p: int) -> Dec:
    """the Python float a `fmt` bit pattern denotes"""
    sh = fmt.e + fmt.m
    p &= (1 << fmt.width) - 1
    sign = (p >> sh) & 1 if fmt.has_sign else 0
    ef, mf = (p >> fmt.m) & fmt.maxe, p & fmt.maxm
    if is_nan_pattern(fmt, p):
        if fmt.nan_policy == "exact":
            if fmt.m >= 52:
                return Dec(p, "NaN kept bit for bit")
            return Dec((sign << 63) | (0x7FF << 52) | (1 << 51) | (mf << (52 - fmt.m)), "NaN widened: sign and payload kept, quiet bit set")
        if fmt.nan_policy == "sign":
            return Dec((sign << 63) | (0x7FF8 << 48), "NaN: sign kept, canonical payload")
        return Dec(None, "some NaN")
    if fmt.nonfinite == "ieee" and ef == fmt.maxe:
        return Dec((sign << 63) | (0x7FF << 52), "infinity")
    return Dec(_f64_from_value(sign, _mag_value(fmt, ef, mf)), "finite value")


def to_bytes(fmt: Fmt, pat: int) -> bytes:
    return pat.to_bytes(fmt.size, "little")


def stored_after_construction(fmt: Fmt, bits: int) -> tuple[Enc, Dec | None]:
    """what `FloatAttr(x, T)` must hold: decode(encode(x)) (None when the encoding is not unique)"""
    enc = encode(fmt, bits)
    if enc.raises:
        return enc, None
    if enc.exact is not None:
        return enc, decode(fmt, enc.exact)
    if enc.pats:
        ds = {decode(fmt, p).bits for p in enc.pats}
        if len(ds) == 1:
            return enc, Dec(next(iter(ds)))
    return enc, None


def interesting_patterns(fmt: Fmt, rng: Any, budget: int) -> list[int]:
    """bit patterns of the format: everything when it fits the budget; otherwise all the corner
    regions (both signs; zero, smallest/largest subnormal and normal, one, exponent all ones with
    every position of a single payload bit and the extreme payloads) plus a random sample"""
    w = fmt.width
    if (1 << w) <= budget:
        return list(range(1 << w))
    sh = fmt.e + fmt.m
    mags = {0, 1, 2, fmt.maxm, fmt.maxm + 1, fmt.bias << fmt.m, (fmt.bias << fmt.m) + 1, ((fmt.maxe - 1) << fmt.m) | fmt.maxm,
            (fmt.maxe << fmt.m) - 1, fmt.maxe << fmt.m, (fmt.maxe << fmt.m) | fmt.maxm, (fmt.maxe << fmt.m) | (fmt.maxm - 1)}
    for k in range(fmt.m):
        mags.add((fmt.maxe << fmt.m) | (1 << k))                       # NaN, one payload bit
        mags.add((fmt.maxe << fmt.m) | (1 << k) | (1 << (fmt.m - 1)))  # the same, quiet
        mags.add((fmt.bias << fmt.m) | (1 << k))
    pats = set()
    for g in mags:
        g &= (1 << sh) - 1
        pats.add(g)
        if fmt.has_sign:
            pats.add(g | (1 << sh))
    out = sorted(pats)
    while len(out) < budget:
        r = rng.random()
        if r < 0.25:   # NaN region
            p = (rng.getrandbits(1) << sh) | (fmt.maxe << fmt.m) | rng.getrandbits(fmt.m)
        elif r < 0.4:  # subnormals
            p = (rng.getrandbits(1) << sh) | rng.getrandbits(fmt.m)
        else:
            p = rng.getrandbits(w)
        out.append(p & ((1 << w) - 1))
    return out


def interesting_parameters(fmt: Fmt, rng: Any, n_random: int) -> list[int]:
    """binary64 parameters: NaNs of both signs with quiet / signalling / high / low-only payloads,
    infinities, zeros, binary64 subnormals, the rounding boundaries of the format (midpoints between
    neighbouring representable values and their binary64 neighbours), the overflow threshold, random"""
    out: list[int] = []
    for s in (0, 1):
        for frac in (1 << 51, (1 << 51) | 1, 1, 1 << 50, (1 << 50) | (1 << 20), (1 << 52) - 1, 1 << 29, 1 << 28, (1 << 51) | (1 << 45), 1 << 45,
                     (1 << 51) | (1 << (52 - min(fmt.m, 51))), 1 << (52 - min(fmt.m, 51)), (1 << 42), (1 << 41)):
            out.append((s << 63) | (0x7FF << 52) | frac)
        out += [(s << 63) | (0x7FF << 52), s << 63, (s << 63) | 1, (s << 63) | ((1 << 52) - 1), (s << 63) | (0x3FF << 52)]
    # rounding boundaries: for a handful of neighbouring magnitude patterns a < b: the midpoint and its neighbours
    f64 = FORMATS["f64"]
    top, _ = max_finite(fmt)
    mags = sorted({0, 1, 2, fmt.maxm - 1, fmt.maxm, fmt.maxm + 1, (fmt.bias << fmt.m), (fmt.bias << fmt.m) + 1, (fmt.bias << fmt.m) + 2,
                   max(top - 2, 0), max(top - 1, 0), top} | {rng.randrange(0, top + 1) for _ in range(6)})
    for g in mags:
        if g > top:
            continue
        ef, mf = g >> fmt.m, g & fmt.maxm
        a = _mag_value(fmt, ef, mf)
        if not fmt.has_zero and g == 0:
            cand = [a, a / 2, a / 3, a * Fraction(3, 4)]
        else:
            cand = [a]
        if g < top:
            h = g + 1
            b = _mag_value(fmt, h >> fmt.m, h & fmt.maxm)
        else:   # beyond the largest finite value: the next value the format would have with one more exponent
            b = a + (a - _mag_value(fmt, (g - 1) >> fmt.m, (g - 1) & fmt.maxm)) if g > 0 else a * 2
        cand += [(a + b) / 2, b]
        for v in cand:
            if v == 0:
                continue
            st, mag, r = _round_magnitude(f64, v)
            if st != "ok":
                continue
            for d in (-1, 0, 1):
                q = mag + d
                if 0 < q < (0x7FF << 52):
                    out += [q, q | (1 << 63)]
    for _ in range(n_random):
        r = rng.random()
        if r < 0.3:
            out.append((rng.getrandbits(1) << 63) | (0x7FF << 52) | rng.randrange(1, 1 << 52))
        elif r < 0.8:
            # a random value in the range of the format
            ex = rng.randint(fmt.emin - fmt.m - 2, fmt.maxe - fmt.bias + 1) + 1023
            if 0 < ex < 0x7FF:
                out.append((rng.getrandbits(1) << 63) | (ex << 52) | rng.getrandbits(52))
        else:
            out.append(rng.getrandbits(64))
    seen, uniq = set(), []
    for b in out:
        if b not in seen:
            seen.add(b)
            uniq.append(b)
    return uniq
