"""C09 — IRDL attribute constraints accept exactly what they describe."""
import functools
import itertools
import json
import operator
from typing import Any

from vp import core

META = {
    "title": "IRDL attribute constraints accept exactly what they describe",
    "category": "proof",
    "design_ref": "DESIGN.md §5 C09",
    "lean_modules": ["XdslProofs.C09", "XdslProofs.C09Simplify", "XdslProofs.C09Infer", "XdslProofs.C09Hints"],
    "text": (
        "Lean theorems over the constraint AST of XdslModel/Constraint.lean (a statement-by-statement model of "
        "AnyAttr/Eq/AttrSet/BaseAttr/AnyOf incl. its class-dispatch table and constructor check/AllOf/"
        "ParamAttrConstraint/VarConstraint/MessageConstraint/TypeVarConstraint/ArrayOfConstraint, "
        "get_bases, relax_constraint, __or__, AnyOf.get, can_infer/infer, mapping_type_vars, the hint "
        "fragment of irdl_to_attr_constraint and isa): verify succeeds exactly when a variable assignment "
        "satisfies the declarative meaning (union = some alternative, intersection = all, base/eq/set/param = "
        "class and parameters, variable = every occurrence equal), for every class table, constraint tree, "
        "attribute and context; get_bases is sound; relax/|/AnyOf.get/ParamAttrConstraint.get/"
        "mapping_type_vars preserve the meaning; isa agrees with the converted constraint; an inferred "
        "attribute verifies (AllOf: see known finding). The model is tied to /repo by differential "
        "correspondence on generated constraint trees x attributes, and the real verify is compared with an "
        "independent solution-set evaluator written from the property sentence."
    ),
    "technique": "Lean 4 proofs by structural/fuel induction on the constraint AST + differential correspondence + independent reference evaluator",
    "level_note": (
        "Trusted: Lean kernel; hand-written model XdslModel/Constraint.lean tied by correspondence only "
        "(bounded-exhaustive small scope + random trees); Python typing reflection (get_origin/get_args) and "
        "class-definition invariants enforced by ParametrizedAttribute.new are outside the model (cases where "
        "infer/ParamAttrConstraint.get raise from `new` are counted and excluded). Excluded from the oracle "
        "(outside the intended API, correspondence still checked): two VarConstraints with the same name but "
        "different constraints, and a VarConstraint whose own constraint mentions the same name. "
        "isa() does not support Annotated hints (raises ValueError): only the conversion is compared there. "
        "Custom constraint subclasses of dialects other than builtin.ArrayOfConstraint are not modelled. "
        "History independence (constraint objects shared between trees: acceptance tables and get_bases() of every "
        "pooled object must not change over time, and sets returned by get_bases() may be modified by the caller) is "
        "checked by the harness on the real objects only; the Lean model is a pure function of the tree, which is "
        "exactly the behaviour the histories are compared against."
    ),
    "rule": (
        "verify: (declarations, constraint tree, attribute, initial context) with >=1 composite node "
        "(AnyOf/AllOf/Param/Var/ArrayOf); merge: list of alternatives given to AnyOf.get / `|` where >=1 "
        "relax step or flattening applies; infer: (operand constraint, attribute, result constraint) with "
        "can_infer true; hints: (hint, attribute) with a union or generic node; var_equality: every pair of first/later "
        "occurrence values from {IntAttr(0), IntegerAttr(0,t), [] (falsy), IntAttr(1), '', 'a', i32, [0], IntegerAttr(1,t)} "
        "in 6 Pair/ArrayOf/AllOf/AnyOf shapes x 3 declared constraints; shared_histories: operation sequences "
        "(create leaf/AnyOf/AllOf/Param/Var/Msg/ArrayOf from pooled objects, AnyOf.get, |, &, get_bases, verify, infer, "
        "recheck) over one pool of shared constraint objects, non-trivial = contains a composite built from pooled "
        "objects. Distinct = distinct protocol line / operation sequence."
    ),
    "trusted_base": [
        "correspondence harness harness/props/c09.py (differential, bounded-exhaustive + random)",
        "hand-written Lean model of xdsl/irdl/constraints.py, irdl_to_attr_constraint (hint fragment), hints.isa",
        "reference evaluator ref_sols in harness/props/c09.py (declarative solution sets)",
    ],
    "budget": {"quick": 120, "thorough": 1100},
}

STRINGS = ["", "a", "b", "c", "foo", "bar"]


class Unsupported(Exception):
    pass


# ---------------------------------------------------------------------------------------------
# universe of real classes
# ---------------------------------------------------------------------------------------------

class Universe:
    def __init__(self) -> None:
        from abc import ABC

        from xdsl.dialects import builtin as b
        from xdsl.ir import Attribute, Data, ParametrizedAttribute, TypeAttribute, TypedAttribute
        from xdsl.ir.core import BuiltinAttribute
        from xdsl.irdl import irdl_attr_definition
        from xdsl.utils.runtime_final import is_runtime_final

        class TestBase(ParametrizedAttribute, ABC):
            pass

        @irdl_attr_definition
        class SubA(TestBase):
            name = "c09.sub_a"
            x: Attribute

        @irdl_attr_definition
        class SubB(TestBase):
            name = "c09.sub_b"
            x: Attribute

        @irdl_attr_definition
        class Pair(ParametrizedAttribute):
            name = "c09.pair"
            a: Attribute
            b: Attribute

        @irdl_attr_definition
        class Box(ParametrizedAttribute):
            name = "c09.box"
            a: Attribute

        @irdl_attr_definition
        class Nil(ParametrizedAttribute):
            name = "c09.nil"

        self.b = b
        self.custom = {"TestBase": TestBase, "SubA": SubA, "SubB": SubB, "Pair": Pair, "Box": Box, "Nil": Nil}
        named: list[tuple[str, type]] = [
            ("Attribute", Attribute), ("TypeAttribute", TypeAttribute), ("ParametrizedAttribute", ParametrizedAttribute),
            ("Data", Data), ("BuiltinAttribute", BuiltinAttribute), ("FixedBitwidthType", b.FixedBitwidthType),
            ("_FloatType", b._FloatType), ("ShapedType", b.ShapedType), ("ContainerType", b.ContainerType),
            ("TypedAttribute", TypedAttribute), ("MemRefLayoutAttr", b.MemRefLayoutAttr), ("TestBase", TestBase),
            ("IntegerType", b.IntegerType), ("IndexType", b.IndexType), ("Float32Type", b.Float32Type),
            ("Float64Type", b.Float64Type), ("IntegerAttr", b.IntegerAttr), ("UnitAttr", b.UnitAttr),
            ("NoneAttr", b.NoneAttr), ("TensorType", b.TensorType), ("VectorType", b.VectorType),
            ("MemRefType", b.MemRefType), ("ComplexType", b.ComplexType), ("TupleType", b.TupleType),
            ("StringAttr", b.StringAttr), ("IntAttr", b.IntAttr), ("SignednessAttr", b.SignednessAttr),
            ("ArrayAttr", b.ArrayAttr), ("SubA", SubA), ("SubB", SubB), ("Pair", Pair), ("Box", Box), ("Nil", Nil),
        ]
        self.names = [n for n, _ in named]
        self.classes = [c for _, c in named]
        self.cid = {c: i for i, c in enumerate(self.classes)}
        self.by_name = {n: i for i, n in enumerate(self.names)}
        self.final = [is_runtime_final(c) for c in self.classes]
        self.is_param = [issubclass(c, ParametrizedAttribute) for c in self.classes]
        self.nparams = [
            len(c.get_irdl_definition().parameters) if (f and p) else 0
            for c, f, p in zip(self.classes, self.final, self.is_param)
        ]
        self.supers = [
            [j for j, d in enumerate(self.classes) if j != i and issubclass(c, d)] for i, c in enumerate(self.classes)
        ]
        self.root = self.cid[Attribute]
        self.array = self.cid[b.ArrayAttr]
        self.signs = list(b.Signedness)
        # assumptions of the Lean theorems about the class table (UnivOK), checked on the real classes
        for i, c in enumerate(self.classes):
            if self.final[i]:
                for j, d in enumerate(self.classes):
                    if j != i and issubclass(d, c):
                        raise core.InfraError(f"runtime-final class {c} has subclass {d}")
        self.type_vars: list[Any] = []

    def lines(self) -> list[str]:
        out = ["reset"]
        for i in range(len(self.classes)):
            out.append(
                f"class {i} {int(self.final[i])} {int(self.is_param[i])} {self.nparams[i]}"
                + "".join(f" {s}" for s in self.supers[i])
            )
        return out

    def issub(self, c: int, d: int) -> bool:
        return issubclass(self.classes[c], self.classes[d])

    # ---- attributes: AST <-> real ------------------------------------------------------------
    def enc_payload(self, a: Any) -> int:
        b = self.b
        if isinstance(a, b.IntAttr):
            v = a.data
            return 2 * v if v >= 0 else -2 * v - 1
        if isinstance(a, b.StringAttr):
            if a.data not in STRINGS:
                raise Unsupported(f"string {a.data!r}")
            return STRINGS.index(a.data)
        if isinstance(a, b.SignednessAttr):
            return self.signs.index(a.data)
        raise Unsupported(f"data attribute {type(a).__name__}")

    def dec_payload(self, cid: int, p: int) -> Any:
        b = self.b
        cls = self.classes[cid]
        if cls is b.IntAttr:
            return b.IntAttr(p // 2 if p % 2 == 0 else -(p + 1) // 2)
        if cls is b.StringAttr:
            return b.StringAttr(STRINGS[p])
        if cls is b.SignednessAttr:
            return b.SignednessAttr(self.signs[p])
        raise Unsupported(f"payload for {cls}")

    def enc_attr(self, a: Any) -> tuple:
        from xdsl.ir import ParametrizedAttribute

        t = type(a)
        if t not in self.cid:
            raise Unsupported(f"class {t.__name__}")
        if t is self.b.ArrayAttr:
            return ("A", self.cid[t], tuple(self.enc_attr(e) for e in a.data))
        if isinstance(a, ParametrizedAttribute):
            return ("P", self.cid[t], tuple(self.enc_attr(p) for p in a.parameters))
        return ("D", self.cid[t], self.enc_payload(a))

    def dec_attr(self, t: tuple) -> Any:
        if t[0] == "A":
            return self.b.ArrayAttr(tuple(self.dec_attr(e) for e in t[2]))
        if t[0] == "P":
            return self.classes[t[1]].new([self.dec_attr(p) for p in t[2]])
        return self.dec_payload(t[1], t[2])

    # ---- constraints: real -> AST ---------------------------------------------------------------
    def tv_id(self, tv: Any) -> int:
        for i, t in enumerate(self.type_vars):
            if t is tv:
                return i
        self.type_vars.append(tv)
        return len(self.type_vars) - 1

    def enc_c(self, c: Any) -> tuple:
        from xdsl.irdl import (AllOf, AnyAttr, AnyOf, AttrSetConstraint, BaseAttr, EqAttrConstraint, MessageConstraint,
                               ParamAttrConstraint, RangeOf, VarConstraint)
        from xdsl.irdl.constraints import TypeVarConstraint

        t = type(c)
        if t is AnyAttr:
            return ("any",)
        if t is EqAttrConstraint:
            return ("eq", self.enc_attr(c.attr))
        if t is AttrSetConstraint:
            return ("set", tuple(sorted((self.enc_attr(v) for v in c.values), key=ser_a)))
        if t is BaseAttr:
            if c.attr not in self.cid:
                raise Unsupported(f"class {c.attr.__name__}")
            return ("base", self.cid[c.attr])
        if t is AnyOf:
            return ("anyOf", tuple(self.enc_c(x) for x in c.attr_constrs))
        if t is AllOf:
            return ("allOf", tuple(self.enc_c(x) for x in c.attr_constrs))
        if t is ParamAttrConstraint:
            if c.base_attr not in self.cid:
                raise Unsupported(f"class {c.base_attr.__name__}")
            return ("param", self.cid[c.base_attr], tuple(self.enc_c(x) for x in c.param_constrs))
        if t is VarConstraint:
            if not (c.name.startswith("T") and c.name[1:].isdigit()):
                raise Unsupported("var name")
            return ("var", int(c.name[1:]), self.enc_c(c.constraint))
        if t is MessageConstraint:
            if not (c.message.startswith("m") and c.message[1:].isdigit()):
                raise Unsupported("message")
            return ("msg", int(c.message[1:]), self.enc_c(c.constr))
        if t is TypeVarConstraint:
            return ("tvar", self.tv_id(c.type_var), self.enc_c(c.base_constraint))
        if t is self.b.ArrayOfConstraint:
            r = c.elem_range_constraint
            if type(r) is not RangeOf:
                raise Unsupported("range constraint")
            return ("arrayOf", self.array, self.enc_c(r.constr))
        raise Unsupported(f"constraint {t.__name__}")

    # ---- constraints: AST -> real; may raise PyRDLError exactly where the real constructor does ---
    def build_c(self, c: tuple, mk_log: list | None = None) -> Any:
        from xdsl.irdl import (AllOf, AnyAttr, AnyOf, AttrSetConstraint, BaseAttr, EqAttrConstraint, MessageConstraint,
                               ParamAttrConstraint, VarConstraint)
        from xdsl.irdl.constraints import TypeVarConstraint
        from xdsl.utils.exceptions import PyRDLError

        k = c[0]
        if k == "any":
            return AnyAttr()
        if k == "eq":
            return EqAttrConstraint(self.dec_attr(c[1]))
        if k == "set":
            return AttrSetConstraint(frozenset(self.dec_attr(v) for v in c[1]))
        if k == "base":
            return BaseAttr(self.classes[c[1]])
        if k == "anyOf":
            kids = tuple(self.build_c(x, mk_log) for x in c[1])
            try:
                r = AnyOf(kids)
            except PyRDLError:
                if mk_log is not None:
                    mk_log.append((c[1], "raise PyRDLError"))
                raise
            if mk_log is not None:
                mk_log.append((c[1], "ok"))
            return r
        if k == "allOf":
            return AllOf(tuple(self.build_c(x, mk_log) for x in c[1]))
        if k == "param":
            return ParamAttrConstraint(self.classes[c[1]], tuple(self.build_c(x, mk_log) for x in c[2]))
        if k == "var":
            return VarConstraint(f"T{c[1]}", self.build_c(c[2], mk_log))
        if k == "msg":
            return MessageConstraint(self.build_c(c[2], mk_log), f"m{c[1]}")
        if k == "tvar":
            return TypeVarConstraint(self.type_vars[c[1]], self.build_c(c[2], mk_log))
        if k == "arrayOf":
            return self.b.ArrayOfConstraint(self.build_c(c[2], mk_log))
        raise Unsupported(k)


_UNIV: Universe | None = None


def universe() -> Universe:
    global _UNIV
    if _UNIV is None:
        _UNIV = Universe()
    return _UNIV


# ---------------------------------------------------------------------------------------------
# protocol serialisation (AST -> line text) and parsing (line text -> AST, for replays)
# ---------------------------------------------------------------------------------------------

def ser_a(a: tuple) -> str:
    if a[0] == "D":
        return f"D {a[1]} {a[2]}"
    return f"{a[0]} {a[1]} {len(a[2])}" + "".join(" " + ser_a(x) for x in a[2])


def ser_c(c: tuple) -> str:
    k = c[0]
    if k == "any":
        return "any"
    if k == "eq":
        return "eq " + ser_a(c[1])
    if k == "set":
        return f"set {len(c[1])}" + "".join(" " + s for s in sorted(ser_a(v) for v in c[1]))
    if k == "base":
        return f"base {c[1]}"
    if k in ("anyOf", "allOf"):
        return f"{k} {len(c[1])}" + "".join(" " + ser_c(x) for x in c[1])
    if k == "param":
        return f"param {c[1]} {len(c[2])}" + "".join(" " + ser_c(x) for x in c[2])
    if k in ("var", "msg", "tvar", "arrayOf"):
        return f"{k} {c[1]} " + ser_c(c[2])
    raise Unsupported(k)


def ser_ctx(b: dict) -> str:
    return f"{len(b)}" + "".join(f" {n} {ser_a(b[n])}" for n in sorted(b))


def ser_h(h: tuple) -> str:
    k = h[0]
    if k == "cls":
        return f"cls {h[1]} {int(h[2])}"
    if k in ("union", "annotated"):
        return f"{k} {len(h[1])}" + "".join(" " + ser_h(x) for x in h[1])
    if k == "generic":
        # ("generic", cid, template AST, tvars, args)
        return ("generic " + ser_c(h[2]) + f" {len(h[3])}" + "".join(f" {t}" for t in h[3])
                + f" {len(h[4])}" + "".join(" " + ser_h(x) for x in h[4]))
    raise Unsupported(k)


def _p_attr(t: list, i: int) -> tuple[tuple, int]:
    if t[i] == "D":
        return ("D", int(t[i + 1]), int(t[i + 2])), i + 3
    kind, cid, n = t[i], int(t[i + 1]), int(t[i + 2])
    i += 3
    xs = []
    for _ in range(n):
        x, i = _p_attr(t, i)
        xs.append(x)
    return (kind, cid, tuple(xs)), i


def _p_c(t: list, i: int) -> tuple[tuple, int]:
    k = t[i]
    if k == "any":
        return ("any",), i + 1
    if k == "eq":
        a, i = _p_attr(t, i + 1)
        return ("eq", a), i
    if k == "set":
        n = int(t[i + 1]); i += 2
        xs = []
        for _ in range(n):
            x, i = _p_attr(t, i); xs.append(x)
        return ("set", tuple(xs)), i
    if k == "base":
        return ("base", int(t[i + 1])), i + 2
    if k in ("anyOf", "allOf"):
        n = int(t[i + 1]); i += 2
        xs = []
        for _ in range(n):
            x, i = _p_c(t, i); xs.append(x)
        return (k, tuple(xs)), i
    if k == "param":
        d, n = int(t[i + 1]), int(t[i + 2]); i += 3
        xs = []
        for _ in range(n):
            x, i = _p_c(t, i); xs.append(x)
        return ("param", d, tuple(xs)), i
    if k in ("var", "msg", "tvar", "arrayOf"):
        x, j = _p_c(t, i + 2)
        return (k, int(t[i + 1]), x), j
    raise Unsupported(k)


def parse_a(s: str) -> tuple:
    return _p_attr(s.split(), 0)[0]


def parse_c(s: str) -> tuple:
    return _p_c(s.split(), 0)[0]


def parse_ctx(s: str) -> dict:
    t = s.split()
    n, i = int(t[0]), 1
    out = {}
    for _ in range(n):
        k = int(t[i])
        a, i = _p_attr(t, i + 1)
        out[k] = a
    return out


# ---------------------------------------------------------------------------------------------
# independent reference evaluator (declarative solution sets) — written from the property sentence
# ---------------------------------------------------------------------------------------------
EMPTY: frozenset = frozenset()


def _join(s1: set, s2: set) -> set:
    out = set()
    for x in s1:
        dx = dict(x)
        for y in s2:
            ok = True
            for k, v in y:
                if k in dx and dx[k] != v:
                    ok = False
                    break
            if ok:
                out.add(x | y)
    return out


def ref_sols(U: Universe, c: tuple, a: tuple) -> set:
    """all minimal variable assignments under which attribute `a` is in the set described by `c`"""
    k = c[0]
    if k == "any":
        return {EMPTY}
    if k == "eq":
        return {EMPTY} if a == c[1] else set()
    if k == "set":
        return {EMPTY} if a in c[1] else set()
    if k == "base":
        return {EMPTY} if U.issub(a[1], c[1]) else set()
    if k == "anyOf":  # a union accepts what some alternative accepts
        out: set = set()
        for x in c[1]:
            out |= ref_sols(U, x, a)
        return out
    if k == "allOf":  # an intersection what all accept
        out = {EMPTY}
        for x in c[1]:
            out = _join(out, ref_sols(U, x, a))
            if not out:
                break
        return out
    if k == "param":  # class and parameters
        if not U.issub(a[1], c[1]) or a[0] != "P" or len(a[2]) != len(c[2]):
            return set()
        out = {EMPTY}
        for x, p in zip(c[2], a[2]):
            out = _join(out, ref_sols(U, x, p))
            if not out:
                break
        return out
    if k == "var":  # all occurrences equal: the assignment maps the name to this very attribute
        return _join(ref_sols(U, c[2], a), {frozenset({(c[1], a)})})
    if k in ("msg", "tvar"):
        return ref_sols(U, c[2], a)
    if k == "arrayOf":
        if not U.issub(a[1], c[1]) or a[0] != "A":
            return set()
        out = {EMPTY}
        for e in a[2]:
            out = _join(out, ref_sols(U, c[2], e))
            if not out:
                break
        return out
    raise Unsupported(k)


def var_decls(c: tuple, acc: dict | None = None) -> dict:
    """name -> set of constraints it is declared with"""
    acc = {} if acc is None else acc
    k = c[0]
    if k in ("anyOf", "allOf"):
        for x in c[1]:
            var_decls(x, acc)
    elif k == "param":
        for x in c[2]:
            var_decls(x, acc)
    elif k == "var":
        acc.setdefault(c[1], set()).add(c[2])
        var_decls(c[2], acc)
    elif k in ("msg", "tvar", "arrayOf"):
        var_decls(c[2], acc)
    return acc


def well_declared(cs: list[tuple]) -> bool:
    """every variable name carries one constraint and that constraint does not mention the name"""
    acc: dict = {}
    for c in cs:
        var_decls(c, acc)
    for n, ds in acc.items():
        if len(ds) != 1:
            return False
        if n in var_decls(next(iter(ds))):
            return False
    return True


def arity_ok(U: "Universe", c: tuple) -> bool:
    k = c[0]
    if k in ("anyOf", "allOf"):
        return all(arity_ok(U, x) for x in c[1])
    if k == "param":
        return (not U.final[c[1]] or len(c[2]) == U.nparams[c[1]]) and all(arity_ok(U, x) for x in c[2])
    if k in ("var", "msg", "tvar", "arrayOf"):
        return arity_ok(U, c[2])
    return True


def has_composite(c: tuple) -> bool:
    return c[0] in ("anyOf", "allOf", "param", "var", "arrayOf") or (c[0] in ("msg", "tvar") and has_composite(c[2]))


# ---------------------------------------------------------------------------------------------
# running the real code
# ---------------------------------------------------------------------------------------------

def impl_verify(U: Universe, cr: Any, a: tuple, binding: dict) -> tuple[str, dict | None]:
    from xdsl.irdl import ConstraintContext
    from xdsl.utils.exceptions import VerifyException

    ctx = ConstraintContext()
    for n, v in binding.items():
        ctx.set_attr_variable(f"T{n}", U.dec_attr(v))
    try:
        cr.verify(U.dec_attr(a), ctx)
    except VerifyException:
        return "fail", None
    except Exception as e:  # noqa: BLE001
        return "raise " + core.exc_name(e), None
    out = {int(k[1:]): U.enc_attr(ctx.get_variable(k)) for k in ctx.attr_variables}
    return "ok" + "".join(f" {n} {ser_a(out[n])}" for n in sorted(out)), out


def safe_verifies(cr: Any, ar: Any) -> bool | None:
    """`verifies`; None when verify raises something other than VerifyException (reported by the
    verify oracle on its own, not by the checks that merely use `verifies`)"""
    try:
        return cr.verifies(ar)
    except Exception:  # noqa: BLE001
        return None


def readable(U: Universe, c: tuple | None = None, a: tuple | None = None) -> str:
    try:
        s = []
        if c is not None:
            s.append(repr(U.build_c(c)))
        if a is not None:
            s.append(str(U.dec_attr(a)))
        return " ; ".join(s)
    except Exception as e:  # noqa: BLE001
        return f"<{core.exc_name(e)}>"


# ---------------------------------------------------------------------------------------------
# generators
# ---------------------------------------------------------------------------------------------

class Gen:
    def __init__(self, U: Universe, rng: Any):
        self.U, self.rng = U, rng
        b = U.b
        n = U.by_name
        P = lambda name, *ps: ("P", n[name], tuple(ps))  # noqa: E731
        I = lambda v: ("D", n["IntAttr"], 2 * v if v >= 0 else -2 * v - 1)  # noqa: E731
        S = lambda s: ("D", n["StringAttr"], STRINGS.index(s))  # noqa: E731
        sg = lambda k: ("D", n["SignednessAttr"], k)  # noqa: E731
        A = lambda *xs: ("A", n["ArrayAttr"], tuple(xs))  # noqa: E731
        self.P, self.I, self.S, self.A = P, I, S, A
        i1, i32, i64 = (P("IntegerType", I(w), sg(0)) for w in (1, 32, 64))
        index, f32, f64 = P("IndexType"), P("Float32Type"), P("Float64Type")
        unit, none, nil = P("UnitAttr"), P("NoneAttr"), P("Nil")
        self.types = [i1, i32, i64, index, f32, f64]
        leaves = self.types + [unit, none, nil, S("a"), S("b"), S(""), I(0), I(1), I(-1), I(7)]
        ia = [P("IntegerAttr", I(v), t) for v in (0, 1, 5) for t in (i32, i64, index)]
        shaped = []
        for t in (i32, f32, index):
            shaped.append(P("TensorType", A(I(2), I(3)), t, none))
            shaped.append(P("VectorType", t, A(I(4)), A(P("IntegerAttr", I(0), i1))))
            shaped.append(P("MemRefType", A(I(2)), t, none, none))
        other = [P("ComplexType", f32), P("TupleType", A(i32, f32)), P("TupleType", A()), A(), A(i32), A(S("a"), S("b")),
                 A(I(1), I(2)), A(ia[0], ia[1])]
        self.valid_builtin = leaves + ia + shaped + other
        # validate the hand-written encodings against the real constructors once
        for a in self.valid_builtin:
            if U.enc_attr(U.dec_attr(a)) != a:
                raise core.InfraError(f"attribute encoding does not round-trip: {a}")
        assert U.dec_attr(i32) == b.i32 and U.dec_attr(index) == b.IndexType() and U.dec_attr(ia[0]) == b.IntegerAttr(0, 32)
        self.leaves = leaves
        self.small = leaves + ia[:4] + shaped[:3] + other

    # -- attributes
    def attr(self, d: int = 2) -> tuple:
        r = self.rng
        if d <= 0 or r.random() < 0.45:
            return r.choice(self.small)
        k = r.random()
        P = self.P
        if k < 0.25:
            return P("Pair", self.attr(d - 1), self.attr(d - 1))
        if k < 0.45:
            return P("Box", self.attr(d - 1))
        if k < 0.6:
            return P(r.choice(["SubA", "SubB"]), self.attr(d - 1))
        if k < 0.8:
            return self.A(*(self.attr(d - 1) for _ in range(r.randint(0, 3))))
        return r.choice(self.valid_builtin)

    def attr_of_class(self, cid: int) -> tuple | None:
        U, r = self.U, self.rng
        cands = [a for a in self.small if U.issub(a[1], cid)]
        name = U.names[cid]
        if name in ("Pair", "Box", "SubA", "SubB", "TestBase", "ParametrizedAttribute", "Attribute") and r.random() < 0.6:
            nm = name if name in ("Pair", "Box", "SubA", "SubB") else r.choice(["Pair", "Box", "SubA", "SubB"])
            return self.P(nm, *(self.attr(1) for _ in range(U.nparams[U.by_name[nm]])))
        if name in ("ArrayAttr", "Data", "BuiltinAttribute", "Attribute") and r.random() < 0.4:
            return self.A(*(self.attr(1) for _ in range(r.randint(0, 3))))
        return r.choice(cands) if cands else None

    # -- constraints
    def leaf_c(self, avail: dict) -> tuple:
        r, U = self.rng, self.U
        k = r.random()
        if k < 0.08:
            return ("any",)
        if k < 0.38:
            return ("eq", self.attr(1))
        if k < 0.5:
            vs = []
            for _ in range(r.randint(0, 4)):
                a = self.attr(1)
                if a not in vs:
                    vs.append(a)
            return ("set", tuple(vs))
        if k < 0.85 or not avail:
            return ("base", r.randrange(len(U.classes)))
        n = r.choice(sorted(avail))
        return ("var", n, avail[n])

    def anchored(self, cid: int, d: int, avail: dict) -> tuple:
        """a constraint whose bases are (mostly) exactly {cid}"""
        r, U = self.rng, self.U
        k = r.random()
        a = self.attr_of_class(cid)
        if U.final[cid] and a is not None and k < 0.3:
            return ("eq", a)
        if U.final[cid] and a is not None and k < 0.4:
            b2 = self.attr_of_class(cid) or a
            return ("set", tuple(dict.fromkeys([a, b2])))
        if U.is_param[cid] and U.final[cid] and k < 0.75:
            return ("param", cid, tuple(self.c(d - 1, avail) for _ in range(U.nparams[cid])))
        if cid == U.array and k < 0.75:
            return ("arrayOf", cid, self.c(d - 1, avail))
        return ("base", cid)

    def c(self, d: int, avail: dict) -> tuple:
        r, U = self.rng, self.U
        if d <= 0 or r.random() < 0.3:
            return self.leaf_c(avail)
        k = r.random()
        if k < 0.27:
            n = r.randint(0, 4) if r.random() < 0.15 else r.randint(2, 4)
            if r.random() < 0.8:
                cids = r.sample(range(len(U.classes)), n)
                # at most one non-final class, and prefer final ones
                fin = [x for x in cids if U.final[x]]
                abst = [x for x in cids if not U.final[x]][: (1 if r.random() < 0.4 else 0)]
                cids = fin + abst
                r.shuffle(cids)
                return ("anyOf", tuple(self.anchored(x, d, avail) for x in cids))
            return ("anyOf", tuple(self.c(d - 1, avail) for _ in range(n)))
        if k < 0.45:
            n = r.randint(0, 3)
            if r.random() < 0.5 and n >= 1:
                # conjuncts that have a chance of being jointly satisfiable
                cid = r.randrange(len(U.classes))
                return ("allOf", tuple(self.anchored(cid, d, avail) if r.random() < 0.6 else self.c(d - 1, avail) for _ in range(n)))
            return ("allOf", tuple(self.c(d - 1, avail) for _ in range(n)))
        if k < 0.75:
            cands = [i for i in range(len(U.classes)) if U.is_param[i]]
            cid = r.choice(cands)
            if r.random() < 0.5:
                cid = U.by_name[r.choice(["Pair", "Box", "SubA", "SubB", "TestBase", "IntegerAttr", "Nil"])]
            np = U.nparams[cid] if U.final[cid] else 1
            if r.random() < 0.04:
                np = max(0, np + r.choice([-1, 1]))
            return ("param", cid, tuple(self.c(d - 1, avail) for _ in range(np)))
        if k < 0.85 and avail:
            n = r.choice(sorted(avail))
            return ("var", n, avail[n])
        if k < 0.92:
            return ("msg", r.randint(0, 3), self.c(d - 1, avail))
        return ("arrayOf", U.array, self.c(d - 1, avail))

    def decls(self, nv: int, d: int = 1) -> dict:
        out: dict = {}
        for i in range(nv):
            out[i] = self.c(d, dict(out))
        return out

    # -- an attribute with a good chance of satisfying `c`
    def sample(self, c: tuple, env: dict, d: int = 3) -> tuple:
        r, U = self.rng, self.U
        k = c[0]
        if d <= 0 or k == "any":
            return self.attr(1)
        if k == "eq":
            return c[1]
        if k == "set":
            return r.choice(c[1]) if c[1] else self.attr(1)
        if k == "base":
            return self.attr_of_class(c[1]) or self.attr(1)
        if k in ("anyOf", "allOf"):
            return self.sample(r.choice(c[1]), env, d - 1) if c[1] else self.attr(1)
        if k == "param":
            cid = c[1]
            if not U.final[cid]:
                subs = [i for i in range(len(U.classes)) if U.final[i] and U.is_param[i] and U.issub(i, cid) and U.nparams[i] == len(c[2])]
                if not subs:
                    return self.attr(1)
                cid = r.choice(subs)
            ps = tuple(self.sample(x, env, d - 1) for x in c[2])
            a = ("P", cid, ps)
            try:
                U.dec_attr(a)
                return a
            except Exception:  # noqa: BLE001  class invariants of builtin classes
                return self.attr_of_class(cid) or self.attr(1)
        if k == "var":
            if c[1] not in env:
                env[c[1]] = self.sample(c[2], env, d - 1)
            return env[c[1]]
        if k in ("msg", "tvar"):
            return self.sample(c[2], env, d - 1)
        if k == "arrayOf":
            return ("A", c[1], tuple(self.sample(c[2], env, d - 1) for _ in range(r.randint(0, 3))))
        raise Unsupported(k)

    def mutate(self, a: tuple) -> tuple:
        r = self.rng
        if a[0] in ("P", "A") and a[2] and r.random() < 0.7:
            i = r.randrange(len(a[2]))
            if a[0] == "P" and self.U.names[a[1]] not in ("Pair", "Box", "SubA", "SubB"):
                return self.attr(1)
            ps = list(a[2])
            ps[i] = self.mutate(ps[i]) if r.random() < 0.5 else self.attr(1)
            return (a[0], a[1], tuple(ps))
        return self.attr(1)


# ---------------------------------------------------------------------------------------------
# the run
# ---------------------------------------------------------------------------------------------

class Batch:
    """collects protocol lines with the implementation's observation for each"""

    def __init__(self, U: Universe):
        self.lines: list[str] = list(U.lines())
        self.impl: list[str] = ["ok"] * len(self.lines)
        self.cases: list[Any] = [None] * len(self.lines)

    def add(self, line: str, impl: str, case: Any) -> None:
        self.lines.append(line)
        self.impl.append(impl)
        self.cases.append(case)


def try_build(U: Universe, c: tuple, batch: Batch | None, ctx: core.Ctx | None) -> Any:
    """build the real constraint; every AnyOf constructor call becomes a `mk` correspondence line"""
    from xdsl.utils.exceptions import PyRDLError

    log: list = []
    try:
        r = U.build_c(c, log)
    except PyRDLError:
        r = None
    if batch is not None:
        for kids, outcome in log:
            batch.add(f"mk {len(kids)}" + "".join(" " + ser_c(x) for x in kids), outcome,
                      {"kind": "mk", "alts": [ser_c(x) for x in kids]})
        if ctx is not None:
            ctx.count("anyof_ctor.ok", sum(1 for _, o in log if o == "ok"))
            ctx.count("anyof_ctor.PyRDLError", sum(1 for _, o in log if o != "ok"))
    return r


def children_pairs(c: tuple, a: tuple) -> list[tuple[tuple, tuple]]:
    k = c[0]
    if k in ("anyOf", "allOf"):
        out = [(x, a) for x in c[1]]
        out += [((k, c[1][:i] + c[1][i + 1:]), a) for i in range(len(c[1]))]
        return out
    if k == "param" and a[0] == "P":
        return [(x, p) for x, p in zip(c[2], a[2])]
    if k in ("var", "msg", "tvar"):
        return [(c[2], a)]
    if k == "arrayOf" and a[0] == "A":
        return [(c[2], e) for e in a[2]]
    return []


def verify_disagrees(U: Universe, c: tuple, a: tuple) -> tuple[str, bool] | None:
    if not well_declared([c]):
        return None
    cr = try_build(U, c, None, None)
    if cr is None:
        return None
    obs, _ = impl_verify(U, cr, a, {})
    want = bool(ref_sols(U, c, a))
    if obs.startswith("raise") or (obs.startswith("ok") != want):
        return obs, want
    return None


def strip_vars(c: tuple) -> tuple:
    k = c[0]
    if k in ("anyOf", "allOf"):
        return (k, tuple(strip_vars(x) for x in c[1]))
    if k == "param":
        return (k, c[1], tuple(strip_vars(x) for x in c[2]))
    if k == "var":
        return strip_vars(c[2])
    if k in ("msg", "tvar", "arrayOf"):
        return (k, c[1], strip_vars(c[2]))
    return c


def shrink_verify(U: Universe, c: tuple, a: tuple) -> tuple[tuple, tuple]:
    for _ in range(200):
        for c2, a2 in children_pairs(c, a):
            if verify_disagrees(U, c2, a2) is not None:
                c, a = c2, a2
                break
        else:
            return c, a
    return c, a


REAL_NAME = {"any": "AnyAttr", "eq": "EqAttrConstraint", "set": "AttrSetConstraint", "base": "BaseAttr", "anyOf": "AnyOf",
             "allOf": "AllOf", "param": "ParamAttrConstraint", "var": "VarConstraint", "msg": "MessageConstraint",
             "tvar": "TypeVarConstraint", "arrayOf": "ArrayOfConstraint"}


def check_verify(ctx: core.Ctx, U: Universe, batch: Batch, c: tuple, cr: Any, a: tuple, binding: dict, oracle: bool) -> str:
    obs, _ = impl_verify(U, cr, a, binding)
    case = {"kind": "verify", "c": ser_c(c), "a": ser_a(a), "ctx": ser_ctx(binding)}
    batch.add(f"verify {ser_ctx(binding)} {ser_c(c)} {ser_a(a)}", obs, case)
    ctx.ev()
    ctx.count("verify." + obs.split()[0])
    if has_composite(c):
        ctx.nt(batch.lines[-1])
    if oracle and not binding:
        want = bool(ref_sols(U, c, a))
        ctx.count("verify.oracle_checked")
        if obs.startswith("raise") or (obs.startswith("ok") != want):
            c2, a2 = shrink_verify(U, c, a)
            d = verify_disagrees(U, c2, a2)
            if d is None:
                c2, a2, d = c, a, (obs, want)
            sig = ("raises instead of accepting/rejecting" if d[0].startswith("raise")
                   else "accepts an attribute its definition rejects" if not d[1]
                   else "rejects an attribute its definition accepts")
            who = REAL_NAME[c2[0]]
            if var_decls(c2) and verify_disagrees(U, strip_vars(c2), a2) is None:
                # the same tree without its variables behaves: the variable bookkeeping is at fault
                who = "VarConstraint"
                if not d[1] and not d[0].startswith("raise"):
                    sig = "occurrences of one constraint variable are accepted although they are not equal"
            ctx.fail(f"xdsl.irdl.constraints.{who}.verify", sig,
                     {"kind": "verify", "c": ser_c(c2), "a": ser_a(a2), "ctx": "0", "readable": readable(U, c2, a2)},
                     f"verify gives `{d[0]}`, the definition {'accepts' if d[1] else 'rejects'} the attribute",
                     d[0], "accept" if d[1] else "reject")
    return obs


def run_verify_random(ctx: core.Ctx, U: Universe, batch: Batch, g: Gen, n_constraints: int, n_attrs: int) -> None:
    r = ctx.rng
    for _ in range(n_constraints):
        if ctx.time_left() < 25:
            break
        bad_decl = r.random() < 0.06
        decls = g.decls(r.randint(0, 3))
        if bad_decl and decls:
            # same name, different constraints / self-reference: outside the oracle, correspondence only
            n = r.choice(sorted(decls))
            avail = dict(decls)
            c = ("allOf", (("var", n, g.c(1, {})), g.c(2, avail))) if r.random() < 0.5 else ("var", n, ("param", U.by_name["Box"], (("var", n, ("any",)),)))
        else:
            c = g.c(r.choice([1, 2, 2, 3]), decls)
        ok_decl = well_declared([c])
        cr = try_build(U, c, batch, ctx)
        if cr is None:
            ctx.count("verify.constraint_not_constructible")
            continue
        ctx.count("verify.constraints")
        ctx.count("verify.root." + c[0])
        bb = try_bases(U, cr)
        batch.add("bases " + ser_c(c), bb, {"kind": "bases", "c": ser_c(c)})
        attrs = []
        for i in range(n_attrs):
            if i % 2 == 0:
                a = g.sample(c, {})
                if i % 4 == 2:
                    a = g.mutate(a)
            else:
                a = g.attr(2)
            attrs.append(a)
        for a in attrs:
            try:
                U.dec_attr(a)
            except Exception:  # noqa: BLE001  (class invariants of builtin classes)
                ctx.count("verify.attr_not_constructible")
                continue
            obs = check_verify(ctx, U, batch, c, cr, a, {}, ok_decl)
            if obs.startswith("ok") and bb.startswith("some"):
                # get_bases is sound: an accepted attribute's class is one of the bases
                if ok_decl and str(a[1]) not in bb.split()[1:]:
                    ctx.fail(f"xdsl.irdl.constraints.{REAL_NAME[c[0]]}.get_bases", "accepted attribute's class not among get_bases()",
                             {"kind": "verify", "c": ser_c(c), "a": ser_a(a), "ctx": "0", "readable": readable(U, c, a)},
                             "verify accepts an attribute whose class is not in get_bases()", bb, str(a[1]))


def try_bases(U: Universe, cr: Any) -> str:
    b = cr.get_bases()
    if b is None:
        return "none"
    try:
        return "some" + "".join(f" {x}" for x in sorted({U.cid[t] for t in b}))
    except KeyError as e:
        raise Unsupported(str(e))


def small_leaves(U: Universe, g: Gen) -> list[tuple]:
    n = U.by_name
    i32, index, sa = g.types[1], g.types[3], g.S("a")
    return [("any",), ("eq", i32), ("eq", sa), ("base", n["IndexType"]), ("base", n["IntegerType"]),
            ("base", n["TypeAttribute"]), ("base", n["TestBase"]), ("set", (i32, index)), ("base", n["Nil"])]


def run_verify_exhaustive(ctx: core.Ctx, U: Universe, batch: Batch, g: Gen, deep: bool) -> None:
    """every constraint of nesting depth <= 1 (depth 2 for unions inside Param when `deep`) over a
    small leaf set, against a fixed attribute pool"""
    n = U.by_name
    L = small_leaves(U, g)
    i32, index, sa = g.types[1], g.types[3], g.S("a")
    P = g.P
    pool = [i32, index, g.types[4], sa, P("Nil"), P("Box", i32), P("Box", index), P("Pair", i32, i32), P("Pair", i32, index),
            P("SubA", i32), P("SubB", sa), g.A(i32, index), g.A()]
    cs: list[tuple] = list(L)
    for x, y in itertools.product(L, repeat=2):
        cs.append(("anyOf", (x, y)))
        cs.append(("allOf", (x, y)))
        cs.append(("param", n["Pair"], (x, y)))
        cs.append(("param", n["Pair"], (("var", 0, x), ("var", 0, x))) if x == y else ("allOf", (("var", 0, x), ("var", 1, y))))
    for x in L:
        cs += [("param", n["Box"], (x,)), ("param", n["TestBase"], (x,)), ("var", 0, x), ("msg", 0, x), ("arrayOf", U.array, x),
               ("anyOf", (x,)), ("allOf", (x,)), ("anyOf", ()), ("allOf", ())]
    if deep:
        for x, y, z in itertools.product(L[:6], repeat=3):
            cs.append(("anyOf", (x, y, z)))
            cs.append(("param", n["Box"], (("anyOf", (x, y)),)))
            cs.append(("allOf", (("anyOf", (x, y)), z)))
    seen = set()
    for c in cs:
        if c in seen:
            continue
        seen.add(c)
        cr = try_build(U, c, batch, ctx)
        if cr is None:
            continue
        ctx.count("verify.exhaustive_constraints")
        for a in pool:
            check_verify(ctx, U, batch, c, cr, a, {}, well_declared([c]))


def falsy_and_truthy(g: Gen) -> tuple[list[tuple], list[tuple]]:
    """attributes whose Python truth value is False (IntAttr(0), IntegerAttr(0, t), empty ArrayAttr) and
    ordinary ones, incl. the empty StringAttr"""
    i1, i32 = g.types[0], g.types[1]
    falsy = [g.I(0), g.P("IntegerAttr", g.I(0), i32), g.P("IntegerAttr", g.I(0), i1), g.A()]
    truthy = [g.I(1), g.S(""), g.S("a"), i32, g.A(g.I(0)), g.P("IntegerAttr", g.I(1), i32)]
    return falsy, truthy


def run_var_equality(ctx: core.Ctx, U: Universe, batch: Batch, g: Gen) -> None:
    """'constraint variables require all occurrences to be equal', with every combination of falsy and
    ordinary attributes at the first and at the later occurrences"""
    n = U.by_name
    falsy, truthy = falsy_and_truthy(g)
    vals = falsy + truthy
    for a in falsy:
        if bool(U.dec_attr(a)):
            raise core.InfraError(f"attribute expected to be falsy is truthy: {a}")
    inner = [("any",), ("base", n["Attribute"]), ("anyOf", (("base", n["IntAttr"]), ("base", n["IntegerAttr"]), ("base", n["ArrayAttr"]),
                                                         ("base", n["StringAttr"]), ("base", n["IntegerType"])))]
    P = g.P
    for d in inner:
        T = ("var", 0, d)
        shapes = [
            (("param", n["Pair"], (T, T)), lambda x, y: P("Pair", x, y)),
            (("param", n["Pair"], (T, ("param", n["Box"], (T,)))), lambda x, y: P("Pair", x, P("Box", y))),
            (("arrayOf", U.array, T), lambda x, y: g.A(x, y)),
            (("arrayOf", U.array, T), lambda x, y: g.A(x, x, y)),
            (("param", n["Pair"], (("msg", 0, T), ("allOf", (T, ("any",))))), lambda x, y: P("Pair", x, y)),
            (("param", n["Pair"], (("anyOf", (T, ("base", n["Nil"]))), T)), lambda x, y: P("Pair", x, y)),
        ]
        for c, mk in shapes:
            cr = try_build(U, c, batch, ctx)
            if cr is None:
                continue
            for x in vals:
                for y in vals:
                    ctx.count("verify.var_equality_cases")
                    if x in falsy and x != y:
                        ctx.count("verify.var_equality_falsy_first_unequal")
                    check_verify(ctx, U, batch, c, cr, mk(x, y), {}, True)


# ---- shared sub-constraint objects: histories ----------------------------------------------------------

class Shared:
    """A pool of real constraint objects that are reused (the very same Python objects) as children of
    later constraints and as arguments of AnyOf.get / `|` / `&`, with verify / get_bases / infer calls
    interleaved.  What a constraint accepts and what get_bases() returns must not depend on what was
    done, before or after, with other constraints sharing its sub-constraint objects."""

    def __init__(self, U: Universe, attrs: list[tuple]):
        self.U = U
        self.attrs = attrs
        self.reals = [U.dec_attr(a) for a in attrs]
        self.node: list[Any] = []      # real object or None (construction raised)
        self.ast: list[Any] = []       # AST of the node (None if not constructed)
        self.expect: list[Any] = []    # AST whose declarative meaning the node must have
        self.table: list[Any] = []     # acceptance on self.attrs at creation
        self.bases: list[Any] = []     # get_bases() at creation
        self.next_var = 0
        self.problems: list[dict] = []
        self.lines: list[tuple[str, str]] = []   # (protocol line, impl observation)

    # -- observations
    def accept_row(self, cr: Any) -> list:
        return [safe_verifies(cr, ar) for ar in self.reals]

    def bases_of(self, cr: Any) -> Any:
        b = cr.get_bases()
        return None if b is None else frozenset(self.U.cid.get(t, -1) for t in b)

    def problem(self, site: str, sig: str, text: str, **kw: Any) -> None:
        self.problems.append(dict(site=site, sig=sig, text=text, **kw))

    # -- one operation; `op` is JSON-able; ops whose operands do not exist are skipped (for shrinking)
    def apply(self, op: list) -> None:
        from xdsl.irdl import (AllOf, AnyOf, AttrSetConstraint, MessageConstraint, ParamAttrConstraint, VarConstraint)
        from xdsl.utils.exceptions import PyRDLError

        U = self.U
        k = op[0]
        if k == "hole":   # a creating operation removed by shrinking: keeps the numbering of later nodes
            self._push(None, None, None)
            return
        ids = [i for i in (op[1] if k in ("anyOf", "allOf", "get") else op[2] if k == "param" else
                           [op[2]] if k in ("var", "msg") else [op[1]] if k in ("arrayOf", "bases", "verify", "infer", "canon") else
                           [op[1], op[2]] if k in ("or", "and") else [])]
        creates = k in ("leaf", "anyOf", "allOf", "param", "var", "msg", "arrayOf", "get", "or", "and")
        if any(i >= len(self.node) or self.node[i] is None for i in ids):
            if creates:
                self._push(None, None, None)
            return
        kids = [self.node[i] for i in ids]
        kast = [self.ast[i] for i in ids]
        try:
            if k == "leaf":
                ast = parse_c(op[1])
                self._push(U.build_c(ast), ast, ast)
            elif k == "anyOf":
                self._push(AnyOf(tuple(kids)), ("anyOf", tuple(kast)), ("anyOf", tuple(kast)))
            elif k == "allOf":
                self._push(AllOf(tuple(kids)), ("allOf", tuple(kast)), ("allOf", tuple(kast)))
            elif k == "param":
                ast = ("param", op[1], tuple(kast))
                self._push(ParamAttrConstraint(U.classes[op[1]], tuple(kids)), ast, ast)
            elif k == "var":
                ast = ("var", op[1], kast[0])
                self._push(VarConstraint(f"T{op[1]}", kids[0]), ast, ast)
            elif k == "msg":
                ast = ("msg", op[1], kast[0])
                self._push(MessageConstraint(kids[0], f"m{op[1]}"), ast, ast)
            elif k == "arrayOf":
                ast = ("arrayOf", U.array, kast[0])
                self._push(U.b.ArrayOfConstraint(kids[0]), ast, ast)
            elif k == "get":
                r = AnyOf.get(*kids)
                self._push(r, U.enc_c(r), ("anyOf", tuple(kast)))
            elif k == "or":
                r = kids[0] | kids[1]
                self._push(r, U.enc_c(r), ("anyOf", tuple(kast)))
            elif k == "and":
                r = kids[0] & kids[1]
                self._push(r, U.enc_c(r), ("allOf", tuple(kast)))
            elif k == "bases":
                i = ids[0]
                now = self.bases_of(kids[0])
                self.lines.append(("bases " + ser_c(self.ast[i]), "none" if now is None else "some" + "".join(f" {x}" for x in sorted(now))))
                if now != self.bases[i]:
                    self.problem(f"xdsl.irdl.constraints.{REAL_NAME[self.ast[i][0]]}.get_bases",
                                 "get_bases() of an existing constraint changed after operations on other constraints",
                                 f"get_bases() of node {i} was {fmt_bases(U, self.bases[i])}, is now {fmt_bases(U, now)}", node=i)
            elif k == "verify":
                i, j = ids[0], op[2]
                got = safe_verifies(kids[0], self.reals[j])
                if got is not None:
                    self.lines.append((f"verify 0 {ser_c(self.ast[i])} {ser_a(self.attrs[j])}", None if got else "fail"))
                if got != self.table[i][j]:
                    self.problem(f"xdsl.irdl.constraints.{REAL_NAME[self.ast[i][0]]}.verify",
                                 "acceptance by an existing constraint changed after operations on other constraints",
                                 f"node {i} on {self.reals[j]}: was {self.table[i][j]}, is now {got}", node=i)
            elif k == "infer":
                from xdsl.irdl import ConstraintContext
                cx = ConstraintContext()
                if kids[0].can_infer(cx.attr_variables):
                    try:
                        kids[0].infer(cx)
                    except Exception:  # noqa: BLE001  (class invariants, arity: checked in the infer phase)
                        pass
        except (PyRDLError, ValueError):
            if creates:
                self._push(None, None, None)
        except Unsupported:
            if creates:
                self._push(None, None, None)

    def _push(self, real: Any, ast: Any, expect: Any) -> None:
        U = self.U
        self.node.append(real)
        self.ast.append(ast)
        self.expect.append(expect)
        if real is None:
            self.table.append(None)
            self.bases.append(None)
            return
        row = self.accept_row(real)
        self.table.append(row)
        self.bases.append(self.bases_of(real))
        i = len(self.node) - 1
        # at creation: the node means what its (shared) parts mean
        if well_declared([expect]) and well_declared([ast]):
            for j, a in enumerate(self.attrs):
                if row[j] is None:
                    continue
                want = bool(ref_sols(U, expect, a))
                if row[j] != want:
                    self.problem(f"xdsl.irdl.constraints.{REAL_NAME[ast[0]]}.verify",
                                 ("rejects an attribute its definition accepts" if want else "accepts an attribute its definition rejects")
                                 + " (constraint built from shared sub-constraint objects after other operations on them)",
                                 f"node {i} = {real!r} on {self.reals[j]}: verifies={row[j]}, definition says {want}", node=i)
                    break
        b = self.bases[i]
        if b is not None:
            for j, a in enumerate(self.attrs):
                if row[j] and a[1] not in b:
                    self.problem(f"xdsl.irdl.constraints.{REAL_NAME[ast[0]]}.get_bases", "accepted attribute's class not among get_bases()",
                                 f"node {i} = {real!r} accepts {self.reals[j]} but get_bases() = {fmt_bases(U, b)}", node=i)
                    break

    def recheck(self) -> None:
        """the fixed acceptance table and get_bases() of every pooled node, against creation time;
        returned base sets must not be shared between constraints (poisoning a returned set must not
        change what any constraint reports afterwards)"""
        U = self.U
        for i, real in enumerate(self.node):
            if real is None:
                continue
            row = self.accept_row(real)
            if row != self.table[i]:
                j = next(j for j in range(len(row)) if row[j] != self.table[i][j])
                self.problem(f"xdsl.irdl.constraints.{REAL_NAME[self.ast[i][0]]}.verify",
                             "acceptance by an existing constraint changed after operations on other constraints",
                             f"node {i} = {real!r} on {self.reals[j]}: was {self.table[i][j]}, is now {row[j]}", node=i)
            now = self.bases_of(real)
            if now != self.bases[i]:
                self.problem(f"xdsl.irdl.constraints.{REAL_NAME[self.ast[i][0]]}.get_bases",
                             "get_bases() of an existing constraint changed after operations on other constraints",
                             f"get_bases() of node {i} = {real!r} was {fmt_bases(U, self.bases[i])}, is now {fmt_bases(U, now)}", node=i)

    def alias_check(self) -> None:
        """a caller may do what it likes with a returned set (AllOf.get_bases itself narrows one in place)"""
        U = self.U
        for i, real in enumerate(self.node):
            if real is None:
                continue
            b = real.get_bases()
            if b is None:
                continue
            b.clear()
            b.add(type(None))
        for i, real in enumerate(self.node):
            if real is None:
                continue
            now = self.bases_of(real)
            if now != self.bases[i]:
                self.problem(f"xdsl.irdl.constraints.{REAL_NAME[self.ast[i][0]]}.get_bases",
                             "get_bases() returns a set object shared with internal state or with another constraint",
                             f"after callers modified the sets returned by get_bases(), node {i} = {real!r} reports {fmt_bases(U, now)} instead of {fmt_bases(U, self.bases[i])}", node=i)
                break


CREATING = ("leaf", "anyOf", "allOf", "param", "var", "msg", "arrayOf", "get", "or", "and", "hole")


def fmt_bases(U: Universe, b: Any) -> str:
    return "None" if b is None else "{" + ", ".join(U.names[x] if 0 <= x < len(U.names) else "?" for x in sorted(b)) + "}"


def run_history(U: Universe, attrs: list[tuple], ops: list, final_alias: bool) -> Shared:
    sh = Shared(U, attrs)
    for op in ops:
        if op[0] == "recheck":
            sh.recheck()
        else:
            sh.apply(op)
    sh.recheck()
    if final_alias:
        sh.alias_check()
    return sh


def gen_history(U: Universe, g: Gen, r: Any, n_ops: int, n_attrs: int) -> list:
    nm = U.by_name
    ops: list = []
    count = 0          # number of node slots so far
    kinds: list[str] = []
    next_var = 0

    def pick() -> int:
        # prefer recently created and wrapper nodes: sharing happens through them
        if count and r.random() < 0.5:
            return r.randrange(max(0, count - 6), count)
        return r.randrange(count)

    focus = [nm[x] for x in ("IntegerType", "IndexType", "StringAttr", "IntAttr", "Float32Type", "Pair", "Box", "IntegerAttr", "ArrayAttr", "Nil")]
    for _ in range(n_ops):
        q = r.random()
        if count < 4 or q < 0.22:
            k = r.random()
            if k < 0.6:
                ast = ("base", r.choice(focus) if r.random() < 0.8 else r.randrange(len(U.classes)))
            elif k < 0.85:
                ast = ("eq", g.attr(1))
            else:
                ast = g.leaf_c({})
            ops.append(["leaf", ser_c(ast)]); kinds.append("leaf"); count += 1
        elif q < 0.34:
            ops.append(["anyOf", [pick() for _ in range(r.randint(2, 3))]]); kinds.append("anyOf"); count += 1
        elif q < 0.44:
            ops.append(["allOf", [pick() for _ in range(r.randint(1, 3))]]); kinds.append("allOf"); count += 1
        elif q < 0.52:
            cid = nm[r.choice(["Pair", "Box", "Pair", "SubA"])]
            ops.append(["param", cid, [pick() for _ in range(U.nparams[cid])]]); kinds.append("param"); count += 1
        elif q < 0.62:
            ops.append(["var", next_var, pick()]); next_var += 1; kinds.append("var"); count += 1
        elif q < 0.67:
            ops.append(["msg", r.randint(0, 3), pick()]); kinds.append("msg"); count += 1
        elif q < 0.70:
            ops.append(["arrayOf", pick()]); kinds.append("arrayOf"); count += 1
        elif q < 0.80:
            ops.append(["get", [pick() for _ in range(r.randint(2, 3))]]); kinds.append("get"); count += 1
        elif q < 0.85:
            ops.append(["or", pick(), pick()]); kinds.append("or"); count += 1
        elif q < 0.89:
            ops.append(["and", pick(), pick()]); kinds.append("and"); count += 1
        elif q < 0.93:
            ops.append(["bases", pick()])
        elif q < 0.97:
            ops.append(["verify", pick(), r.randrange(n_attrs)])
        elif q < 0.99:
            ops.append(["infer", pick()])
        else:
            ops.append(["recheck"])
    return ops


def history_attrs(U: Universe, g: Gen) -> list[tuple]:
    falsy, truthy = falsy_and_truthy(g)
    P = g.P
    i32, index, f32 = g.types[1], g.types[3], g.types[4]
    return falsy + truthy + [g.types[0], index, f32, P("Nil"), P("Box", i32), P("Box", index), P("Pair", i32, i32), P("Pair", i32, index),
                             P("Pair", g.I(0), g.I(0)), P("Pair", g.I(0), g.I(1)), P("SubA", i32), P("SubB", g.S("a")), g.A(i32, index),
                             P("IntegerAttr", g.I(5), index), P("UnitAttr"), P("NoneAttr")]


def fixed_histories(U: Universe) -> list[list]:
    """small hand-written interleavings: a wrapper (Var/Msg) of a union used first inside an
    intersection whose bases are queried, then as an alternative of a new union"""
    nm = U.by_name
    out = []
    for wrap in ("var", "msg", None):
        for narrow in ("IntegerType", "IndexType", "StringAttr"):
            ops: list = [["leaf", f"base {nm['IntegerType']}"], ["leaf", f"base {nm['IndexType']}"], ["leaf", f"base {nm['StringAttr']}"],
                         ["anyOf", [0, 1]]]
            w = 3
            if wrap == "var":
                ops.append(["var", 0, 3]); w = 4
            elif wrap == "msg":
                ops.append(["msg", 0, 3]); w = 4
            ops.append(["get", [w, 2]])
            ops.append(["leaf", f"base {nm[narrow]}"])
            k = len([o for o in ops if o[0] not in ("bases", "verify")]) - 1
            ops.append(["allOf", [w, k]])
            ops.append(["bases", k + 1])
            ops.append(["leaf", f"base {nm['Float32Type']}"])
            ops.append(["get", [k + 1, k + 2]])
            ops.append(["get", [w, 2]])
            ops.append(["anyOf", [2, w]])
            ops.append(["and", w, k])
            ops.append(["or", w, 2])
            out.append(ops)
    return out


def run_shared(ctx: core.Ctx, U: Universe, batch: Batch, g: Gen, n_histories: int, n_ops: int) -> None:
    r = ctx.rng
    attrs = history_attrs(U, g)
    hists = fixed_histories(U) + [gen_history(U, g, r, r.randint(8, n_ops), len(attrs)) for _ in range(n_histories)]
    for hi, ops in enumerate(hists):
        if ctx.time_left() < 20:
            break
        alias = hi % 2 == 0
        sh = run_history(U, attrs, ops, alias)
        ctx.ev()
        ctx.count("shared.histories")
        ctx.count("shared.ops", len(ops))
        ctx.count("shared.nodes", sum(1 for x in sh.node if x is not None))
        ctx.count("shared.nodes_not_constructible", sum(1 for x in sh.node if x is None))
        for o in ops:
            ctx.count("shared.op." + o[0])
        if any(o[0] in ("get", "or", "and", "anyOf", "allOf") for o in ops):
            ctx.nt(json.dumps(ops))
        for line, obs in sh.lines:
            if obs is None:   # accepted: the model reports the bindings too; compare acceptance only via a bases/fail line
                continue
            batch.add(line, obs, {"kind": "history-line", "ops": ops})
        seen_sig = set()
        for pr in sh.problems:
            key = (pr["site"], pr["sig"])
            if key in seen_sig:
                continue
            seen_sig.add(key)

            def masked(keep: list) -> list:
                ks = set(keep)
                return [o if i in ks else ["hole"] for i, o in enumerate(ops) if i in ks or o[0] in CREATING]

            def still(keep: list, key: tuple = key, alias: bool = alias) -> bool:
                s2 = run_history(U, attrs, masked(keep), alias)
                return any((q["site"], q["sig"]) == key for q in s2.problems)

            keep = core.shrink_list(list(range(len(ops))), still, max_steps=300) if len(ops) > 6 else list(range(len(ops)))
            small = masked(keep)
            while small and small[-1] == ["hole"]:
                small.pop()
            s2 = run_history(U, attrs, small, alias)
            texts = [q["text"] for q in s2.problems if (q["site"], q["sig"]) == key] or [pr["text"]]
            ctx.fail(pr["site"], pr["sig"],
                     {"kind": "history", "ops": small, "alias_check": alias, "readable": describe_history(U, attrs, small)},
                     texts[0], texts[:3], "acceptance and get_bases() of every constraint independent of the history")


def describe_history(U: Universe, attrs: list[tuple], ops: list) -> list[str]:
    sh = Shared(U, attrs)
    out = []
    for op in ops:
        n0 = len(sh.node)
        if op[0] == "recheck":
            sh.recheck(); out.append("recheck all nodes")
            continue
        sh.apply(op)
        if op[0] == "hole":
            continue
        if len(sh.node) > n0:
            out.append(f"n{n0} = {op[0]}{op[1:]} -> {sh.node[n0]!r}")
        else:
            out.append(f"{op[0]}{op[1:]}")
    return out


# ---- simplification / merging --------------------------------------------------------------------

def run_merge(ctx: core.Ctx, U: Universe, batch: Batch, g: Gen, n_cases: int, exhaustive: bool) -> None:
    from xdsl.irdl import AnyOf, ParamAttrConstraint
    from xdsl.utils.exceptions import PyRDLError, VerifyException

    r = ctx.rng
    nm = U.by_name
    cases: list[list[tuple]] = []
    if exhaustive:
        L = small_leaves(U, g)
        i32, index = g.types[1], g.types[3]
        M = L + [("param", nm["Box"], (("eq", i32),)), ("param", nm["Box"], (("base", nm["IndexType"]),)), ("param", nm["Box"], (("any",),)),
                 ("base", nm["Box"]), ("eq", g.P("Box", i32)), ("set", (g.P("Box", i32), g.P("Box", index))),
                 ("param", nm["Pair"], (("eq", i32), ("eq", i32))), ("param", nm["Pair"], (("eq", index), ("eq", i32))),
                 ("param", nm["Pair"], (("eq", index), ("eq", index))), ("anyOf", (("eq", i32), ("base", nm["IndexType"])))]
        for x, y in itertools.product(M, repeat=2):
            cases.append([x, y])
        for x, y, z in itertools.product(M[9:], repeat=3):
            cases.append([x, y, z])
    for _ in range(n_cases):
        k = r.randint(1, 5)
        focus = r.choice(["Pair", "Box", "IntegerAttr", "SubA", "IntegerType", "ArrayAttr", "StringAttr"])
        cid = nm[focus]
        alts = []
        base_params = tuple(g.c(1, {}) for _ in range(U.nparams[cid]))
        for _ in range(k):
            q = r.random()
            if q < 0.45 and U.is_param[cid]:
                ps = list(base_params)
                for _ in range(r.choice([0, 1, 1, 1, 2])):
                    if ps:
                        ps[r.randrange(len(ps))] = g.c(1, {})
                alts.append(("param", cid, tuple(ps)))
            elif q < 0.7:
                alts.append(g.anchored(cid, 2, {}))
            elif q < 0.8:
                alts.append(g.anchored(r.randrange(len(U.classes)), 2, {}))
            else:
                alts.append(g.c(2, {}))
        cases.append(alts)
    for alts in cases:
        if ctx.time_left() < 20:
            break
        reals = [try_build(U, x, None, None) for x in alts]
        if any(x is None for x in reals):
            ctx.count("merge.alternative_not_constructible")
            continue
        use_or = len(alts) == 2 and r.random() < 0.3
        try:
            res = (reals[0] | reals[1]) if use_or else AnyOf.get(*reals)
            obs = "ok " + ser_c(U.enc_c(res))
        except PyRDLError:
            res, obs = None, "raise PyRDLError"
        except ValueError:
            res, obs = None, "raise ValueError"
        line = ("or " + " ".join(ser_c(x) for x in alts)) if use_or else (f"get {len(alts)}" + "".join(" " + ser_c(x) for x in alts))
        case = {"kind": "merge", "op": "or" if use_or else "get", "alts": [ser_c(x) for x in alts]}
        batch.add(line, obs, case)
        ctx.ev()
        ctx.count("merge." + obs.split()[0] + ("" if res is not None else "." + obs.split()[1]))
        if res is None:
            continue
        naive_changed = obs != "ok " + ser_c(("anyOf", tuple(alts)))
        if naive_changed:
            ctx.nt(line)
            ctx.count("merge.simplified")
        # accepted set of the merged constraint = union of the accepted sets of the alternatives
        pool = [g.sample(x, {}) for x in alts for _ in range(2)] + [g.mutate(g.sample(x, {})) for x in alts] + [g.attr(2) for _ in range(4)]
        for a in pool:
            try:
                ar = U.dec_attr(a)
            except Exception:  # noqa: BLE001
                continue
            got = safe_verifies(res, ar)
            wants = [safe_verifies(x, ar) for x in reals]
            if got is None or None in wants:
                ctx.count("merge.attr_excluded_raise")
                continue
            want = any(wants)
            ctx.count("merge.attr_checks")
            if got != want:
                small = core.shrink_list(list(range(len(alts))), lambda idx: _merge_bad(U, [alts[i] for i in idx], a, use_or and len(idx) == 2))
                sm = [alts[i] for i in small]
                ctx.fail("xdsl.irdl.constraints.AnyOf.get", "merged union accepts a different set than its alternatives",
                         {"kind": "merge", "op": "get", "alts": [ser_c(x) for x in sm], "a": ser_a(a),
                          "readable": "; ".join(readable(U, x) for x in sm) + " @ " + readable(U, None, a)},
                         f"merged constraint {'accepts' if got else 'rejects'} the attribute, the alternatives {'accept' if want else 'reject'} it",
                         got, want)
                break
    # ParamAttrConstraint.get normalisation
    for _ in range(n_cases // 3 + (40 if exhaustive else 0)):
        cid = nm[r.choice(["Pair", "Box", "Nil", "SubA", "TestBase", "IntegerAttr", "IntegerType"])]
        np = U.nparams[cid] if U.final[cid] else 1
        ps = tuple(r.choice([("any",), ("eq", g.attr(1)), g.c(1, {})]) for _ in range(np))
        reals = [try_build(U, x, None, None) for x in ps]
        if any(x is None for x in reals):
            continue
        try:
            res = ParamAttrConstraint.get(U.classes[cid], *reals)
        except VerifyException:
            ctx.count("pget.excluded_class_invariant")
            continue
        obs = "ok " + ser_c(U.enc_c(res))
        batch.add(f"pget {cid} {len(ps)}" + "".join(" " + ser_c(x) for x in ps), obs, {"kind": "pget", "cls": cid, "ps": [ser_c(x) for x in ps]})
        ctx.ev()
        ctx.count("pget." + U.enc_c(res)[0])
        direct = ParamAttrConstraint(U.classes[cid], tuple(reals))
        for a in [g.sample(("param", cid, ps), {}) for _ in range(3)] + [g.attr(2) for _ in range(3)]:
            try:
                ar = U.dec_attr(a)
            except Exception:  # noqa: BLE001
                continue
            g1, g2 = safe_verifies(res, ar), safe_verifies(direct, ar)
            if g1 is not None and g2 is not None and g1 != g2:
                ctx.fail("xdsl.irdl.constraints.ParamAttrConstraint.get", "normalised constraint accepts a different set",
                         {"kind": "pget", "cls": cid, "ps": [ser_c(x) for x in ps], "a": ser_a(a), "readable": readable(U, ("param", cid, ps), a)},
                         "ParamAttrConstraint.get(...) and ParamAttrConstraint(...) disagree on the attribute",
                         g1, g2)
                break


def _merge_bad(U: Universe, alts: list[tuple], a: tuple, use_or: bool) -> bool:
    from xdsl.irdl import AnyOf

    try:
        reals = [U.build_c(x) for x in alts]
        res = AnyOf.get(*reals)
        ar = U.dec_attr(a)
        got, wants = safe_verifies(res, ar), [safe_verifies(x, ar) for x in reals]
        return got is not None and None not in wants and got != any(wants)
    except Exception:  # noqa: BLE001
        return False


# ---- inference -------------------------------------------------------------------------------------

def infer_blame(U: Universe, c: tuple, binding: dict) -> tuple[str, tuple]:
    """smallest sub-constraint whose own inferred attribute it rejects (same context)"""
    from xdsl.irdl import ConstraintContext

    def bad(c2: tuple) -> bool:
        try:
            cr = U.build_c(c2)
            cx = ConstraintContext()
            for n, v in binding.items():
                cx.set_attr_variable(f"T{n}", U.dec_attr(v))
            if not cr.can_infer(cx.attr_variables):
                return False
            a = cr.infer(cx)
            return not impl_verify(U, cr, U.enc_attr(a), binding)[0].startswith("ok")
        except Exception:  # noqa: BLE001
            return False

    for _ in range(100):
        kids = c[1] if c[0] == "allOf" else c[2] if c[0] == "param" else (c[2],) if c[0] in ("var", "msg") else ()
        for x in kids:
            if bad(x):
                c = x
                break
        else:
            if c[0] == "allOf" and len(c[1]) > 2:
                for i in range(len(c[1])):
                    c2 = ("allOf", c[1][:i] + c[1][i + 1:])
                    if bad(c2):
                        c = c2
                        break
                else:
                    break
                continue
            break
    return REAL_NAME[c[0]], c


def check_infer(ctx: core.Ctx, U: Universe, batch: Batch, c: tuple, binding: dict, oracle: bool) -> None:
    from xdsl.irdl import ConstraintContext
    from xdsl.utils.exceptions import VerifyException

    cr = try_build(U, c, batch, None)
    if cr is None:
        return
    cx = ConstraintContext()
    for n, v in binding.items():
        cx.set_attr_variable(f"T{n}", U.dec_attr(v))
    can = cr.can_infer(cx.attr_variables)
    vs = sorted(binding)
    batch.add(f"caninfer {len(vs)}" + "".join(f" {v}" for v in vs) + " " + ser_c(c), "true" if can else "false",
              {"kind": "caninfer", "c": ser_c(c), "vars": vs})
    ctx.ev()
    ctx.count("infer.can_infer_" + ("true" if can else "false"))
    if not can:
        return
    line = f"infer {ser_ctx(binding)} {ser_c(c)}"
    case = {"kind": "infer", "c": ser_c(c), "ctx": ser_ctx(binding)}
    try:
        ar = cr.infer(cx)
    except VerifyException:
        ctx.count("infer.excluded_class_invariant")
        return
    except Exception as e:  # noqa: BLE001
        batch.add(line, "raise", case)
        ctx.count("infer.raise_" + core.exc_name(e))
        if not arity_ok(U, c):
            # a ParamAttrConstraint with the wrong number of parameter constraints for its (final) class is
            # malformed with respect to the class definition, like a violated class invariant: excluded
            ctx.count("infer.excluded_param_arity")
        elif oracle:
            ctx.fail(f"xdsl.irdl.constraints.{REAL_NAME[c[0]]}.infer", "can_infer is true but infer raises",
                     dict(case, readable=readable(U, c)), f"infer raised {core.exc_name(e)} although can_infer returned True", core.exc_name(e), None)
        return
    try:
        a = U.enc_attr(ar)
    except Unsupported:
        return
    batch.add(line, "attr " + ser_a(a), case)
    ctx.nt(line)
    ctx.count("infer.inferred")
    # the inferred attribute satisfies the constraint (in the context it was inferred from)
    obs, _ = impl_verify(U, cr, a, binding)
    batch.add(f"verify {ser_ctx(binding)} {ser_c(c)} {ser_a(a)}", obs, {"kind": "verify", "c": ser_c(c), "a": ser_a(a), "ctx": ser_ctx(binding)})
    if oracle and not obs.startswith("ok"):
        who, c2 = infer_blame(U, c, binding)
        used = {n: binding[n] for n in binding if n in var_decls(c2)}
        sig = ("inferred attribute of the first inferable conjunct is rejected by another conjunct"
               if who == "AllOf" else "inferred attribute does not satisfy the constraint")
        ctx.fail(f"xdsl.irdl.constraints.{who}.infer", sig,
                 {"kind": "infer", "c": ser_c(c2), "ctx": ser_ctx(used), "readable": readable(U, c2)},
                 "can_infer is true, infer returns an attribute, verify of that attribute in the same context fails",
                 "attr " + ser_a(a), "an attribute accepted by the constraint")


def run_infer(ctx: core.Ctx, U: Universe, batch: Batch, g: Gen, n_cases: int, exhaustive: bool) -> None:
    r = ctx.rng
    nm = U.by_name
    if exhaustive:
        L = small_leaves(U, g) + [("var", 0, ("any",)), ("var", 1, ("base", nm["TypeAttribute"]))]
        i32, index = g.types[1], g.types[3]
        ctxs = [{}, {0: i32}, {0: index, 1: i32}]
        for b in ctxs:
            for x in L:
                for c in (x, ("param", nm["Box"], (x,)), ("msg", 0, x), ("allOf", (x,))):
                    check_infer(ctx, U, batch, c, b, True)
            for x, y in itertools.product(L, repeat=2):
                check_infer(ctx, U, batch, ("allOf", (x, y)), b, True)
                check_infer(ctx, U, batch, ("param", nm["Pair"], (x, y)), b, True)
    for _ in range(n_cases):
        if ctx.time_left() < 20:
            break
        decls = g.decls(r.randint(1, 3), d=r.choice([0, 1]))
        # operand constraint + attribute give the context, as in operation verification
        c_op = g.c(2, decls)
        if r.random() < 0.6:
            c_op = ("param", nm["Pair"], (("var", 0, decls[0]), c_op))
        c_res = g.infer_c(r.choice([1, 2, 2]), decls)
        oracle = well_declared([c_op, c_res])
        cr_op = try_build(U, c_op, None, None)
        if cr_op is None:
            continue
        binding = None
        for _ in range(4):
            a0 = g.sample(c_op, {})
            try:
                U.dec_attr(a0)
            except Exception:  # noqa: BLE001
                continue
            obs, b = impl_verify(U, cr_op, a0, {})
            if b is not None:
                binding = b
                break
        if binding is None:
            binding = {}
        check_infer(ctx, U, batch, c_res, binding, oracle)


def _infer_c(self: Gen, d: int, avail: dict) -> tuple:
    """constraints biased towards inferable ones"""
    r, U = self.rng, self.U
    nm = U.by_name
    k = r.random()
    if d <= 0 or k < 0.35:
        q = r.random()
        if q < 0.35 and avail:
            n = r.choice(sorted(avail))
            return ("var", n, avail[n])
        if q < 0.6:
            return ("eq", self.attr(1))
        if q < 0.85:
            return ("base", nm[r.choice(["IndexType", "Float32Type", "Nil", "UnitAttr", "NoneAttr", "IntegerType", "TypeAttribute", "Box"])])
        return self.leaf_c(avail)
    if k < 0.65:
        cid = nm[r.choice(["Pair", "Box", "SubA", "Nil", "IntegerAttr", "TestBase", "ComplexType"])]
        np = U.nparams[cid] if U.final[cid] else 1
        return ("param", cid, tuple(_infer_c(self, d - 1, avail) for _ in range(np)))
    if k < 0.9:
        return ("allOf", tuple(_infer_c(self, d - 1, avail) if r.random() < 0.7 else self.c(1, avail) for _ in range(r.randint(1, 3))))
    return ("msg", r.randint(0, 3), _infer_c(self, d - 1, avail))


Gen.infer_c = _infer_c  # type: ignore[attr-defined]


# ---- type hints --------------------------------------------------------------------------------------

GENERIC_NAMES = ["IntegerAttr", "ArrayAttr", "TensorType", "VectorType", "MemRefType"]


def hint_templates(U: Universe) -> dict:
    """for each generic attribute class: (template constraint AST, type variable ids)"""
    from xdsl.irdl import GenericData, ParamAttrConstraint
    from xdsl.utils.hints import get_type_var_from_generic_class

    out = {}
    for name in GENERIC_NAMES:
        cls = U.classes[U.by_name[name]]
        try:
            if issubclass(cls, GenericData):
                t = cls.constr()
            else:
                t = ParamAttrConstraint(cls, tuple(p.constr for _, p in cls.get_irdl_definition().parameters))
            ast = U.enc_c(t)
            tvs = tuple(U.tv_id(tv) for tv in get_type_var_from_generic_class(cls))
            out[U.by_name[name]] = (ast, tvs)
        except Unsupported:
            continue
    return out


def build_hint(U: Universe, h: tuple) -> Any:
    from typing import Annotated, Union

    k = h[0]
    if k == "cls":
        return U.classes[h[1]]
    if k == "union":
        return functools.reduce(operator.or_, [build_hint(U, x) for x in h[1]]) if len(h[1]) > 1 else Union[build_hint(U, h[1][0])]
    if k == "annotated":
        return Annotated[tuple(build_hint(U, x) for x in h[1])]
    if k == "generic":
        args = tuple(build_hint(U, x) for x in h[4])
        return U.classes[h[1]][args if len(args) != 1 else args[0]]
    raise Unsupported(k)


def reflect_hint(U: Universe, T: dict, hr: Any) -> tuple:
    """hint AST of a real hint object as Python's typing presents it (unions arrive flattened and
    de-duplicated; that reflection is the adapter's job, not the model's)"""
    import types
    from inspect import isclass
    from typing import Annotated, Union, get_args, get_origin

    origin = get_origin(hr)
    if origin is None and isclass(hr):
        if hr not in U.cid or not issubclass(hr, U.classes[U.root]):
            # mix-in classes that are not Attribute subclasses are not IRDL hints (PyRDLTypeError)
            raise Unsupported(str(hr))
        return ("cls", U.cid[hr], U.cid[hr] == U.root)
    if origin in (Union, types.UnionType):
        return ("union", tuple(reflect_hint(U, T, x) for x in get_args(hr)))
    if origin is Annotated:
        return ("annotated", tuple(reflect_hint(U, T, x) for x in get_args(hr)))
    if isclass(origin) and U.cid.get(origin) in T:
        cid = U.cid[origin]
        return ("generic", cid, T[cid][0], T[cid][1], tuple(reflect_hint(U, T, x) for x in get_args(hr)))
    raise Unsupported(str(hr))


def gen_hint(U: Universe, r: Any, T: dict, d: int) -> tuple:
    k = r.random()
    if d <= 0 or k < 0.4:
        cid = r.randrange(len(U.classes))
        if r.random() < 0.5:
            cid = U.by_name[r.choice(["IntegerType", "IndexType", "StringAttr", "Attribute", "TypeAttribute", "IntegerAttr", "Float32Type", "ArrayAttr"])]
        return ("cls", cid, cid == U.root)
    if k < 0.7 and T:
        cid = r.choice(sorted(T))
        t, tvs = T[cid]
        return ("generic", cid, t, tvs, tuple(gen_hint(U, r, T, d - 1) for _ in tvs))
    if k < 0.95:
        n = r.randint(2, 3)
        return ("union", tuple(gen_hint(U, r, T, d - 1) for _ in range(n)))
    return ("annotated", tuple(gen_hint(U, r, T, d - 1) for _ in range(r.randint(2, 3))))


def hint_sample(U: Universe, g: Gen, h: tuple) -> tuple:
    r = g.rng
    k = h[0]
    if k == "cls":
        return g.attr_of_class(h[1]) or g.attr(1)
    if k in ("union", "annotated"):
        return hint_sample(U, g, r.choice(h[1]))
    nm = U.names[h[1]]
    e = hint_sample(U, g, h[4][0])
    P, I, A = g.P, g.I, g.A
    none = P("NoneAttr")
    cand = {"IntegerAttr": P("IntegerAttr", I(r.choice([0, 1, 5])), e), "ArrayAttr": A(*([e] + [hint_sample(U, g, h[4][0]) for _ in range(r.randint(0, 2))])),
            "TensorType": P("TensorType", A(I(2)), e, none), "VectorType": P("VectorType", e, A(I(4)), A(P("IntegerAttr", I(0), g.types[0]))),
            "MemRefType": P("MemRefType", A(I(2)), e, none, none)}[nm]
    try:
        U.dec_attr(cand)
        return cand
    except Exception:  # noqa: BLE001
        return g.attr(2)


def run_hints(ctx: core.Ctx, U: Universe, batch: Batch, g: Gen, n_cases: int) -> None:
    from xdsl.irdl import irdl_to_attr_constraint
    from xdsl.utils.exceptions import PyRDLError
    from xdsl.utils.hints import isa

    r = ctx.rng
    T = hint_templates(U)
    ctx.count("hints.generic_classes_modelled", len(T))
    fixed = []
    nm = U.by_name
    cl = lambda n: ("cls", nm[n], nm[n] == U.root)  # noqa: E731
    if nm["IntegerAttr"] in T and nm["ArrayAttr"] in T:
        ia = lambda h: ("generic", nm["IntegerAttr"], *T[nm["IntegerAttr"]], (h,))  # noqa: E731
        ar = lambda h: ("generic", nm["ArrayAttr"], *T[nm["ArrayAttr"]], (h,))  # noqa: E731
        fixed = [ia(cl("IndexType")), ar(cl("StringAttr")), ("union", (ia(cl("IndexType")), ia(cl("IntegerType")))),
                 ("union", (ia(cl("IndexType")), cl("StringAttr"))), ar(ia(cl("IndexType"))), ("union", (ar(cl("StringAttr")), ar(cl("IntAttr")))),
                 ("annotated", (cl("IntegerAttr"), ia(cl("IndexType")))), ia(("union", (cl("IndexType"), cl("IntegerType")))), ar(cl("Attribute")),
                 ("union", (cl("TypeAttribute"), cl("StringAttr"))), ("union", (cl("TypeAttribute"), cl("IndexType")))]
    hints = fixed + [gen_hint(U, r, T, r.choice([1, 2, 2, 3])) for _ in range(n_cases)]
    for h in hints:
        if ctx.time_left() < 15:
            break
        try:
            hr = build_hint(U, h)
            h = reflect_hint(U, T, hr)
        except (TypeError, Unsupported):
            ctx.count("hints.not_expressible")
            continue
        try:
            cr = irdl_to_attr_constraint(hr)
            conv = "ok " + ser_c(U.enc_c(cr))
        except PyRDLError:
            cr, conv = None, "raise PyRDLError"
        except Unsupported:
            continue
        batch.add("conv " + ser_h(h), conv, {"kind": "conv", "hint": ser_h(h), "readable": str(hr)})
        ctx.ev()
        ctx.count("hints.conv_" + conv.split()[0])
        attrs = [hint_sample(U, g, h) for _ in range(3)] + [g.mutate(hint_sample(U, g, h))] + [g.attr(2) for _ in range(2)]
        for a in attrs:
            try:
                ar_ = U.dec_attr(a)
            except Exception:  # noqa: BLE001
                continue
            try:
                got = isa(ar_, hr)
                obs = "true" if got else "false"
            except PyRDLError:
                got, obs = None, "raise PyRDLError"
            except ValueError:
                got, obs = None, "raise ValueError"
            except Exception as e:  # noqa: BLE001
                got, obs = None, "raise " + core.exc_name(e)
            line = f"isa {ser_h(h)} {ser_a(a)}"
            batch.add(line, obs, {"kind": "isa", "hint": ser_h(h), "hint_ast": h, "a": ser_a(a), "readable": str(hr)})
            ctx.ev()
            ctx.count("hints.isa_" + obs.split()[0])
            if got is None or cr is None:
                ctx.count("hints.agreement_not_applicable")
                continue
            if h[0] != "cls":
                ctx.nt(line)
            want = safe_verifies(cr, ar_)
            if want is not None and got != want:
                ctx.fail("xdsl.irdl.attributes.irdl_to_attr_constraint", "constraint derived from a type hint disagrees with isa",
                         {"kind": "isa", "hint": ser_h(h), "hint_ast": h, "a": ser_a(a), "readable": f"{hr} @ {ar_}"},
                         f"isa(attr, hint) = {got} but irdl_to_attr_constraint(hint).verifies(attr) = {want}", got, want)


# ---- driver ---------------------------------------------------------------------------------------------

def compare_with_model(ctx: core.Ctx, batch: Batch, tag: str) -> None:
    model = ctx.model("constraint", batch.lines)
    i = core.diff_streams(batch.impl, model)
    ctx.count(f"model_lines.{tag}", len(batch.lines))
    if i is not None:
        ctx.mismatch(f"correspondence:C09/constraint/{tag}", {"kind": "line", "line": batch.lines[i], "case": batch.cases[i]},
                     batch.impl[i], model[i])


def run(ctx: core.Ctx) -> None:
    import time

    phases: dict = {}
    t = time.time()
    ctx.lean()
    phases["lean_build_audit"] = round(time.time() - t, 2)
    U = universe()
    g = Gen(U, ctx.rng)
    quick = ctx.tier == "quick"
    ctx.count("universe.classes", len(U.classes))
    ctx.count("universe.final", sum(U.final))
    plan = [
        ("verify_exhaustive", lambda b: run_verify_exhaustive(ctx, U, b, g, deep=not quick)),
        ("var_equality", lambda b: run_var_equality(ctx, U, b, g)),
        ("shared_histories", lambda b: run_shared(ctx, U, b, g, 500 if quick else 8000, 40)),
        ("verify_random", lambda b: run_verify_random(ctx, U, b, g, 2500 if quick else 60000, 8)),
        ("merge", lambda b: run_merge(ctx, U, b, g, 1500 if quick else 30000, exhaustive=True)),
        ("infer", lambda b: run_infer(ctx, U, b, g, 1500 if quick else 30000, exhaustive=True)),
        ("hints", lambda b: run_hints(ctx, U, b, g, 500 if quick else 10000)),
    ]
    for tag, f in plan:
        t = time.time()
        b = Batch(U)
        f(b)
        compare_with_model(ctx, b, tag)
        phases[tag] = round(time.time() - t, 2)
    ctx.extra["phase_wall_s"] = phases

    ctx.exhaustive = True
    ctx.extra["exhaustive_scope"] = (
        "verify: every constraint of nesting depth <= 1 over 9 leaf constraints (AnyOf/AllOf/Param pairs, Var, Msg, ArrayOf) x 13 "
        "attributes; merge: every ordered pair (and triples of the parametrized ones) from 19 alternatives; infer: every AllOf/Param pair "
        "over 11 leaves x 3 contexts; random trees beyond"
    )
    i32 = g.types[1]
    ctx.sample({"kind": "verify", "c": ser_c(("anyOf", (("eq", i32), ("base", U.by_name["IndexType"])))), "a": ser_a(i32),
                "readable": readable(U, ("anyOf", (("eq", i32), ("base", U.by_name["IndexType"]))), i32)})
    ctx.sample({"kind": "class-table", "names": U.names})


def _tuplify(x: Any) -> Any:
    return tuple(_tuplify(y) for y in x) if isinstance(x, list) else x


def replay(ctx: core.Ctx, body: dict) -> int:
    U = universe()
    case = body["case"]
    if case.get("kind") == "line":
        line = case["line"]
        model = ctx.model("constraint", U.lines() + [line])[-1]
        print("protocol line :", line)
        print("implementation:", body.get("impl_observation"))
        print("lean model    :", model)
        inner = case.get("case") or {}
        if inner.get("kind") not in ("verify", "merge", "infer", "isa", "pget", "history"):
            return 0
        case = inner
    kind = case["kind"]
    bad = False
    if kind == "history":
        g = Gen(U, ctx.rng)
        attrs = history_attrs(U, g)
        for l in describe_history(U, attrs, case["ops"]):
            print("  ", l)
        sh = run_history(U, attrs, case["ops"], bool(case.get("alias_check")))
        for pr in sh.problems:
            print("PROBLEM", pr["site"], "|", pr["sig"], "|", pr["text"])
        bad = bool(sh.problems)
    elif kind == "verify":
        c, a, binding = parse_c(case["c"]), parse_a(case["a"]), parse_ctx(case.get("ctx", "0"))
        cr = U.build_c(c)
        obs, _ = impl_verify(U, cr, a, binding)
        model = ctx.model("constraint", U.lines() + [f"verify {ser_ctx(binding)} {ser_c(c)} {ser_a(a)}"])[-1]
        print("constraint    :", repr(cr))
        print("attribute     :", U.dec_attr(a))
        print("implementation:", obs)
        print("lean model    :", model)
        if not binding and well_declared([c]):
            want = bool(ref_sols(U, c, a))
            print("reference     :", "accept" if want else "reject")
            bad = obs.startswith("raise") or (obs.startswith("ok") != want)
            b = try_bases(U, cr)
            if obs.startswith("ok") and b.startswith("some") and str(a[1]) not in b.split()[1:]:
                print("get_bases     :", b, "(class of the accepted attribute missing)")
                bad = True
    elif kind == "merge":
        from xdsl.irdl import AnyOf

        alts = [parse_c(s) for s in case["alts"]]
        reals = [U.build_c(x) for x in alts]
        try:
            res = AnyOf.get(*reals)
            obs = "ok " + ser_c(U.enc_c(res))
        except Exception as e:  # noqa: BLE001
            res, obs = None, "raise " + core.exc_name(e)
        model = ctx.model("constraint", U.lines() + [f"get {len(alts)}" + "".join(" " + ser_c(x) for x in alts)])[-1]
        print("alternatives  :", reals)
        print("implementation:", obs if res is None else repr(res))
        print("lean model    :", model)
        if res is not None and "a" in case:
            ar = U.dec_attr(parse_a(case["a"]))
            got, want = res.verifies(ar), any(x.verifies(ar) for x in reals)
            print(f"attribute {ar}: merged accepts={got}, some alternative accepts={want}")
            bad = got != want
    elif kind == "pget":
        from xdsl.irdl import ParamAttrConstraint

        ps = [U.build_c(parse_c(s)) for s in case["ps"]]
        res = ParamAttrConstraint.get(U.classes[case["cls"]], *ps)
        direct = ParamAttrConstraint(U.classes[case["cls"]], tuple(ps))
        ar = U.dec_attr(parse_a(case["a"]))
        print("get(...)      :", res, res.verifies(ar))
        print("direct        :", direct, direct.verifies(ar))
        bad = res.verifies(ar) != direct.verifies(ar)
    elif kind == "infer":
        from xdsl.irdl import ConstraintContext

        c, binding = parse_c(case["c"]), parse_ctx(case["ctx"])
        cr = U.build_c(c)
        cx = ConstraintContext()
        for n, v in binding.items():
            cx.set_attr_variable(f"T{n}", U.dec_attr(v))
        can = cr.can_infer(cx.attr_variables)
        print("constraint    :", repr(cr))
        print("context       :", {k: str(cx.get_variable(k)) for k in cx.attr_variables})
        print("can_infer     :", can)
        if can:
            try:
                ar = cr.infer(cx)
                a = U.enc_attr(ar)
                obs, _ = impl_verify(U, cr, a, binding)
                print("inferred      :", ar)
                print("verify(inferred, same context):", obs)
                bad = not obs.startswith("ok")
                lines = [f"infer {ser_ctx(binding)} {ser_c(c)}", f"verify {ser_ctx(binding)} {ser_c(c)} {ser_a(a)}"]
            except Exception as e:  # noqa: BLE001
                print("infer raised  :", core.exc_name(e))
                bad = True
                lines = [f"infer {ser_ctx(binding)} {ser_c(c)}"]
            print("lean model    :", ctx.model("constraint", U.lines() + lines)[len(U.lines()):])
    elif kind == "isa":
        from xdsl.irdl import irdl_to_attr_constraint
        from xdsl.utils.hints import isa

        hint_templates(U)  # numbers the type variables as in the run
        h = _tuplify(case["hint_ast"])
        hr = build_hint(U, h)
        ar = U.dec_attr(parse_a(case["a"]))
        got = isa(ar, hr)
        cr = irdl_to_attr_constraint(hr)
        want = cr.verifies(ar)
        print("hint          :", hr)
        print("attribute     :", ar)
        print("isa           :", got)
        print("constraint    :", cr, "verifies:", want)
        print("lean model    :", ctx.model("constraint", U.lines() + [f"isa {ser_h(h)} {case['a']}", f"conv {ser_h(h)}"])[-2:])
        bad = got != want
    print("property", "FAILS" if bad else "holds", "on this case")
    return 1 if bad else 0
