"""C04 skeleton leg: real modules ↔ the Lean model `XdslModel/Skeleton.lean` (driver model
`skeleton`).

For one verified module:
* the REAL generic printer prints it (a subclass that only records the character span of every
  top-level `print_attribute` call and otherwise leaves the printer alone); the text is lexed with
  the REAL `MLIRLexer`; the tokens inside a recorded span are collapsed into one opaque token
  (`A<id>`, `F<id>` when the group starts with `(`), identified by the text of the span;
* the module is serialised (own walk over the IR objects, names = what the printer assigned) into
  the model's IR; the model answers `printSk` (must equal the collapsed real token stream),
  whether the module satisfies the hypothesis of `skeleton_roundtrip` and whether the model's own
  round trip holds on it;
* the REAL parser parses the text in a fresh Context; its result is serialised the same way and
  compared (identities renumbered by first occurrence) with `parseSk` of the collapsed stream.
"""
from __future__ import annotations

import re
from io import StringIO
from typing import Any

from vp import core

_BARE = re.compile(r"[a-zA-Z_][a-zA-Z0-9_$.]*")  # bare-id of the MLIR grammar, transcribed


class Interner:
    def __init__(self) -> None:
        self.d: dict[Any, int] = {}

    def __call__(self, k: Any) -> int:
        v = self.d.get(k)
        if v is None:
            v = self.d[k] = len(self.d)
        return v


def span_printer_class():
    from xdsl.printer import Printer

    class SpanPrinter(Printer):
        """the real printer + a record of where top-level attributes/types were written"""

        def __init__(self, *a: Any, **k: Any) -> None:
            super().__init__(*a, **k)
            self.sk_depth = 0
            self.sk_spans: list[tuple[int, int, Any]] = []

        def print_attribute(self, attribute) -> None:  # type: ignore[override]
            if self.sk_depth:
                return super().print_attribute(attribute)
            self.sk_depth = 1
            start = self.stream.tell()  # type: ignore[union-attr]
            try:
                super().print_attribute(attribute)
            finally:
                self.sk_depth = 0
            self.sk_spans.append((start, self.stream.tell(), attribute))  # type: ignore[union-attr]

    return SpanPrinter


_SP = None


class Printed:
    """one generic print of a module with everything the serialiser needs"""

    def __init__(self, module) -> None:
        global _SP
        if _SP is None:
            _SP = span_printer_class()
        io = StringIO()
        p = _SP(stream=io, print_generic_format=True)
        p.print_op(module)
        self.text = io.getvalue()
        self.spans = p.sk_spans
        self.val_names = {id(v): n for v, n in p._ssa_values.items()}  # noqa: SLF001
        self.block_names = {id(b): n for b, n in p._blocks.items()}  # noqa: SLF001
        self.attr_text = {id(a): self.text[s:e] for s, e, a in self.spans}
        self._keep = (list(p._ssa_values), list(p._blocks))  # noqa: SLF001


_ATTR_TEXT: dict[Any, str] = {}  # printed text of an attribute value (whole run)


class NoPrint:
    """stands in for `Printed` when a module is serialised without printing it: the text of an
    attribute comes from the cache / a separate print"""
    attr_text: dict[int, str] = {}


class Tables:
    """interning shared by everything that belongs to one case"""

    def __init__(self) -> None:
        self.opq = Interner()
        self.key = Interner()
        self.name = Interner()
        self.extra_text: dict[int, str] = {}

    def opq_of(self, attr, pr: Printed) -> tuple[int, int]:
        from xdsl.dialects.builtin import FunctionType

        t = pr.attr_text.get(id(attr))
        if t is None:
            try:
                t = _ATTR_TEXT.get(attr)
            except TypeError:  # unhashable payload
                t = None
            if t is None:
                from xdsl.printer import Printer

                io = StringIO()
                Printer(stream=io, print_generic_format=True).print_attribute(attr)
                t = io.getvalue()
                try:
                    _ATTR_TEXT[attr] = t
                except TypeError:
                    pass
        return self.opq(t), int(isinstance(attr, FunctionType))


# ---------------------------------------------------------------------------------------------
# real text → collapsed token stream
# ---------------------------------------------------------------------------------------------

def _balanced(text: str) -> bool | None:
    """is the attribute text a bracket-balanced token group?  None: the lexer cannot tell (the text
    contains `//`, which the lexer takes for a comment; the parser reads such bodies by characters)"""
    from xdsl.utils.lexer import Input
    from xdsl.utils.mlir_lexer import MLIRLexer, MLIRTokenKind as K

    if "//" in text:
        return None
    opening = {K.L_PAREN: K.R_PAREN, K.L_BRACE: K.R_BRACE, K.L_SQUARE: K.R_SQUARE, K.LESS: K.GREATER}
    closing = {K.R_PAREN, K.R_BRACE, K.R_SQUARE}
    lexer = MLIRLexer(Input(text, "<attr>"))
    stack: list[Any] = []
    try:
        tok = lexer.lex()
        while tok.kind != K.EOF:
            k = tok.kind
            if k in opening:
                stack.append(opening[k])
            elif k in closing:
                # a `<` still open here was a comparison operator, not a bracket
                while stack and stack[-1] == K.GREATER and stack[-1] != k:
                    stack.pop()
                if not stack or stack.pop() != k:
                    return False
            elif k == K.GREATER and stack and stack[-1] == k:
                stack.pop()  # otherwise `>` is an operator (`d0 >= 0`)
            tok = lexer.lex()
    except Exception:  # noqa: BLE001
        return None
    return all(c == K.GREATER for c in stack)


_BAL: dict[str, bool | None] = {}


def collapse(pr: Printed, tb: Tables, src: list[str] | None = None) -> tuple[list[str], str | None]:
    """(tokens of the protocol, problem): the real lexer over the real text; the lexer jumps over
    each recorded attribute span, which becomes one opaque token"""
    from xdsl.utils.lexer import Input
    from xdsl.utils.mlir_lexer import MLIRLexer, MLIRTokenKind as K

    punct = {K.L_PAREN: "(", K.R_PAREN: ")", K.L_BRACE: "{", K.R_BRACE: "}", K.L_SQUARE: "[", K.R_SQUARE: "]",
             K.LESS: "<", K.GREATER: ">", K.COMMA: ",", K.EQUAL: "=", K.COLON: ":", K.ARROW: "->"}
    text = pr.text
    lexer = MLIRLexer(Input(text, "<printed>"))
    spans = pr.spans
    si = 0
    out: list[str] = []
    problem = None
    identch = re.compile(r"[A-Za-z0-9_$.]")
    ws = re.compile(r"\s*")
    while True:
        if si < len(spans) and ws.match(text, lexer.pos).end() >= spans[si][0]:  # type: ignore[union-attr]
            s, e, _attr = spans[si]
            grp = text[s:e]
            if grp not in _BAL:
                _BAL[grp] = _balanced(grp)
            if _BAL[grp] is False:
                problem = problem or f"attribute text {grp!r} is not a balanced token group"
            if (s > 0 and identch.match(text[s - 1]) and identch.match(text[s])) or \
                    (e < len(text) and identch.match(text[e - 1]) and identch.match(text[e])):
                problem = problem or f"attribute text {grp!r} is glued to a neighbouring token"
            out.append(("F" if grp.startswith("(") else "A") + str(tb.opq(grp)))
            if src is not None:
                src.append(grp)
            lexer.pos = e
            si += 1
            continue
        tok = lexer.lex()
        k = tok.kind
        if k == K.EOF:
            break
        if si < len(spans) and tok.span.end > spans[si][0]:
            problem = problem or f"token {tok.span.text!r} runs into an attribute span"
        if src is not None:
            src.append(tok.span.text)
        if k in punct:
            out.append(punct[k])
        elif k == K.PERCENT_IDENT:
            out.append("%" + tok.span.text[1:])
        elif k == K.CARET_IDENT:
            out.append("^" + tok.span.text[1:])
        elif k == K.STRING_LIT:
            out.append("S" + str(tb.name(k.get_string_literal_value(tok.span))))
        elif k == K.BARE_IDENT:
            out.append("I" + str(tb.name(tok.span.text)))
        else:
            out.append("?" + tok.span.text.replace(" ", "_"))
    if si != len(spans):
        problem = problem or "an attribute span was not reached by the lexer"
    return out, problem


# ---------------------------------------------------------------------------------------------
# IR objects → the model's IR
# ---------------------------------------------------------------------------------------------

class Ser:
    def __init__(self, tb: Tables, pr: Printed) -> None:
        self.tb, self.pr = tb, pr
        self.vid: dict[int, int] = {}
        self.bid: dict[int, int] = {}
        self.vorder: list[Any] = []
        self.border: list[Any] = []
        self.defs: dict[int, list[int]] = {}

    def v(self, x) -> int:
        k = id(x)
        if k not in self.vid:
            self.vid[k] = len(self.vid)
            self.vorder.append(x)
        return self.vid[k]

    def b(self, x) -> int:
        k = id(x)
        if k not in self.bid:
            self.bid[k] = len(self.bid)
            self.border.append(x)
        return self.bid[k]

    def entries(self, d) -> list[str]:
        from xdsl.dialects.builtin import UnitAttr

        out = [str(len(d))]
        for k, a in d.items():
            kid = self.tb.name(k)
            bare = int(_BARE.fullmatch(k) is not None)
            if isinstance(a, UnitAttr):
                out += [str(kid), str(bare), "0", "0", "0"]
            else:
                o, f = self.tb.opq_of(a, self.pr)
                out += [str(kid), str(bare), "1", str(o), str(f)]
        return out

    def tys(self, ts) -> list[str]:
        out = [str(len(ts))]
        for t in ts:
            o, f = self.tb.opq_of(t, self.pr)
            out += [str(o), str(f)]
        return out

    def op(self, o) -> list[str]:
        from xdsl.dialects.builtin import UnregisteredOp
        from xdsl.irdl import IRDLOperation

        attrs = o.attributes
        if isinstance(o, UnregisteredOp):
            # (the bare class `builtin.unregistered` without `op_name__` can come out of the parser)
            name = o.op_name.data if "op_name__" in attrs else o.name
            attrs = {k: a for k, a in attrs.items() if k != "op_name__"}
        else:
            name = o.name
        nid = self.tb.name(name)
        if nid not in self.defs:
            self.defs[nid] = ([self.tb.name(k) for k in type(o).get_irdl_definition().properties.keys()]
                              if isinstance(o, IRDLOperation) else [])
        out = ["O", str(nid)]
        out += [str(len(o.results))] + [str(self.v(r)) for r in o.results]
        out += [str(len(o.operands))] + [str(self.v(x)) for x in o.operands]
        out += [str(len(o.successors))] + [str(self.b(x)) for x in o.successors]
        out += self.entries(o.properties)
        out += self.entries(attrs)
        out += self.tys([x.type for x in o.operands])
        out += self.tys([r.type for r in o.results])
        out.append(str(len(o.regions)))
        for r in o.regions:
            bs = list(r.blocks)
            out += ["R", str(len(bs))]
            for b in bs:
                out += ["B", str(self.b(b)), str(len(b.args))]
                for a in b.args:
                    t, f = self.tb.opq_of(a.type, self.pr)
                    out += [str(self.v(a)), str(t), str(f)]
                ops = list(b.ops)
                out.append(str(len(ops)))
                for x in ops:
                    out += self.op(x)
        return out

    def defs_part(self) -> list[str]:
        out = ["D", str(len(self.defs))]
        for o, ks in self.defs.items():
            out += [str(o), str(len(ks))] + [str(k) for k in ks]
        return out


def sk_line(module, pr: Printed, tb: Tables) -> tuple[str, Ser]:
    s = Ser(tb, pr)
    tree = ["T", "1"] + s.op(module)
    vt = ["V", str(len(s.vorder))]
    for x in s.vorder:
        vt += [str(s.vid[id(x)]), pr.val_names.get(id(x), "?unprinted")]
    bt = ["B", str(len(s.border))]
    for x in s.border:
        bt += [str(s.bid[id(x)]), pr.block_names.get(id(x), "?unprinted")]
    return " ".join(["sk"] + vt + bt + s.defs_part() + tree), s


# ---------------------------------------------------------------------------------------------
# canonical reading of a serialised tree (identities by first occurrence)
# ---------------------------------------------------------------------------------------------

def canon_tree(ts: list[str]) -> Any:
    """`nOps op…` → nested tuples with values / blocks renumbered in reading order"""
    pos = 0
    vmap: dict[str, int] = {}
    bmap: dict[str, int] = {}

    def nxt() -> str:
        nonlocal pos
        pos += 1
        return ts[pos - 1]

    def val() -> int:
        return vmap.setdefault(nxt(), len(vmap))

    def blk() -> int:
        return bmap.setdefault(nxt(), len(bmap))

    def many(f):
        return tuple(f() for _ in range(int(nxt())))

    def entry():
        return (nxt(), nxt(), nxt(), nxt(), nxt())

    def opq():
        return (nxt(), nxt())

    def op():
        assert nxt() == "O"
        name = nxt()
        res = many(val)
        opnd = many(val)
        succ = many(blk)
        props = many(entry)
        attrs = many(entry)
        ins = many(opq)
        outs = many(opq)
        regs = many(region)
        return ("op", name, res, opnd, succ, props, attrs, ins, outs, regs)

    def region():
        assert nxt() == "R"
        return ("region", many(block))

    def block():
        assert nxt() == "B"
        b = blk()
        args = many(lambda: (val(), nxt(), nxt()))
        return ("block", b, args, many(op))

    out = many(op)
    if pos != len(ts):
        raise core.InfraError("C04 skeleton: trailing fields in a serialised tree")
    return out


def mask_opq(t: Any) -> Any:
    """the same tree with every opaque id replaced (payload differences are C06's business)"""
    if isinstance(t, tuple):
        if t and t[0] == "op":
            name, res, opnd, succ, props, attrs, ins, outs, regs = t[1:]
            return ("op", name, res, opnd, succ, tuple((e[0], e[1], e[2]) for e in props),
                    tuple((e[0], e[1], e[2]) for e in attrs), len(ins), len(outs), mask_opq(regs))
        if t and t[0] == "block":
            return ("block", t[1], tuple(a[0] for a in t[2]), mask_opq(t[3]))
        return tuple(mask_opq(x) for x in t)
    return t


# ---------------------------------------------------------------------------------------------
# one case
# ---------------------------------------------------------------------------------------------

class Case:
    __slots__ = ("lines", "real_toks", "real_tree", "problem", "desc", "text", "parse_error", "src", "defs", "tb")

    def __init__(self) -> None:
        self.lines: list[str] = []
        self.real_toks: list[str] = []
        self.real_tree: Any = None
        self.problem: str | None = None
        self.desc: Any = None
        self.text = ""
        self.parse_error: str | None = None
        self.src: list[str] = []
        self.defs: list[str] = []
        self.tb: Tables | None = None


def prepare(module, desc: Any, parse_module, m2=None) -> Case:
    """everything of one module that needs the real code; `parse_module(text)` = the real parser in
    a fresh Context (`m2`: its result, when the caller has it already)"""
    c = Case()
    c.desc = desc
    tb = Tables()
    pr = Printed(module)
    c.text = pr.text
    c.real_toks, c.problem = collapse(pr, tb, c.src)
    line, s = sk_line(module, pr, tb)
    c.defs = s.defs_part()
    c.tb = tb
    c.lines.append(line)
    c.lines.append(" ".join(["parse"] + s.defs_part() + ["K"] + c.real_toks))
    if m2 is None:
        try:
            m2 = parse_module(pr.text)
        except Exception as e:  # noqa: BLE001
            c.parse_error = core.exc_name(e)
            return c
    s2 = Ser(tb, NoPrint)  # type: ignore[arg-type]
    c.real_tree = canon_tree(["1"] + s2.op(m2))
    return c


def judge(ctx: core.Ctx, c: Case, out: list[str], family: str, rt_ok: bool) -> None:
    """compare the model's two answers for one case with the real observations"""
    ctx.ev()
    a, b = out
    case = {"family": family, "skeleton": True, **(c.desc if isinstance(c.desc, dict) else {"case": c.desc})}
    if c.problem:
        ctx.count("skeleton.ungroupable")
        ctx.mismatch("correspondence:C04/skeleton.groups", case, c.problem, "attribute/type groups are balanced",
                     "a printed attribute is not a balanced token group")
        return
    w = a.split(" ")
    if len(w) < 5 or w[0] != "adm" or w[2] != "rt" or w[4] != "toks":
        ctx.mismatch("correspondence:C04/skeleton.print", case, c.real_toks[:80], a[:300], "the model rejects the serialised module")
        return
    adm, rt, toks = w[1] == "true", w[3] == "true", w[5:]
    if toks != c.real_toks:
        i = next((k for k, (x, y) in enumerate(zip(toks, c.real_toks)) if x != y), min(len(toks), len(c.real_toks)))
        ctx.count("skeleton.print_differs")
        ctx.mismatch("correspondence:C04/skeleton.print", {**case, "token": i},
                     c.real_toks[max(0, i - 12):i + 6], toks[max(0, i - 12):i + 6],
                     "token stream of the real generic printer differs from printSk")
        return
    ctx.count("skeleton.print_equal")
    ctx.count("skeleton.tokens", len(toks))
    if adm:
        ctx.count("skeleton.admissible")
        if not rt:
            ctx.mismatch("correspondence:C04/skeleton.roundtrip", case, "admissible", "parseSk (printSk ir) is not ir",
                         "the model's own round trip fails on an admissible module (contradicts skeleton_roundtrip)")
            return
    elif rt_ok:
        ctx.count("skeleton.not_admissible")
        ctx.mismatch("correspondence:C04/skeleton.admissible", case, "real round trip holds", "admissible = false",
                     "a module that really round-trips is outside the hypothesis of skeleton_roundtrip")
        return
    # parse side
    if c.parse_error is not None:
        if b != "none" and rt_ok:
            ctx.mismatch("correspondence:C04/skeleton.parse", case, "raise " + c.parse_error, b[:200],
                         "the real parser rejects the printed text, parseSk accepts the token stream")
        ctx.count("skeleton.real_parse_error")
        return
    if not b.startswith("tree "):
        ctx.mismatch("correspondence:C04/skeleton.parse", case, "parsed", b[:200],
                     "parseSk rejects a token stream the real parser accepts")
        return
    mt = canon_tree(b.split(" ")[1:])
    if mt == c.real_tree:
        ctx.count("skeleton.parse_equal")
        return
    if mask_opq(mt) == mask_opq(c.real_tree):
        # same skeleton, different payload text after re-parse: reported (or not) by the round-trip oracle
        ctx.count("skeleton.parse_equal_up_to_payload")
        return
    ctx.count("skeleton.parse_differs")
    from props import c04_ir as I

    ctx.mismatch("correspondence:C04/skeleton.parse", case, str(I.first_diff(c.real_tree, mt))[:400], "equal trees",
                 "structure built by the real parser differs from parseSk of the same token stream")


class SkBatch:
    def __init__(self, ctx: core.Ctx, family: str, mut: "MutBatch | None" = None, mut_p: float = 0.0, mut_k: int = 0,
                 stride: int = 1) -> None:
        self.ctx, self.family = ctx, family
        self.cases: list[tuple[Case, bool]] = []
        self.mut, self.mut_p, self.mut_k = mut, mut_p, mut_k
        self.stride, self.seen = max(1, stride), 0

    def add(self, module, desc: Any, rt_ok: bool, m2=None) -> None:
        import os
        from props import c04_ir as I

        if os.environ.get("C04_NO_SK"):
            return
        self.seen += 1
        if (self.seen + self.ctx.seed) % self.stride:
            self.ctx.count("skeleton.not_sampled")
            return
        c = prepare(module, desc, I.parse_module, m2)
        self.cases.append((c, rt_ok))
        if self.mut is not None and rt_ok and len(c.real_toks) <= 400 and self.ctx.rng.random() < self.mut_p:
            self.mut.add(c, self.mut_k)
        if len(self.cases) >= 400:
            self.finish()

    def finish(self) -> None:
        if not self.cases:
            return
        lines: list[str] = []
        for c, _ in self.cases:
            lines += c.lines
        out = self.ctx.model("skeleton", lines)
        for k, (c, ok) in enumerate(self.cases):
            judge(self.ctx, c, out[2 * k:2 * k + 2], self.family, ok)
        self.cases = []


# ---------------------------------------------------------------------------------------------
# hand-written corner texts
# ---------------------------------------------------------------------------------------------

CORNER_TEXTS = [
    '"a.b"() : () -> ()',
    '%0 = "a.b"() : () -> i32\n"a.c"(%0, %0) : (i32, i32) -> ()',
    '%0 = "a.b"() : () -> ((i32) -> i32)\n%1, %2 = "a.c"(%0) : ((i32) -> i32) -> (i32, (i32) -> i32)\n'
    '%3 = "a.d"(%2, %1) : ((i32) -> i32, i32) -> (() -> ())',
    '"a.b"() <{p = 1 : i32, "q r" = "s", u}> {a, "b c" = [1, 2], d = (i32) -> i32, e = i32} : () -> ()',
    '"a.b"() ({\n}) : () -> ()',
    '"a.b"() ({\n}, {\n}) {x} : () -> ()',
    '"a.b"() ({\n^bb0:\n}) : () -> ()',
    '"a.b"() ({\n^bb0(%x : i32, %y : f32):\n  "a.c"(%y, %x) : (f32, i32) -> ()\n}) : () -> ()',
    '"a.b"() ({\n  "a.c"() : () -> ()\n}, {\n  %0 = "a.c"() : () -> i1\n}) : () -> ()',
    '"a.b"() ({\n  "a.br"() [^bb1] : () -> ()\n^bb1:\n  "a.br"() [^bb2, ^bb1] : () -> ()\n'
    '^bb2(%y : i32):\n  "a.c"(%y) : (i32) -> ()\n}) : () -> ()',
    '"a.b"() ({\n^bb0:\n  "a.br"() [^bb0] : () -> ()\n}) : () -> ()',
    '"a.b"() ({\n  "a.c"(%1) : (i32) -> ()\n  %1 = "a.d"() : () -> i32\n}) : () -> ()',
    '"a.b"() ({\n  "a.br"(%v) [^bb2] : (i32) -> ()\n^bb1:\n  "a.c"(%w) ({\n    "a.e"(%v, %w) : (i32, i64) -> ()\n  }) : (i64) -> ()\n'
    '^bb2(%w : i64):\n  %v = "a.d"() [^bb1] : () -> i32\n}) : () -> ()',
    '"a.b"() ({\n  %0 = "a.c"() : () -> i32\n}, {\n  %0 = "a.c"() : () -> i64\n  "a.d"(%0) : (i64) -> ()\n}) : () -> ()',
    '%a = "a.b"() : () -> i32\n%a_1 = "a.b"() : () -> i32\n"a.c"(%a, %a_1) ({\n^foo(%a_2 : i32):\n  "a.br"(%a)[^foo] : (i32) -> ()\n}) : (i32, i32) -> ()',
    '"a.b"() ({\n  "a.c"() ({\n    "a.d"() ({\n    ^bb0:\n    }) : () -> ()\n  }) : () -> ()\n}) : () -> ()',
    '%0:2 = "a.b"() : () -> (i32, i32)\n"a.c"(%0#1) : (i32) -> ()',
    '"builtin.module"() ({\n  "func.func"() <{sym_name = "f", function_type = (i32) -> i32}> ({\n  ^bb0(%x : i32):\n    "func.return"(%x) : (i32) -> ()\n  }) : () -> ()\n}) : () -> ()',
    '"a.b"() {sym_name = "x"} : () -> ()\n"func.func"() ({\n}) {sym_name = "g", function_type = () -> (), sym_visibility = "private"} : () -> ()',
]


# ---------------------------------------------------------------------------------------------
# token-level mutations: the real parser against parseSk on streams nobody printed
# ---------------------------------------------------------------------------------------------

def placeholder(tok: str) -> str:
    """an opaque group becomes a type that is also an attribute, distinct per id"""
    return f"() -> !sk.t{tok[1:]}" if tok[0] == "F" else f"!sk.t{tok[1:]}"


def rebase(c: Case) -> tuple[list[str], list[str], Tables]:
    """the stream of a case with every opaque group replaced by its placeholder (ids re-interned by
    the placeholder text), and the text of every token"""
    assert c.tb is not None
    tb = Tables()
    tb.name = c.tb.name
    toks, src = [], []
    for t, s in zip(c.real_toks, c.src):
        if t[0] in "AF" and t[1:].isdigit():
            ph = placeholder(t)
            toks.append(t[0] + str(tb.opq(ph)))
            src.append(ph)
        else:
            toks.append(t)
            src.append(s)
    return toks, src, tb


def mutate(rng, toks: list[str], src: list[str]) -> tuple[list[str], list[str], str] | None:
    n = len(toks)
    if n < 8:
        return None
    kind = rng.choice(["delete", "dup", "swap", "insert", "rename", "rename", "rename", "retype", "retype"])
    i = rng.randrange(3, n - 3)
    t, s = list(toks), list(src)
    if kind == "delete":
        del t[i], s[i]
    elif kind == "dup":
        t.insert(i, t[i]), s.insert(i, s[i])
    elif kind == "swap":
        t[i], t[i + 1] = t[i + 1], t[i]
        s[i], s[i + 1] = s[i + 1], s[i]
    elif kind == "rename":
        sig = rng.choice("%^")
        idx = [k for k, x in enumerate(toks) if x[0] == sig]
        if len(idx) < 2:
            return None
        a, b = rng.choice(idx), rng.choice(idx)
        if toks[a] == toks[b]:
            return None
        t[a], s[a] = toks[b], src[b]
    elif kind == "retype":
        idx = [k for k, x in enumerate(toks) if x[0] in "AF" and x[1:].isdigit()]
        if len(idx) < 2:
            return None
        a, b = rng.choice(idx), rng.choice(idx)
        if toks[a] == toks[b]:
            return None
        t[a], s[a] = toks[b], src[b]
    else:
        k = rng.randrange(n)
        t.insert(i, toks[k]), s.insert(i, src[k])
    return t, s, kind


def real_parse_tree(text: str, tb: Tables):
    """(canonical tree | None, error) of the real parser on `text`"""
    from props import c04_ir as I

    try:
        m2 = I.parse_module(text)
    except Exception as e:  # noqa: BLE001
        return None, core.exc_name(e) + ": " + str(e).strip().splitlines()[-1][:120] if str(e).strip() else core.exc_name(e)
    return m2, None


def module_tree(m2, tb: Tables, model_tree: Any):
    """serialise what `parse_module` returned the way the model sees the top level: an operation
    list (a single top-level `builtin.module` is returned as such, anything else is wrapped)"""
    from xdsl.dialects.builtin import ModuleOp

    s2 = Ser(tb, NoPrint)  # type: ignore[arg-type]
    single = (model_tree is not None and len(model_tree) == 1
              and model_tree[0][1] == str(tb.name("builtin.module")))
    if single or not isinstance(m2, ModuleOp):
        return canon_tree(["1"] + s2.op(m2))
    ops = list(m2.body.block.ops)
    out = [str(len(ops))]
    for o in ops:
        out += s2.op(o)
    return canon_tree(out)


class MutBatch:
    def __init__(self, ctx: core.Ctx) -> None:
        self.ctx = ctx
        self.items: list[tuple[list[str], list[str], Tables, list[str], str, Any]] = []

    def add(self, c: Case, k: int) -> None:
        if c.problem or not c.real_toks or c.tb is None:
            return
        toks, src, tb = rebase(c)
        # the unmutated rebased stream first: must behave like the original
        self.items.append((toks, src, tb, c.defs, "identity", c.desc))
        for _ in range(k):
            m = mutate(self.ctx.rng, toks, src)
            if m is not None:
                self.items.append((m[0], m[1], tb, c.defs, m[2], c.desc))
        if len(self.items) >= 1500:
            self.finish()

    def finish(self) -> None:
        ctx = self.ctx
        if not self.items:
            return
        ctx.count("mutation.streams", len(self.items))
        lines = [" ".join(["parse"] + d + ["K"] + t) for t, _s, _tb, d, _k, _desc in self.items]
        out = ctx.model("skeleton", lines)
        for (toks, src, tb, _d, kind, desc), ans, line in zip(self.items, out, lines):
            ctx.ev()
            text = " ".join(src)
            m2, err = real_parse_tree(text, tb)
            base = desc if isinstance(desc, dict) else {"case": desc}
            case = {"family": "mutation", "skeleton": True, "kind": kind, "text": text, "line": line,
                    "names": list(tb.name.d), "opqs": list(tb.opq.d),
                    "base": {k: v for k, v in base.items() if k in ("family", "file", "chunk", "corner", "pass")}}
            if len(text) > 6000:
                case = {k: v for k, v in case.items() if k not in ("line", "names", "opqs")}
                case["text"] = text[:1500]
            if ans == "bad-op":
                raise core.InfraError("C04 skeleton: the driver rejected a mutated token stream: " + " ".join(toks)[:300])
            if m2 is None:
                ctx.count("mutation.real_reject")
                if ans != "none":
                    ctx.count("mutation.differs")
                    ctx.mismatch("correspondence:C04/skeleton.mutation", case, "raise " + str(err), ans[:300],
                                 "the real parser rejects a token stream that parseSk accepts")
                else:
                    ctx.nt(("mutation-reject", kind, text))
                continue
            ctx.count("mutation.real_accept")
            if not ans.startswith("tree "):
                ctx.count("mutation.differs")
                ctx.mismatch("correspondence:C04/skeleton.mutation", case, "parsed", ans[:300],
                             "parseSk rejects a token stream that the real parser accepts")
                continue
            mt = canon_tree(ans.split(" ")[1:])
            rt = module_tree(m2, tb, mt)
            if mt != rt:
                from props import c04_ir as I

                ctx.count("mutation.differs")
                ctx.mismatch("correspondence:C04/skeleton.mutation", case, str(I.first_diff(rt, mt))[:400], "equal trees",
                             "structure built by the real parser differs from parseSk of the same token stream")
            elif kind != "identity":
                ctx.nt(("mutation-accept", kind, text))
        self.items = []


# ---------------------------------------------------------------------------------------------
# replay
# ---------------------------------------------------------------------------------------------

class _ReplayCtx:
    """collects what `judge` / `MutBatch.finish` would report"""

    def __init__(self, ctx: core.Ctx) -> None:
        self.real = ctx
        self.rng = ctx.rng
        self.seed = 0
        self.found: list[tuple] = []

    def ev(self) -> None: ...
    def nt(self, k: Any) -> None: ...
    def count(self, k: str, n: int = 1) -> None: ...

    def mismatch(self, *a: Any) -> None:
        self.found.append(a)

    def model(self, name: str, lines: list[str]) -> list[str]:
        return self.real.model(name, lines)


def replay_module(ctx: core.Ctx, module, family: str) -> int:
    from props import c04_ir as I

    r = _ReplayCtx(ctx)
    rt = I.roundtrip(module)
    c = prepare(module, {}, I.parse_module, rt.m2)
    out = ctx.model("skeleton", c.lines)
    print(c.text[:3000])
    print("real tokens :", " ".join(c.real_toks)[:3000])
    print("model answer:", out[0][:3000])
    judge(r, c, out, family, rt.ok)  # type: ignore[arg-type]
    for f in r.found:
        print("MISMATCH", f[0], "-", f[4] if len(f) > 4 else "", "\n  real :", f[2], "\n  model:", f[3])
    print("skeleton correspondence", "BROKEN" if r.found else "holds", "on this case")
    return 1 if r.found else 0


def replay_mutation(ctx: core.Ctx, case: dict) -> int:
    """the mutated text is replayed as it is: real parser vs parseSk of its token stream"""
    from props import c04_ir as I

    text = case["text"]
    print(text)
    if "line" not in case:
        print("(the case was too long to store its token stream; only the text is shown)")
        return 2
    tb = Tables()
    for n in case["names"]:
        tb.name(n)
    for o in case["opqs"]:
        tb.opq(o)
    try:
        m2 = I.parse_module(text)
        print("real parser: accepts")
    except Exception as e:  # noqa: BLE001
        m2 = None
        print("real parser: raises", core.exc_name(e), str(e).strip().splitlines()[-1][:200] if str(e).strip() else "")
    ans = ctx.model("skeleton", [case["line"]])[0]
    print("parseSk    :", ans[:1500])
    bad = (m2 is None) != (ans == "none")
    if m2 is not None and ans.startswith("tree "):
        from props import c04_ir as I2

        mt = canon_tree(ans.split(" ")[1:])
        rt = module_tree(m2, tb, mt)
        if rt != mt:
            bad = True
            print("first difference (real vs model):", I2.first_diff(rt, mt))
    print("skeleton correspondence", "BROKEN" if bad else "holds", "on this case")
    return 1 if bad else 0
