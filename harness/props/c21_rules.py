"""C21 — `rules` leg: the scalar-integer patterns of the x86 back end against their Lean rule model.

For every pattern (lowering: ArithConstantToX86, ArithBinaryToX86, LowerFuncOp, LowerReturnOp,
PtrAddToX86, PtrLoadToX86, PtrStoreToX86; canonicalization: RemoveRedundantDS_Mov, RS_Add_Zero,
DM_/MS_Operation_ConstantOffset) the REAL pass / pattern is run on small inputs enumerated over
operation × type × immediate × operand shape; the emitted instruction sequence is extracted from the
resulting IR and

 (oracle)          executed on the Lean x86 machine (model `x86_rules`, command `xrun`) from random
                   operand values: the destination must hold the value the source operation computes
                   (Python integers modulo 2^w, written independently of xDSL) and nothing else the rule
                   promises to keep may change; a sample is also assembled and run on the CPU;
 (correspondence)  compared token by token with what the Lean rule (`XdslModel/X86Rules.lean`) emits —
                   the theorems of `XdslProofs/C21Rules.lean` speak about exactly these sequences.

Register numbering: physical registers 0..15 (hardware encoding), source values 100.., new
temporaries 200.. in order of appearance.
"""
from __future__ import annotations

import contextlib
import io
import json
from typing import Any, Sequence

from vp import core

SRC0 = 100
TMP0 = 200
M64 = (1 << 64) - 1

SZ_OF_CLASS = {"Reg64Type": "q", "Reg32Type": "d", "Reg16Type": "w", "Reg8Type": "b"}
BITS = {"q": 64, "d": 32, "w": 16, "b": 8}
R64 = ["rax", "rcx", "rdx", "rbx", "rsp", "rbp", "rsi", "rdi"] + [f"r{i}" for i in range(8, 16)]
R32 = ["eax", "ecx", "edx", "ebx", "esp", "ebp", "esi", "edi"] + [f"r{i}d" for i in range(8, 16)]
R16 = ["ax", "cx", "dx", "bx", "sp", "bp", "si", "di"] + [f"r{i}w" for i in range(8, 16)]
R8 = ["al", "cl", "dl", "bl", "spl", "bpl", "sil", "dil"] + [f"r{i}b" for i in range(8, 16)]
NAMES = {"q": R64, "d": R32, "w": R16, "b": R8}
REG_INDEX = {n: i for names in (R64, R32, R16, R8) for i, n in enumerate(names)}
ARG_REGS = [7, 6, 2, 1, 8, 9]

SITE = {
    "const": "xdsl.backend.x86.lowering.convert_arith_to_x86.ArithConstantToX86.match_and_rewrite",
    "bin": "xdsl.backend.x86.lowering.convert_arith_to_x86.ArithBinaryToX86.match_and_rewrite",
    "entry": "xdsl.backend.x86.lowering.convert_func_to_x86_func.LowerFuncOp.match_and_rewrite",
    "ret": "xdsl.backend.x86.lowering.convert_func_to_x86_func.LowerReturnOp.match_and_rewrite",
    "ptradd": "xdsl.backend.x86.lowering.convert_ptr_to_x86.PtrAddToX86.match_and_rewrite",
    "ptrload": "xdsl.backend.x86.lowering.convert_ptr_to_x86.PtrLoadToX86.match_and_rewrite",
    "ptrstore": "xdsl.backend.x86.lowering.convert_ptr_to_x86.PtrStoreToX86.match_and_rewrite",
    "RemoveRedundantDS_Mov": "xdsl.transforms.canonicalization_patterns.x86.RemoveRedundantDS_Mov.match_and_rewrite",
    "RS_Add_Zero": "xdsl.transforms.canonicalization_patterns.x86.RS_Add_Zero.match_and_rewrite",
    "DM_Operation_ConstantOffset": "xdsl.transforms.canonicalization_patterns.x86.DM_Operation_ConstantOffset.match_and_rewrite",
    "MS_Operation_ConstantOffset": "xdsl.transforms.canonicalization_patterns.x86.MS_Operation_ConstantOffset.match_and_rewrite",
}

# ---------------------------------------------------------------------------------------------
# xDSL adapter
# ---------------------------------------------------------------------------------------------

_CTX: Any = None


def _context() -> Any:
    global _CTX
    if _CTX is None:
        from xdsl.context import Context
        from xdsl.dialects import get_all_dialects

        _CTX = Context(allow_unregistered=True)
        for n, f in get_all_dialects().items():
            _CTX.register_dialect(n, f)
    return _CTX


def parse(text: str) -> Any:
    from xdsl.parser import Parser

    try:
        m = Parser(_context(), text).parse_module()
        m.verify()
    except Exception as e:  # noqa: BLE001
        raise core.InfraError(f"rules leg: generated input does not parse/verify: {e}\n{text}")
    return m


def apply_pass(module: Any, which: str) -> str:
    """'ok' or 'raise:<exception class>'"""
    from xdsl.backend.x86.lowering.convert_arith_to_x86 import ConvertArithToX86Pass
    from xdsl.backend.x86.lowering.convert_func_to_x86_func import ConvertFuncToX86FuncPass
    from xdsl.backend.x86.lowering.convert_ptr_to_x86 import ConvertPtrToX86Pass
    from xdsl.transforms.canonicalize import CanonicalizePass

    p = {"arith": lambda: ConvertArithToX86Pass(), "func": lambda: ConvertFuncToX86FuncPass(),
         "ptr": lambda: ConvertPtrToX86Pass(arch="avx2"), "canonicalize": lambda: CanonicalizePass()}[which]()
    try:
        with contextlib.redirect_stdout(io.StringIO()), contextlib.redirect_stderr(io.StringIO()):
            p.apply(_context(), module)
    except Exception as e:  # noqa: BLE001
        return "raise:" + type(e).__name__
    return "ok"


def apply_pattern(module: Any, name: str) -> str:
    """one canonicalization pattern of canonicalization_patterns/x86.py, applied greedily"""
    from xdsl.pattern_rewriter import GreedyRewritePatternApplier, PatternRewriteWalker
    from xdsl.transforms.canonicalization_patterns import x86 as pats

    pat = getattr(pats, name)()
    try:
        PatternRewriteWalker(GreedyRewritePatternApplier([pat])).rewrite_module(module)
    except Exception as e:  # noqa: BLE001
        return "raise:" + type(e).__name__
    return "ok"


class Extract:
    """straight-line block → instruction tokens of the Lean protocol"""

    def __init__(self) -> None:
        self.names: dict[int, int] = {}
        self.keep: list[Any] = []
        self.nsrc = 0
        self.ntmp = 0
        self.tokens: list[str] = []
        self.facts: list[list[str]] = []   # per token: what the x86 canonicalization patterns learn from the defining ops
        self.left: list[str] = []          # source-dialect operations still present
        self.unparsed: list[str] = []
        self.uses: list[list[int]] = []    # operands of the consumers ("test.op")
        self.use_sz: list[list[str]] = []

    def bind(self, v: Any, n: int) -> None:
        self.names[id(v)] = n
        self.keep.append(v)

    def src(self, v: Any) -> int:
        if id(v) not in self.names:
            self.bind(v, SRC0 + self.nsrc)
            self.nsrc += 1
        return self.names[id(v)]

    @staticmethod
    def phys(t: Any) -> int | None:
        name = t.register_name.data if hasattr(t, "register_name") else ""
        return REG_INDEX.get(name) if name else None

    @staticmethod
    def sz(t: Any) -> str:
        return SZ_OF_CLASS.get(type(t).__name__, "?")

    def use(self, v: Any) -> int:
        p = self.phys(v.type)
        if p is not None:
            return p
        return self.src(v)

    def define(self, v: Any) -> int:
        p = self.phys(v.type)
        if p is not None:
            self.bind(v, p)
            return p
        self.bind(v, TMP0 + self.ntmp)
        self.ntmp += 1
        return self.names[id(v)]

    def emit(self, tok: str, facts: Sequence[str] = ()) -> None:
        self.tokens.append(tok)
        self.facts.append(list(facts))

    def mem_facts(self, mem: Any) -> list[str]:
        """`m := (x86.ds.mov b) + constant` as seen by {DM,MS}_Operation_ConstantOffset"""
        from xdsl.dialects import x86
        from xdsl.transforms.canonicalization_patterns.x86 import get_constant_value

        add = mem.owner
        if isinstance(add, x86.RS_AddOp) and (cv := get_constant_value(add.source)) is not None \
                and isinstance(mv := add.register_in.owner, x86.DS_MovOp):
            return [f"ma {self.use(mem)} {self.use(mv.source)} {cv.value.data}"]
        return []

    def block(self, blk: Any) -> None:
        from xdsl.dialects import asm, x86, x86_func
        from xdsl.transforms.canonicalization_patterns.x86 import get_constant_value

        alu = {x86.RS_AddOp: "add", x86.RS_SubOp: "sub", x86.RS_ImulOp: "imul", x86.RS_AndOp: "and",
               x86.RS_OrOp: "or", x86.RS_XorOp: "xor"}
        for a in blk.args:
            if self.phys(a.type) is None and id(a) not in self.names:
                self.src(a)
        for op in blk.ops:
            if isinstance(op, asm.ToRegOp):
                p = self.phys(op.register.type)
                n = self.use(op.value)
                if p is not None and p != n:
                    self.unparsed.append("asm.to_reg into an allocated register")
                self.bind(op.register, n)
            elif isinstance(op, asm.FromRegOp):
                self.bind(op.value, self.use(op.register))
            elif isinstance(op, x86.DS_MovOp):
                s = self.use(op.source)
                d = self.define(op.destination)
                if self.sz(op.destination.type) != self.sz(op.source.type):
                    self.unparsed.append("x86.ds.mov between register classes")
                self.emit(f"mov {self.sz(op.destination.type)} {d} {s}")
            elif isinstance(op, x86.DI_MovOp):
                d = self.define(op.destination)
                self.emit(f"movi {self.sz(op.destination.type)} {d} {op.immediate.value.data}")
            elif type(op) in alu:
                s = self.use(op.source)
                d = self.use(op.register_in)
                po = self.phys(op.register_out.type)
                if po is not None and po != d:
                    self.unparsed.append("x86.rs.* with different in/out registers")
                self.bind(op.register_out, d)
                if self.sz(op.register_in.type) != self.sz(op.source.type):
                    self.unparsed.append("x86.rs.* between register classes")
                cv = get_constant_value(op.source)
                self.emit(f"alu {alu[type(op)]} {self.sz(op.register_in.type)} {d} {s}",
                          [f"c {s} {cv.value.data}"] if cv is not None else [])
            elif isinstance(op, x86.DM_MovOp):
                b = self.use(op.memory)
                facts = self.mem_facts(op.memory)
                d = self.define(op.destination)
                k = op.memory_offset.value.data
                sz = self.sz(op.destination.type)
                self.emit(f"ld {sz} {d} {k}" if b == 4 else f"ldm {sz} {d} {b} {k}", facts)
            elif isinstance(op, x86.MS_MovOp):
                b = self.use(op.memory)
                s = self.use(op.source)
                self.emit(f"stm {self.sz(op.source.type)} {b} {op.memory_offset.value.data} {s}", self.mem_facts(op.memory))
            elif isinstance(op, x86_func.RetOp):
                self.emit("ret")
            elif op.name == "test.op":
                self.uses.append([self.use(v) for v in op.operands])
                self.use_sz.append([self.sz(v.type) for v in op.operands])
            elif op.name == "func.return":
                self.uses.append([self.use(v) for v in op.operands])
                self.use_sz.append([self.sz(v.type) for v in op.operands])
            elif op.name.startswith(("x86.", "x86_func.", "asm.")):
                self.unparsed.append(op.name)
            else:
                self.left.append(op.name)
                for r in op.results:
                    self.src(r)


def first_func(module: Any) -> Any:
    return next(o for o in module.walk() if o.name in ("func.func", "x86_func.func"))


def extract(module: Any, pre: Sequence[tuple[Any, int]] = ()) -> Extract:
    ex = Extract()
    f = first_func(module)
    blk = f.body.blocks.first
    for v, n in pre:
        ex.bind(v, n)
    ex.block(blk)
    return ex


# ---------------------------------------------------------------------------------------------
# type vocabulary
# ---------------------------------------------------------------------------------------------

INT_TYPES = ["i64", "i32", "i16", "i8", "index"]
REJECT_TYPES = ["i1", "i7", "i24", "i128"]
TYPE_TOKEN = {"index": "index", "!ptr_xdsl.ptr": "ptr", "vector<4xi32>": "vector", "tensor<4xi32>": "shaped",
              "memref<4xi32>": "shaped", "f32": "f32", "f64": "f64", "f16": "f16", "vector<2xi64>": "vector",
              "vector<4xf32>": "vector"}


def tytok(ty: str) -> str:
    return TYPE_TOKEN.get(ty, ty)


def width(ty: str) -> int:
    return 64 if ty in ("index", "!ptr_xdsl.ptr") else int(ty[1:])


def regsz(ty: str) -> str | None:
    """independent restatement of X86Arch._scalar_type_for_type for the generator's bookkeeping"""
    if ty in ("index", "!ptr_xdsl.ptr"):
        return "q"
    if ty[0] in "if" and ty[1:].isdigit():
        return {64: "q", 32: "d", 16: "w", 8: "b"}.get(int(ty[1:]))
    return None


BOUNDARY = [0, 1, -1, 2, -2, 7, 127, 128, -128, -129, 255, 256, 32767, 32768, -32768, 65535, 65536,
            2**31 - 1, -(2**31), 2**31, -(2**31) - 1, 2**32 - 1, 2**32, 2**63 - 1, -(2**63), 2**64 - 1]


def const_values(ty: str, rng: Any, extra: int) -> list[int]:
    """literals `arith.constant` accepts at this type: [-2^(w-1), 2^w)"""
    w = width(ty)
    lo, hi = -(1 << (w - 1)), (1 << w) - 1
    if ty == "index":
        hi = (1 << 63) - 1
    vals = [c for c in BOUNDARY if lo <= c <= hi]
    vals += [rng.randint(lo, hi) for _ in range(extra)]
    vals += [rng.randint(max(lo, -(2**31)), min(hi, 2**31 - 1)) for _ in range(extra)]
    return sorted(set(vals))


# ---------------------------------------------------------------------------------------------
# cases
# ---------------------------------------------------------------------------------------------
# A case is a JSON object {"kind": …, …}; `build(case)` gives the MLIR text, `expect_lines(case)` the
# Lean protocol lines whose answers, concatenated, are the expected instruction list.

ARITH_OPS = {"addi": "arith.addi", "muli": "arith.muli", "subi": "arith.subi", "andi": "arith.andi",
             "ori": "arith.ori", "xori": "arith.xori", "shli": "arith.shli", "divsi": "arith.divsi",
             "minsi": "arith.minsi"}


def case_text(c: dict) -> str:
    k = c["kind"]
    if k == "const":
        ty = c["ty"]
        lit = c["lit"]
        return f"func.func @f() -> {ty} {{\n  %r = arith.constant {lit} : {ty}\n  func.return %r : {ty}\n}}\n"
    if k == "bin":
        ty = c["ty"]
        # shape: operands are two arguments / the same argument twice / swapped / results of other operations
        shape = c["shape"]
        hdr = f"%a: {ty}, %b: {ty}"
        body = []
        if shape == "ab":
            x, y = "%a", "%b"
        elif shape == "ba":
            x, y = "%b", "%a"
        elif shape == "aa":
            x, y = "%a", "%a"
        elif shape == "ca":      # left operand is a constant defined in the function
            body.append(f"  %c = arith.constant {c.get('lit', 5)} : {ty}")
            x, y = "%c", "%a"
        elif shape == "ac":
            body.append(f"  %c = arith.constant {c.get('lit', 5)} : {ty}")
            x, y = "%a", "%c"
        elif shape == "chain":   # operand is the result of another lowered operation
            body.append(f"  %c = {ARITH_OPS['addi']} %a, %b : {ty}")
            x, y = "%c", "%a"
        else:
            raise ValueError(shape)
        body.append(f"  %r = {ARITH_OPS[c['op']]} {x}, {y} : {ty}")
        return f"func.func @f({hdr}) -> {ty} {{\n" + "\n".join(body) + f"\n  func.return %r : {ty}\n}}\n"
    if k == "func":
        tys = c["tys"]
        outs = c["outs"]
        hdr = ", ".join(f"%a{i}: {t}" for i, t in enumerate(tys))
        if not c.get("body", True):
            return f"func.func private @f({', '.join(tys)}) -> ({', '.join(outs)})\n"
        body = []
        rets = []
        for j, o in enumerate(outs):
            r = c["ret"][j]
            if isinstance(r, int):
                rets.append(f"%a{r}")
            else:
                body.append(f'  %o{j} = "test.op"() : () -> {o}')
                rets.append(f"%o{j}")
        body.append(f"  func.return {', '.join(rets)}" + (f" : {', '.join(outs)}" if outs else ""))
        return f"func.func @f({hdr}) -> ({', '.join(outs)}) {{\n" + "\n".join(body) + "\n}\n"
    if k == "ptradd":
        oty = c["oty"]
        x, y = ("%p", "%o")
        return (f"func.func @f(%p: !ptr_xdsl.ptr, %o: {oty}) -> !ptr_xdsl.ptr {{\n"
                f"  %r = ptr_xdsl.ptradd {x}, {y} : (!ptr_xdsl.ptr, {oty}) -> !ptr_xdsl.ptr\n"
                f"  func.return %r : !ptr_xdsl.ptr\n}}\n")
    if k == "ptrload":
        ty = c["ty"]
        return (f"func.func @f(%p: !ptr_xdsl.ptr) -> {ty} {{\n"
                f"  %r = ptr_xdsl.load %p : !ptr_xdsl.ptr -> {ty}\n  func.return %r : {ty}\n}}\n")
    if k == "ptrstore":
        ty = c["ty"]
        return (f"func.func @f(%p: !ptr_xdsl.ptr, %v: {ty}) {{\n"
                f"  ptr_xdsl.store %v, %p : {ty}, !ptr_xdsl.ptr\n  func.return\n}}\n")
    raise ValueError(k)


PASS_OF = {"const": "arith", "bin": "arith", "func": "func", "ptradd": "ptr", "ptrload": "ptr", "ptrstore": "ptr"}


def lowering_cases(rng: Any, quick: bool) -> list[dict]:
    cases: list[dict] = []
    # ArithConstantToX86: type × literal
    for ty in INT_TYPES + REJECT_TYPES:
        for v in const_values(ty, rng, 2 if quick else 12):
            cases.append({"kind": "const", "ty": ty, "lit": str(v), "value": v})
    for ty, lit in (("f32", "1.5"), ("f64", "0.0"), ("vector<4xi32>", "dense<1>"), ("tensor<4xi32>", "dense<0>")):
        cases.append({"kind": "const", "ty": ty, "lit": lit, "value": None})
    # ArithBinaryToX86: operation × type × operand shape
    for op in ARITH_OPS:
        for ty in INT_TYPES + REJECT_TYPES + ["vector<4xi32>", "tensor<4xi32>"]:
            for shape in ("ab", "ba", "aa", "ca", "ac", "chain"):
                if ty.startswith(("vector", "tensor")) and shape in ("ca", "ac"):
                    continue
                c = {"kind": "bin", "op": op, "ty": ty, "shape": shape}
                if shape in ("ca", "ac"):
                    w = width(ty)
                    lo, hi = max(-(1 << (w - 1)), -(2**31)), min((1 << (w - 1)) - 1, 2**31 - 1)
                    c["lit"] = rng.choice([0, 1, -1, lo, hi, rng.randint(lo, hi)])
                cases.append(c)
    # LowerFuncOp / LowerReturnOp: parameter count × parameter types × result
    all_tys = INT_TYPES + ["!ptr_xdsl.ptr"]
    for n in range(0, 11):
        for ty in INT_TYPES:
            cases.append({"kind": "func", "tys": [ty] * n, "outs": [ty] if n else [], "ret": [n - 1] if n else []})
    for _ in range(40 if quick else 400):
        n = rng.choice([0, 1, 2, 3, 5, 6, 7, 8, 9, 10, 12])
        tys = [rng.choice(all_tys) for _ in range(n)]
        r = rng.random()
        if r < 0.15 or n == 0:
            outs, ret = [], []
        elif r < 0.8:
            j = rng.randrange(n)
            outs, ret = [tys[j]], [j]
        elif r < 0.9:
            outs, ret = [rng.choice(all_tys)], [None]
        else:
            j, j2 = rng.randrange(n), rng.randrange(n)
            outs, ret = [tys[j], tys[j2]], [j, j2]
        cases.append({"kind": "func", "tys": tys, "outs": outs, "ret": ret})
    for bad in REJECT_TYPES + ["vector<4xi32>", "tensor<4xi32>", "memref<4xi32>", "f32", "f64", "f16"]:
        for pos in (0, 3, 7):
            tys = ["i64"] * pos + [bad] + ["i32"]
            cases.append({"kind": "func", "tys": tys, "outs": ["i64"], "ret": [None]})
        cases.append({"kind": "func", "tys": ["i64"], "outs": [bad], "ret": [None]})
    cases.append({"kind": "func", "tys": ["i64", "i32"], "outs": ["i64"], "ret": [0], "body": False})
    cases.append({"kind": "func", "tys": [], "outs": [], "ret": [], "body": False})
    # pointer patterns
    for oty in ("index", "i64"):
        cases.append({"kind": "ptradd", "oty": oty})
    for ty in INT_TYPES + ["!ptr_xdsl.ptr", "f32", "f64"] + REJECT_TYPES + ["tensor<4xi32>"]:
        cases.append({"kind": "ptrload", "ty": ty})
        cases.append({"kind": "ptrstore", "ty": ty})
    return cases


# ---------------------------------------------------------------------------------------------
# model lines: what the Lean rules are asked
# ---------------------------------------------------------------------------------------------

def model_lines(c: dict) -> list[str]:
    """one Lean `x86_rules` line per source operation of the case, in the order the pass rewrites them"""
    k = c["kind"]
    if k == "const":
        isint = c["value"] is not None
        return [f"const {'int' if isint else 'other'} {tytok(c['ty'])} {c['value'] if isint else 0} {TMP0}"]
    if k == "bin":
        a, b = SRC0, SRC0 + 1
        kind = c["op"] if c["op"] in ("addi", "muli") else "other"
        ty = tytok(c["ty"])
        shape = c["shape"]
        if shape == "ab":
            return [f"bin {kind} {ty} {TMP0} {a} {b}"]
        if shape == "ba":
            return [f"bin {kind} {ty} {TMP0} {b} {a}"]
        if shape == "aa":
            return [f"bin {kind} {ty} {TMP0} {a} {a}"]
        if shape == "ca":
            return [f"const int {ty} {c['lit']} {TMP0}", f"bin {kind} {ty} {TMP0 + 1} {TMP0} {a}"]
        if shape == "ac":
            return [f"const int {ty} {c['lit']} {TMP0}", f"bin {kind} {ty} {TMP0 + 1} {a} {TMP0}"]
        if shape == "chain":
            return [f"bin addi {ty} {TMP0} {a} {b}", f"bin {kind} {ty} {TMP0 + 1} {TMP0} {a}"]
    if k == "func":
        n = len(c["tys"])
        temps = " ".join(str(TMP0 + i) for i in range(n))
        body = "body" if c.get("body", True) else "nobody"
        lines = [f"entry {body} | {' '.join(map(tytok, c['tys']))} | {' '.join(map(tytok, c['outs']))} | {temps}"]
        if c.get("body", True):
            vals = []
            nsrc = 0
            for r in c["ret"]:
                if isinstance(r, int):
                    vals.append(TMP0 + r)
                else:
                    vals.append(SRC0 + nsrc)
                    nsrc += 1
            lines.append(f"ret | {' '.join(map(tytok, c['outs']))} | {' '.join(map(str, vals))}")
        return lines
    if k == "ptradd":
        return [f"ptradd {TMP0} {SRC0} {SRC0 + 1}"]
    if k == "ptrload":
        return [f"ptrload {tytok(c['ty'])} {TMP0} {SRC0}"]
    if k == "ptrstore":
        return [f"ptrstore {tytok(c['ty'])} {SRC0} {SRC0 + 1}"]
    raise ValueError(k)


def combine(outs: Sequence[str]) -> str:
    """outcome of a whole case from the outcomes of its operations (a raise anywhere aborts the pass)"""
    if any(o == "raise" for o in outs):
        return "raise"
    if any(o == "vector" for o in outs):
        return "vector"
    toks: list[str] = []
    left = 0
    for o in outs:
        if o == "nomatch":
            left += 1
        elif o == "ok":
            pass
        elif o.startswith("ok "):
            toks += o[3:].split(" ; ")
        else:
            raise core.InfraError(f"unexpected x86_rules answer {o!r}")
    return "ok " + " ; ".join(toks) + (f" | left {left}" if left else "")


# ---------------------------------------------------------------------------------------------
# the machine (Lean `xrun`) and the oracle
# ---------------------------------------------------------------------------------------------

def xrun_line(regs: dict[int, int], mems: dict[int, int], toks: Sequence[str], out_regs: Sequence[int],
              out_mems: Sequence[int]) -> str:
    prog = [t for t in toks if t != "ret"]
    return ("xrun " + " ".join(f"{r}={v}" for r, v in regs.items()) + " | "
            + " ".join(f"{a}={v}" for a, v in mems.items()) + " | " + " ; ".join(prog) + " | "
            + " ".join(map(str, out_regs)) + " | " + " ".join(map(str, out_mems)))


def parse_xrun(ans: str) -> tuple[dict[int, int], dict[int, int]]:
    if "|" not in ans:
        raise core.InfraError(f"unexpected xrun answer {ans!r}")
    a, b = ans.split("|")
    regs = {int(t.split("=")[0]): int(t.split("=")[1]) for t in a.split()}
    mems = {int(t.split("=")[0]): int(t.split("=")[1]) for t in b.split()}
    return regs, mems


def default_reg(r: int) -> int:
    return (0x5A5A000000000000 + 0x1111 * r) & M64


def rand_word(rng: Any) -> int:
    r = rng.random()
    if r < 0.25:
        return rng.choice([0, 1, M64, 1 << 63, (1 << 63) - 1, 1 << 32, (1 << 32) - 1, 1 << 31, (1 << 31) - 1, 0xFF, 0x100,
                           0xFFFF, 0x10000, 0x8000000080000000, 0xFFFFFFFF00000000, 0xAAAAAAAAAAAAAAAA])
    return rng.getrandbits(64)


def low(v: int, w: int) -> int:
    return v & ((1 << w) - 1)


class Check:
    """one oracle evaluation: an `xrun` line plus the expectations on its answer"""

    def __init__(self, case: dict, site: str, line: str, regs_in: dict[int, int],
                 want_regs: list[tuple[int, int, int, str]], keep_regs: list[int],
                 want_mems: list[tuple[int, int, int, str]], toks: list[str], what: str):
        self.case, self.site, self.line, self.regs_in = case, site, line, regs_in
        self.want_regs = want_regs      # (register, width, expected low bits, meaning)
        self.keep_regs = keep_regs      # registers that must keep their 64-bit value
        self.want_mems = want_mems      # (address, width, expected low bits, meaning)
        self.toks, self.what = toks, what


def py_bin(op: str, x: int, y: int, w: int) -> int:
    """MLIR arith semantics at width w of the two operations the pattern lowers (xDSL-independent)"""
    return low({"addi": x + y, "muli": x * y}[op], w)


def lowering_checks(c: dict, toks: list[str], ex: Extract, rng: Any, nvec: int) -> list[Check]:
    """oracle evaluations for a case whose real lowering produced `toks`"""
    k = c["kind"]
    out: list[Check] = []
    site = SITE["entry" if k == "func" else k]
    for _ in range(nvec):
        if k == "const":
            w = width(c["ty"])
            t = TMP0
            regs = {t: rand_word(rng)}
            line = xrun_line(regs, {}, toks, [t], [])
            out.append(Check(c, site, line, regs, [(t, w, low(c["value"], w), f"constant {c['value']} at {w} bits")], [], [], toks,
                             "arith.constant"))
        elif k == "bin":
            w = width(c["ty"])
            a, b = rand_word(rng), rand_word(rng)
            regs = {SRC0: a, SRC0 + 1: b, TMP0: rand_word(rng), TMP0 + 1: rand_word(rng)}
            shape = c["shape"]
            op = c["op"]
            if shape == "ab":
                want, res = py_bin(op, a, b, w), TMP0
            elif shape == "ba":
                want, res = py_bin(op, b, a, w), TMP0
            elif shape == "aa":
                want, res = py_bin(op, a, a, w), TMP0
            elif shape == "ca":
                want, res = py_bin(op, low(c["lit"], w), a, w), TMP0 + 1
            elif shape == "ac":
                want, res = py_bin(op, a, low(c["lit"], w), w), TMP0 + 1
            else:
                want, res = py_bin(op, py_bin("addi", a, b, w), a, w), TMP0 + 1
            keep = [SRC0, SRC0 + 1]
            line = xrun_line(regs, {}, toks, [res] + keep, [])
            out.append(Check(c, site, line, regs, [(res, w, want, f"{op} at {w} bits")], keep, [], toks, "arith." + op))
        elif k == "func":
            n = len(c["tys"])
            rsp = (0x7FFF00001000 + 16 * rng.randrange(64)) & M64
            args = [rand_word(rng) for _ in range(n)]
            regs = {4: rsp}
            for i in range(min(n, 6)):
                regs[ARG_REGS[i]] = args[i]
            mems = {rsp + 8 * (i - 6 + 1): args[i] for i in range(6, n)}
            for i in range(n):
                regs[TMP0 + i] = rand_word(rng)
            want = [(TMP0 + i, BITS[regsz(c["tys"][i]) or "q"], low(args[i], BITS[regsz(c["tys"][i]) or "q"]),
                     f"parameter {i}") for i in range(n)]
            if len(c["outs"]) == 1:
                r = c["ret"][0]
                wo = BITS[regsz(c["outs"][0]) or "q"]
                if isinstance(r, int):
                    want.append((0, wo, low(args[r], wo), "returned value in rax"))
                else:
                    regs[SRC0] = rand_word(rng)
                    want.append((0, wo, low(regs[SRC0], wo), "returned value in rax"))
            keep = [4] + [ARG_REGS[i] for i in range(min(n, 6))]
            line = xrun_line(regs, mems, toks, [x[0] for x in want] + keep, list(mems))
            wm = [(a, 64, v, "stack slot") for a, v in mems.items()]
            out.append(Check(c, site, line, regs, want, keep, wm, toks, "func.func / func.return"))
        elif k == "ptradd":
            p, o = rand_word(rng), rand_word(rng)
            regs = {SRC0: p, SRC0 + 1: o, TMP0: rand_word(rng)}
            keep = [SRC0, SRC0 + 1]
            line = xrun_line(regs, {}, toks, [TMP0] + keep, [])
            out.append(Check(c, site, line, regs, [(TMP0, 64, low(p + o, 64), "pointer + offset")], keep, [], toks, "ptr_xdsl.ptradd"))
        elif k == "ptrload":
            w = BITS[regsz(c["ty"]) or "q"]
            p, v = rand_word(rng) & ~7, rand_word(rng)
            regs = {SRC0: p, TMP0: rand_word(rng)}
            mems = {p: v}
            line = xrun_line(regs, mems, toks, [TMP0, SRC0], [p])
            out.append(Check(c, site, line, regs, [(TMP0, w, low(v, w), "loaded value")], [SRC0], [(p, 64, v, "slot read")], toks,
                             "ptr_xdsl.load"))
        elif k == "ptrstore":
            w = BITS[regsz(c["ty"]) or "q"]
            p, v, old = rand_word(rng) & ~7, rand_word(rng), rand_word(rng)
            other = (p + 8) & M64
            regs = {SRC0: p, SRC0 + 1: v}
            mems = {p: old, other: rand_word(rng)}
            new = (old & ~((1 << w) - 1) & M64) | low(v, w)
            line = xrun_line(regs, mems, toks, [SRC0, SRC0 + 1], [p, other])
            out.append(Check(c, site, line, regs, [], [SRC0, SRC0 + 1],
                             [(p, 64, new, f"slot after a {w}-bit store"), (other, 64, mems[other], "neighbouring slot")], toks,
                             "ptr_xdsl.store"))
    return out


def judge_check(ctx: core.Ctx, chk: Check, ans: str) -> bool:
    """True when the oracle holds; reports the failing input otherwise (pointer patterns are outside the
    func/arith quantifier of C21: observed and counted only)"""
    regs, mems = parse_xrun(ans)
    bad: list[str] = []
    for r, w, want, what in chk.want_regs:
        if low(regs[r], w) != want:
            bad.append(f"{what}: register {r} holds {low(regs[r], w)} (low {w} bits), expected {want}")
    for r in chk.keep_regs:
        if regs[r] != chk.regs_in.get(r, default_reg(r)):
            bad.append(f"operand register {r} changed from {chk.regs_in.get(r, default_reg(r))} to {regs[r]}")
    for a, w, want, what in chk.want_mems:
        if low(mems[a], w) != want:
            bad.append(f"{what}: memory[{a}] = {mems[a]}, expected {want}")
    if chk.case.get("kind") in PTR_KINDS:
        observe_outside(ctx, chk.case["kind"], bool(bad), {"rules_case": chk.case, "emitted": chk.toks, "observation": bad})
        return True
    if not bad:
        return True
    ctx.fail(chk.site, f"emitted x86 sequence does not compute {chk.what}",
             {"rules_case": chk.case}, "; ".join(bad) + " [Lean machine: " + chk.line + "]",
             {"emitted": chk.toks, "machine": ans}, {"expected": bad})
    return False


# ---------------------------------------------------------------------------------------------
# native cross-check of a sample of emitted sequences
# ---------------------------------------------------------------------------------------------

# virtual → physical assignment for native runs: sources to the SysV argument registers, temporaries to
# caller-saved registers that carry no argument
NATIVE_SRC = [7, 6, 2, 1]
NATIVE_TMP = [10, 11, 8, 9]


def render_tok(tok: str, ren: dict[int, int]) -> str | None:
    f = tok.split()

    def r(x: str, sz: str) -> str:
        n = int(x)
        n = ren.get(n, n)
        return NAMES[sz][n]

    try:
        if f[0] == "mov":
            return f"mov {r(f[2], f[1])}, {r(f[3], f[1])}"
        if f[0] == "movi":
            return f"mov {r(f[2], f[1])}, {f[3]}"
        if f[0] == "alu":
            return f"{f[1]} {r(f[3], f[2])}, {r(f[4], f[2])}"
        if f[0] == "ld":
            k = int(f[3])
            return f"mov {r(f[2], f[1])}, [rsp{k:+d}]" if k else f"mov {r(f[2], f[1])}, [rsp]"
        if f[0] == "ret":
            return "ret"
    except (IndexError, KeyError):
        return None
    return None


def native_function(sym: str, toks: Sequence[str], ren: dict[int, int], result: int | None, sz: str) -> str | None:
    lines = [".intel_syntax noprefix", ".text", f"{sym}:"]
    for t in toks:
        if t == "ret":
            continue
        s = render_tok(t, ren)
        if s is None:
            return None
        lines.append("    " + s)
    if result is not None:
        res = ren.get(result, result)
        if res != 0:
            lines.append(f"    mov {NAMES[sz][0]}, {NAMES[sz][res]}")
    lines.append("    ret")
    return "\n".join(lines) + "\n"


# ---------------------------------------------------------------------------------------------
# canonicalization patterns: snippets in the x86 dialect
# ---------------------------------------------------------------------------------------------
# A snippet is {"args": [[name, sz, reg|None]…], "ops": [...], "uses": [name…], "target": pattern name}
#   op = ["movi", res, sz, reg, imm] | ["mov", res, sz, reg, src] | ["add"|"sub"|"imul", res, in, src]
#      | ["ld", res, sz, reg, base, k] | ["st", base, k, src]

RTYPE = {"q": "!x86.reg64", "d": "!x86.reg32", "w": "!x86.reg16", "b": "!x86.reg8"}


def rty(sz: str, reg: int | None) -> str:
    return RTYPE[sz] if reg is None else f"{RTYPE[sz]}<{NAMES[sz][reg]}>"


def snippet_text(s: dict) -> str:
    types: dict[str, str] = {}
    hdr = []
    for name, sz, reg in s["args"]:
        types[name] = rty(sz, reg)
        hdr.append(f"%{name}: {types[name]}")
    lines = []
    for op in s["ops"]:
        k = op[0]
        if k == "movi":
            _, res, sz, reg, imm = op
            types[res] = rty(sz, reg)
            lines.append(f"  %{res} = x86.di.mov {imm} : () -> {types[res]}")
        elif k == "mov":
            _, res, sz, reg, src = op
            types[res] = rty(sz, reg)
            lines.append(f"  %{res} = x86.ds.mov %{src} : ({types[src]}) -> {types[res]}")
        elif k in ("add", "sub", "imul"):
            _, res, rin, src = op
            types[res] = types[rin]
            lines.append(f"  %{res} = x86.rs.{k} %{rin}, %{src} : ({types[rin]}, {types[src]}) -> {types[res]}")
        elif k == "ld":
            _, res, sz, reg, base, off = op
            types[res] = rty(sz, reg)
            mem = f"[%{base} + {off}]" if off else f"[%{base}]"
            lines.append(f"  %{res} = x86.dm.mov {mem} : ({types[base]}) -> {types[res]}")
        elif k == "st":
            _, base, off, src = op
            mem = f"[%{base} + {off}]" if off else f"[%{base}]"
            lines.append(f"  x86.ms.mov {mem}, %{src} : ({types[base]}, {types[src]}) -> ()")
        else:
            raise ValueError(f"bad snippet op {op}")
    if s["uses"]:
        us = ", ".join("%" + u for u in s["uses"])
        ts = ", ".join(types[u] for u in s["uses"])
        lines.append(f'  "test.op"({us}) : ({ts}) -> ()')
    lines.append("  x86_func.ret")
    return "x86_func.func @f(" + ", ".join(hdr) + ") {\n" + "\n".join(lines) + "\n}\n"



PTR_KINDS = ("ptradd", "ptrload", "ptrstore")


def outside_pipeline_snippet(s: dict) -> bool:
    """The func/arith pipeline of the C21 sentence only addresses memory through `rsp` (stack parameters),
    which is a block argument: an x86.rs.add-computed memory operand - every {DM,MS}_Operation_ConstantOffset
    snippet except `rsp-base` - cannot come out of it (it needs the ptr dialect or hand-written x86 IR)."""
    return s["target"].endswith("ConstantOffset") and s["shape"] != "rsp-base"


def observe_outside(ctx: core.Ctx, what: str, unsound: bool, sample: Any = None) -> None:
    """inputs outside the quantifier of C21: run, counted, compared with the Lean rule - never a failure"""
    ctx.count("rules.outside_pipeline_shapes")
    ctx.count(f"rules.outside_pipeline_shapes.{what}")
    if unsound:
        ctx.count("rules.outside_pipeline_shapes.rewritten_unsoundly")
        ctx.count(f"rules.outside_pipeline_shapes.rewritten_unsoundly.{what}")
        if sample is not None:
            obs = ctx.extra.setdefault("outside_pipeline_observations", [])
            if len(obs) < 3:
                obs.append(sample)


CANON_NAMES = ["RemoveRedundantDS_Mov", "RS_Add_Zero", "DM_Operation_ConstantOffset", "MS_Operation_ConstantOffset"]
# registers used by allocated snippets: base, copy, constant, loaded/stored value, second copy
AL = {"b": 7, "t": 0, "c": 1, "v": 2, "c2": 3, "x": 6}


def canon_snippets(rng: Any, quick: bool) -> list[dict]:
    out: list[dict] = []

    def add(target: str, shape: str, s: dict) -> None:
        s["target"] = target
        s["shape"] = shape
        out.append(s)

    # RemoveRedundantDS_Mov: allocation of source / destination
    for sz in "qdwb":
        for r in (0, 3, 7, 12):
            add("RemoveRedundantDS_Mov", "same", {"args": [["a", sz, r]], "ops": [["mov", "x", sz, r, "a"]], "uses": ["x"]})
        add("RemoveRedundantDS_Mov", "other", {"args": [["a", sz, 7]], "ops": [["mov", "x", sz, 1, "a"]], "uses": ["x", "a"]})
        add("RemoveRedundantDS_Mov", "unalloc", {"args": [["a", sz, None]], "ops": [["mov", "x", sz, None, "a"]], "uses": ["x"]})
        add("RemoveRedundantDS_Mov", "dst-only", {"args": [["a", sz, None]], "ops": [["mov", "x", sz, 2, "a"]], "uses": ["x"]})
        add("RemoveRedundantDS_Mov", "src-only", {"args": [["a", sz, 2]], "ops": [["mov", "x", sz, None, "a"]], "uses": ["x"]})
    # RS_Add_Zero: what the source operand is
    for sz in "qdwb":
        for alloc in (False, True):
            ra, rc, rc2 = (3, 1, 2) if alloc else (None, None, None)
            for imm in (0, 0, 1, -1, 7):
                add("RS_Add_Zero", f"imm{imm}", {"args": [["a", sz, ra]], "ops": [["movi", "c", sz, rc, imm], ["add", "r", "a", "c"]],
                                                "uses": ["r"]})
            for imm in (0, 5):
                add("RS_Add_Zero", f"chain{imm}", {"args": [["a", sz, ra]],
                                                  "ops": [["movi", "c0", sz, rc, imm], ["mov", "c", sz, rc2, "c0"], ["add", "r", "a", "c"]],
                                                  "uses": ["r"]})
            add("RS_Add_Zero", "unknown", {"args": [["a", sz, ra], ["b", sz, rc]], "ops": [["add", "r", "a", "b"]], "uses": ["r"]})
            add("RS_Add_Zero", "zero-in", {"args": [["a", sz, ra]], "ops": [["movi", "c", sz, rc, 0], ["add", "r", "c", "a"]], "uses": ["r"]})
            add("RS_Add_Zero", "sub", {"args": [["a", sz, ra]], "ops": [["movi", "c", sz, rc, 0], ["sub", "r", "a", "c"]], "uses": ["r"]})
    # {DM,MS}_Operation_ConstantOffset
    imms = [0, 8, -8, 16, 4096, -4096, 2**31 - 1, -(2**31)]
    offs = [0, 8, -16, 4096, 2**31 - 8]
    for sz in "qdwb":
        for mode in ("unalloc", "prealloc-arg", "alloc", "alloc-clobber"):
            combos = [(i, k) for i in imms for k in offs]
            if quick:
                combos = [(0, 0)] + rng.sample(combos, 2)
            for imm, k in combos:
                if mode == "unalloc":
                    rb = rt = rcn = rv = None
                elif mode == "prealloc-arg":
                    rb, rt, rcn, rv = AL["b"], None, None, None
                else:
                    rb, rt, rcn, rv = AL["b"], AL["t"], AL["c"], AL["v"]
                pre = [["mov", "t", "q", rt, "b"], ["movi", "c", "q", rcn, imm], ["add", "m", "t", "c"]]
                if mode == "alloc-clobber":
                    pre.append(["movi", "z", "q", AL["b"], rng.choice([0, 64, 4096])])
                uses = ["v"] + (["z"] if mode == "alloc-clobber" else [])
                add("DM_Operation_ConstantOffset", mode, {"args": [["b", "q", rb]], "ops": pre + [["ld", "v", sz, rv, "m", k]],
                                                          "uses": uses})
                rx = None if mode in ("unalloc", "prealloc-arg") else AL["x"]
                add("MS_Operation_ConstantOffset", mode, {"args": [["b", "q", rb], ["x", sz, rx]], "ops": pre + [["st", "m", k, "x"]],
                                                          "uses": (["z"] if mode == "alloc-clobber" else [])})
        for alloc in (False, True):
            rb, rt, rcn, rv, rc2 = (AL["b"], AL["t"], AL["c"], AL["v"], AL["c2"]) if alloc else (None,) * 5
            # register_in is not a copy; the addend is not a constant; the constant sits behind a copy
            add("DM_Operation_ConstantOffset", "no-copy", {"args": [["b", "q", rb]],
                                                           "ops": [["movi", "c", "q", rcn, 8], ["add", "m", "b", "c"], ["ld", "v", sz, rv, "m", 8]],
                                                           "uses": ["v"]})
            add("DM_Operation_ConstantOffset", "non-const", {"args": [["b", "q", rb], ["y", "q", rcn]],
                                                             "ops": [["mov", "t", "q", rt, "b"], ["add", "m", "t", "y"], ["ld", "v", sz, rv, "m", 8]],
                                                             "uses": ["v"]})
            add("DM_Operation_ConstantOffset", "const-chain", {"args": [["b", "q", rb]],
                                                               "ops": [["mov", "t", "q", rt, "b"], ["movi", "c0", "q", rcn, 24], ["mov", "c", "q", rc2, "c0"],
                                                                       ["add", "m", "t", "c"], ["ld", "v", sz, rv, "m", -8]],
                                                               "uses": ["v"]})
            add("DM_Operation_ConstantOffset", "rsp-base", {"args": [["sp", "q", 4]], "ops": [["ld", "v", sz, rv, "sp", 8]], "uses": ["v"]})
    return out


def token_rw(tok: str) -> tuple[int | None, list[int], bool]:
    """(register written, registers read, removable when the written register is dead)"""
    f = tok.split()
    if f[0] == "mov":
        return int(f[2]), [int(f[3])], True
    if f[0] == "movi":
        return int(f[2]), [], True
    if f[0] == "alu":
        return int(f[3]), [int(f[3]), int(f[4])], True
    if f[0] == "ld":
        return int(f[2]), [4], True
    if f[0] == "ldm":
        return int(f[2]), [int(f[3])], True
    if f[0] == "stm":
        return None, [int(f[2]), int(f[4])], False
    return None, [], False


def dce(tokens: Sequence[str], uses: Sequence[int]) -> list[str]:
    """what the rewrite driver's dead-code removal leaves: definitions of unallocated values that nothing
    reads afterwards are dropped (the driver erases unused side-effect-free operations)"""
    toks = list(tokens)
    changed = True
    while changed:
        changed = False
        for i in reversed(range(len(toks))):
            w, _, removable = token_rw(toks[i])
            if not removable or w is None or w < 16:
                continue
            later = [r for t in toks[i + 1:] for r in token_rw(t)[1]] + list(uses)
            if w not in later:
                del toks[i]
                changed = True
                break
    return toks


def renumber(tokens: Sequence[str], uses: Sequence[int]) -> tuple[list[str], list[int]]:
    """temporaries (≥ TMP0) renamed in order of first appearance"""
    ren: dict[int, int] = {}

    def r(x: str) -> str:
        n = int(x)
        if n >= TMP0:
            ren.setdefault(n, TMP0 + len(ren))
            return str(ren[n])
        return x

    out = []
    for t in tokens:
        f = t.split()
        if f[0] in ("mov",):
            f[2], f[3] = r(f[2]), r(f[3])
        elif f[0] in ("movi", "ld"):
            f[2] = r(f[2])
        elif f[0] == "alu":
            f[3], f[4] = r(f[3]), r(f[4])
        elif f[0] == "ldm":
            f[2], f[3] = r(f[2]), r(f[3])
        elif f[0] == "stm":
            f[2], f[4] = r(f[2]), r(f[4])
        out.append(" ".join(f))
    return out, [int(r(str(u))) for u in uses]


def guarded_tree() -> bool:
    """does this tree's DM_Operation_ConstantOffset refuse to look through an allocated copy?"""
    s = {"args": [["b", "q", 7]], "ops": [["mov", "t", "q", 0, "b"], ["movi", "c", "q", 1, 16], ["add", "m", "t", "c"],
                                        ["ld", "v", "q", 2, "m", 8]], "uses": ["v"]}
    m = parse(snippet_text(s))
    apply_pattern(m, "DM_Operation_ConstantOffset")
    return extract(m).tokens[-2] == "ldm q 2 0 8"


def snippet_state(s: dict, rng: Any) -> dict[int, int]:
    regs: dict[int, int] = {}
    nsrc = 0
    for name, sz, reg in s["args"]:
        if reg is None:
            r = SRC0 + nsrc
            nsrc += 1
        else:
            r = reg
        v = rand_word(rng)
        if name in ("b", "sp"):
            v &= ~7 & M64
        regs[r] = v
    return regs


def snippet_addresses(s: dict, regs: dict[int, int]) -> list[int]:
    """slots a store of the snippet may hit (before or after rewriting)"""
    base = [v for v in regs.values()] + [0]
    imms = [op[4] for op in s["ops"] if op[0] == "movi"] + [0]
    ks = [op[2] for op in s["ops"] if op[0] == "st"]
    out: set[int] = set()
    for k in ks:
        for b in base:
            for i in imms:
                for i2 in imms:
                    out.add((b + i + i2 + k) & M64)
    return sorted(out)[:40]


def run_canon(ctx: core.Ctx, quick: bool) -> None:
    rng = ctx.rng
    snippets = canon_snippets(rng, quick)
    guarded = guarded_tree()
    ctx.count("rules.canon.tree_has_stability_guard", int(guarded))
    lines: list[str] = []
    plan: list[tuple[str, int, Any]] = []
    info: list[dict] = []
    for si, s in enumerate(snippets):
        text = snippet_text(s)
        before = extract(parse(text))
        if before.unparsed:
            raise core.InfraError(f"rules leg: snippet not extractable {before.unparsed}: {text}")
        target = s["target"]
        m1 = parse(text)
        st1 = apply_pattern(m1, target)
        single = extract(m1) if st1 == "ok" else None
        m2 = parse(text)
        st2 = apply_pass(m2, "canonicalize")
        full = extract(m2) if st2 == "ok" else None
        rec = {"s": s, "before": before, "single": single, "full": full, "st1": st1, "st2": st2, "model": [], "runs": []}
        info.append(rec)
        name = target + (".guarded" if guarded and target.endswith("ConstantOffset") else "")
        for tok, facts in zip(before.tokens, before.facts):
            if tok == "ret":
                continue
            lines.append(f"canon {name} | {' ; '.join(facts)} | {tok}")
            plan.append(("model", si, tok))
        for _ in range(2 if quick else 4):
            regs = snippet_state(s, rng)
            addrs = snippet_addresses(s, regs)
            for which, ex in (("before", before), ("full", full), ("single", single)):
                if ex is None:
                    continue
                outs = [r for u in ex.uses for r in u]
                lines.append(xrun_line(regs, {}, ex.tokens, outs, addrs))
                plan.append((which, si, (regs, addrs)))
    answers = ctx.model("x86_rules", lines) if lines else []
    for (kind, si, extra), ans in zip(plan, answers):
        rec = info[si]
        if kind == "model":
            rec["model"].append((extra, ans))
        else:
            rec["runs"].append((kind, extra, ans))
    for rec in info:
        s = rec["s"]
        target = s["target"]
        before: Extract = rec["before"]
        ctx.ev()
        ctx.count(f"rules.canon.{target}.{s['shape']}")
        case = {"snippet": s, "text": snippet_text(s)}
        outside = outside_pipeline_snippet(s)
        if rec["st1"] != "ok" or rec["st2"] != "ok":
            if outside:
                observe_outside(ctx, f"{target}.{s['shape']}", True, {"snippet": s, "raises": [rec["st1"], rec["st2"]]})
            else:
                ctx.fail(SITE[target], "canonicalization raises on a valid x86 snippet", case,
                         f"pattern: {rec['st1']}, canonicalize: {rec['st2']}", None, "no exception")
            continue
        # (correspondence) the single real pattern vs the Lean rule applied to every instruction
        expected: list[str] = []
        fired = False
        for tok, ans in rec["model"]:
            if ans == "none":
                expected.append(tok)
            elif ans == "some" or ans.startswith("some "):
                fired = True
                expected += [t for t in ans[5:].split(" ; ") if t]
            else:
                raise core.InfraError(f"unexpected x86_rules answer {ans!r}")
        expected.append("ret")
        ctx.count(f"rules.canon.{target}.{'fires' if fired else 'does_not_fire'}")
        if fired:
            ctx.nt("canon:" + target + ":" + " ; ".join(before.tokens))
        # (oracle) before vs after on the machine: consumers' operands at their width, touched memory
        bad = ""
        runs = rec["runs"]
        for j in range(0, len(runs), 3):
            (_, (regs, addrs), a0), (_, _, a1), (_, _, a2) = runs[j], runs[j + 1], runs[j + 2]
            for which, ans, ex in (("canonicalize", a1, rec["full"]), (target, a2, rec["single"])):
                r0, m0 = parse_xrun(a0)
                r1, m1 = parse_xrun(ans)
                u0 = [r for u in before.uses for r in u]
                u1 = [r for u in ex.uses for r in u]
                szs = [z for u in before.use_sz for z in u]
                for x0, x1, z in zip(u0, u1, szs):
                    if low(r0[x0], BITS[z]) != low(r1[x1], BITS[z]):
                        bad = (f"after {which}: consumer operand holds {low(r1[x1], BITS[z])} instead of {low(r0[x0], BITS[z])} "
                               f"({BITS[z]} bits) from registers {regs}")
                for a in addrs:
                    if m0[a] != m1[a]:
                        bad = f"after {which}: memory[{a}] = {m1[a]} instead of {m0[a]} from registers {regs}"
                ctx.disagreements_checked += 1
            if bad:
                break
        if outside:
            # not judged: only observed (and still compared with the Lean rule below)
            observe_outside(ctx, f"{target}.{s['shape']}", bool(bad),
                            {"snippet": s, "before": before.tokens, "after_pattern": rec["single"].tokens, "observation": bad})
        elif bad:
            ctx.fail(SITE[target], "canonicalization changes the result of an x86 snippet",
                     case, bad, {"before": before.tokens, "after_pattern": rec["single"].tokens, "after_canonicalize": rec["full"].tokens},
                     {"expected": "same consumer operands and memory"})
            continue
        uses1 = [r for u in rec["single"].uses for r in u]
        uses0 = [r for u in before.uses for r in u]
        if renumber(dce(rec["single"].tokens, uses1), uses1) != renumber(dce(expected, uses0), uses0):
            ctx.mismatch("correspondence:C21/x86-canon-rule", case, rec["single"].tokens, expected,
                         f"real pattern {target} and the Lean rule rewrite the snippet differently")


# ---------------------------------------------------------------------------------------------
# the extended machine (loads/stores through a base register) against the CPU
# ---------------------------------------------------------------------------------------------

def render_any(tok: str) -> str | None:
    f = tok.split()
    s = render_tok(tok, {})
    if s is not None:
        return s
    if f[0] == "ldm":
        k = int(f[4])
        return f"mov {NAMES[f[1]][int(f[2])]}, [{R64[int(f[3])]}{k:+d}]"
    if f[0] == "stm":
        k = int(f[3])
        return f"mov [{R64[int(f[2])]}{k:+d}], {NAMES[f[1]][int(f[4])]}"
    if f[0] in ("push", "pop"):
        return f"{f[0]} {R64[int(f[1])]}"
    return None


def gen_mem_prog(rng: Any) -> list[str]:
    regs = [0, 2, 6, 7, 8, 9, 10, 11]
    toks = ["push 6", "push 2", "mov q 1 4", "mov q 0 7", "mov q 10 8", "mov q 11 9"]
    for _ in range(rng.randint(3, 14)):
        sz = rng.choice("qqqddwb")
        r = rng.random()
        d, s = rng.choice(regs), rng.choice(regs)
        k = rng.choice([0, 8])
        if r < 0.3:
            toks.append(f"ldm {sz} {d} 1 {k}")
        elif r < 0.6:
            toks.append(f"stm {sz} 1 {k} {s}")
        elif r < 0.85:
            op = rng.choice(["add", "sub", "imul", "and", "or", "xor"])
            if sz == "b" and op == "imul":
                op = "add"
            toks.append(f"alu {op} {sz} {d} {s}")
        elif r < 0.93:
            toks.append(f"mov {sz} {d} {s}")
        else:
            bits = {"q": 32, "d": 32, "w": 16, "b": 8}[sz]
            toks.append(f"movi {sz} {d} {rng.randint(-(1 << (bits - 1)), (1 << (bits - 1)) - 1)}")
    toks += ["ldm q 2 1 0", "alu xor q 0 2", "ldm q 2 1 8", "alu add q 0 2", "pop 2", "pop 2", "ret"]
    return toks


class NativeJobs:
    """functions of this leg that go to the CPU; assembled, linked and run in ONE batch"""

    def __init__(self) -> None:
        self.texts: list[str] = []
        self.syms: list[str] = []
        self.calls: list[list[list[int]]] = []      # per function: argument vectors
        self.judges: list[Any] = []                 # per function: callback(list of native results, assembler message | None)

    def add(self, text: str, sym: str, vecs: list[list[int]], judge: Any) -> None:
        self.texts.append(text)
        self.syms.append(sym)
        self.calls.append(vecs)
        self.judges.append(judge)

    def run(self, native: Any) -> None:
        if not self.texts:
            return
        exe, good, bad = native.build(self.texts, self.syms)
        for k, msg in bad.items():
            self.judges[k]([], msg or "assembler error")
        if exe is None:
            return
        calls, owner = [], []
        for tab, k in enumerate(good):
            for v in self.calls[k]:
                calls.append((tab, [1, 2, 3, 4, 5, 6], v))
                owner.append(k)
        res: dict[int, list[Any]] = {k: [] for k in good}
        for k, nat in zip(owner, native.run(exe, calls)):
            res[k].append(nat)
        for k in good:
            self.judges[k](res[k], None)


def machine_tie_jobs(ctx: core.Ctx, jobs: NativeJobs, nprog: int) -> None:
    """random programs over the extended instruction set: Lean machine now, CPU when the batch runs"""
    rng = ctx.rng
    progs = [gen_mem_prog(rng) for _ in range(nprog)]
    vecs = [[rand_word(rng) for _ in range(6)] for _ in progs]
    lines = []
    for toks, vec in zip(progs, vecs):
        regs = {ARG_REGS[i]: vec[i] for i in range(6)}
        regs[4] = 0x7FFF00001000
        lines.append(xrun_line(regs, {}, toks, [0, 4], []))
    answers = ctx.model("x86_rules", lines)
    for j, (toks, vec, ans) in enumerate(zip(progs, vecs, answers)):
        lines_ = [".intel_syntax noprefix", ".text", f"xm_{j}:"]
        for t in toks:
            r = render_any(t)
            if r is None:
                raise core.InfraError(f"rules leg: cannot render {t}")
            lines_.append("    " + r)
        text = "\n".join(lines_) + "\n"

        def judge(results: list[Any], as_msg: str | None, toks: list[str] = toks, vec: list[int] = vec, ans: str = ans,
                  text: str = text) -> None:
            if as_msg is not None:
                raise core.InfraError(f"rules leg: machine-tie program does not assemble: {as_msg}\n{text}")
            ctx.ev()
            ctx.count("rules.machine.memory_programs")
            r, _ = parse_xrun(ans)
            nat = results[0]
            if "crash" in nat or nat["rax"] != r[0] or r[4] != 0x7FFF00001000:
                ctx.mismatch("correspondence:C21/x86-machine-memory", {"asm": text, "args": vec, "tokens": toks},
                             nat, ans, "Lean machine extension (loads/stores through a base register) and the CPU disagree")

        jobs.add(text, f"xm_{j}", [vec], judge)


# ---------------------------------------------------------------------------------------------
# lowering leg
# ---------------------------------------------------------------------------------------------

def real_outcome(c: dict) -> tuple[str, Extract | None]:
    m = parse(case_text(c))
    if c["kind"] == "const" and c["value"] is not None:
        # the payload as xDSL stores it (signless literals are normalised to the signed range)
        op = next(o for o in m.walk() if o.name == "arith.constant")
        c["value"] = op.value.value.data
    st = apply_pass(m, PASS_OF[c["kind"]])
    if st != "ok":
        return st, None
    ex = extract(m)
    return "ok", ex


def canon_obs(ex: Extract) -> str:
    return "ok " + " ; ".join(ex.tokens) + (f" | left {len(ex.left)}" if ex.left else "")


def quick_subset(cases: list[dict], rng: Any) -> list[dict]:
    keep: list[dict] = []
    for c in cases:
        k = c["kind"]
        if k == "bin":
            p = 1.0 if c["op"] in ("addi", "muli") and c["ty"] in INT_TYPES else 0.12
        elif k == "const":
            p = 0.45
        elif k == "func":
            p = 0.55
        else:
            p = 1.0
        if rng.random() < p:
            keep.append(c)
    return keep


def run_lowering(ctx: core.Ctx, jobs: NativeJobs, quick: bool) -> None:
    rng = ctx.rng
    cases = lowering_cases(rng, quick)
    if quick:
        cases = quick_subset(cases, rng)
    reals: list[tuple[str, Extract | None]] = []
    lines: list[str] = []
    spans: list[tuple[int, int]] = []
    for c in cases:
        reals.append(real_outcome(c))
        ml = model_lines(c)
        spans.append((len(lines), len(lines) + len(ml)))
        lines += ml
    answers = ctx.model("x86_rules", lines)
    checks: list[Check] = []
    nvec = 2 if quick else 6
    natives: list[tuple[dict, Extract]] = []
    for c, (st, ex), (lo, hi) in zip(cases, reals, spans):
        ctx.ev()
        k = c["kind"]
        ctx.count(f"rules.lowering.{k}")
        model = combine(answers[lo:hi])
        if st != "ok":
            real = "raise"
            ctx.count(f"rules.lowering.{k}.raises.{st.split(':', 1)[1]}")
        else:
            assert ex is not None
            if ex.unparsed:
                ctx.mismatch("correspondence:C21/x86-rules-extract", {"rules_case": c}, ex.unparsed, "no rule",
                             "the lowering emitted an operation outside the modelled instruction set")
                continue
            real = canon_obs(ex)
        if model == "vector":
            ctx.count("rules.lowering.vector_not_modelled")
            continue
        if real != model:
            # a different sequence: is it wrong?  the oracle below decides on the real sequence; the
            # mismatch is recorded either way
            ctx.mismatch("correspondence:C21/x86-lowering-rule", {"rules_case": c, "text": case_text(c)}, real, model,
                         "real lowering pattern and the Lean rule emit different code")
        if st == "ok" and ex is not None and not ex.left:
            applicable = k != "bin" or c["op"] in ("addi", "muli")
            if applicable and (k != "func" or len(c["outs"]) <= 1):
                checks += lowering_checks(c, ex.tokens, ex, rng, nvec)
                ctx.nt("lower:" + k + ":" + json.dumps({x: c[x] for x in c if x not in ("lit", "value")}, sort_keys=True)
                       + ":" + " ; ".join(ex.tokens))
                if k in ("const", "bin"):
                    natives.append((c, ex))
    outs = ctx.model("x86_rules", [chk.line for chk in checks]) if checks else []
    failed: set[str] = set()
    for chk, ans in zip(checks, outs):
        ctx.disagreements_checked += 1
        key = chk.site + json.dumps(chk.case, sort_keys=True)
        if key in failed:
            continue
        if not judge_check(ctx, chk, ans):
            failed.add(key)
    native_sample_jobs(ctx, jobs, natives, 60 if quick else 400)


def native_sample_jobs(ctx: core.Ctx, jobs: NativeJobs, items: list[tuple[dict, Extract]], cap: int) -> None:
    """a sample of emitted arith sequences for the CPU: sources in rdi/rsi, temporaries in r10/r11"""
    rng = ctx.rng
    if len(items) > cap:
        items = rng.sample(items, cap)
    ren = {SRC0: 7, SRC0 + 1: 6, TMP0: 10, TMP0 + 1: 11}
    for j, (c, ex) in enumerate(items):
        w = width(c["ty"])
        sz = regsz(c["ty"]) or "q"
        res = TMP0 if (c["kind"] == "const" or c["shape"] in ("ab", "ba", "aa")) else TMP0 + 1
        text = native_function(f"rl_{j}", ex.tokens, ren, res, sz)
        if text is None:
            continue
        vecs = [[rand_word(rng), rand_word(rng)] for _ in range(2)]

        def judge(results: list[Any], as_msg: str | None, c: dict = c, ex: Extract = ex, w: int = w, text: str = text,
                  vecs: list[list[int]] = vecs) -> None:
            what = "arith.constant" if c["kind"] == "const" else "arith." + c["op"]
            if as_msg is not None:
                ctx.fail(SITE[c["kind"]], "emitted x86 sequence does not assemble", {"rules_case": c}, as_msg,
                         {"emitted": ex.tokens, "asm": text}, "assembler exit status 0")
                return
            for (a, b), nat in zip(vecs, results):
                ctx.ev()
                ctx.count("rules.lowering.native_calls")
                if c["kind"] == "const":
                    want = low(c["value"], w)
                else:
                    op, shape = c["op"], c["shape"]
                    want = {"ab": lambda: py_bin(op, a, b, w), "ba": lambda: py_bin(op, b, a, w), "aa": lambda: py_bin(op, a, a, w),
                            "ca": lambda: py_bin(op, low(c["lit"], w), a, w), "ac": lambda: py_bin(op, a, low(c["lit"], w), w),
                            "chain": lambda: py_bin(op, py_bin("addi", a, b, w), a, w)}[shape]()
                if "crash" in nat or low(nat["rax"], w) != want:
                    ctx.fail(SITE[c["kind"]], f"emitted x86 sequence does not compute {what}",
                             {"rules_case": c}, f"CPU returns {nat} instead of {want} (low {w} bits) on arguments {[a, b]}",
                             {"emitted": ex.tokens, "asm": text}, {"expected": want})
                    return

        jobs.add(text, f"rl_{j}", vecs, judge)


def run(ctx: core.Ctx, native: Any) -> None:
    quick = ctx.tier == "quick"
    jobs = NativeJobs()
    run_lowering(ctx, jobs, quick)
    run_canon(ctx, quick)
    run_programs(ctx, 60 if quick else 1500)
    run_pipeline_canon(ctx, 50 if quick else 1200, 2 if quick else 4)
    machine_tie_jobs(ctx, jobs, 40 if quick else 400)
    jobs.run(native)


def replay(ctx: core.Ctx, case: dict) -> int:
    """replay of a rules-leg case: {"rules_case": …} or {"snippet": …}"""
    if "snippet" in case:
        s = case["snippet"]
        text = snippet_text(s)
        print("snippet:\n" + text)
        before = extract(parse(text))
        m = parse(text)
        print("pattern", s["target"], "->", apply_pattern(m, s["target"]))
        single = extract(m)
        m2 = parse(text)
        print("canonicalize ->", apply_pass(m2, "canonicalize"))
        full = extract(m2)
        print("before             :", " ; ".join(before.tokens), "| consumers read", before.uses)
        print("after the pattern  :", " ; ".join(single.tokens), "| consumers read", single.uses)
        print("after canonicalize :", " ; ".join(full.tokens), "| consumers read", full.uses)
        bad = False
        for _ in range(6):
            regs = snippet_state(s, ctx.rng)
            addrs = snippet_addresses(s, regs)
            outs = ctx.model("x86_rules", [xrun_line(regs, {}, ex.tokens, [r for u in ex.uses for r in u], addrs)
                                           for ex in (before, single, full)])
            obs = []
            for ex, ans in zip((before, single, full), outs):
                r, mm = parse_xrun(ans)
                szs = [z for u in before.use_sz for z in u]
                obs.append(([low(r[x], BITS[z]) for x, z in zip([q for u in ex.uses for q in u], szs)], [mm[a] for a in addrs]))
            print("  registers", regs, "-> before", obs[0][0], "pattern", obs[1][0], "canonicalize", obs[2][0],
                  "" if obs[0][1] == obs[1][1] == obs[2][1] else "MEMORY DIFFERS")
            if obs[0] != obs[1] or obs[0] != obs[2]:
                bad = True
        print("property", "FAILS" if bad else "holds", "on this case")
        return 1 if bad else 0
    if "rules_pipeline" in case:
        c = case["rules_pipeline"]
        from props import c21

        print("source:\n" + c21.case_to_mlir(c, "f"))
        print("passes:", PIPE_TO_ALLOC, "then canonicalize")
        res = _allocated(c)
        if res is None:
            print("does not compile; property holds vacuously on this case")
            return 0
        before, after = res
        ls, plan = _pipeline_lines(c, before, after, ctx.rng, 6)
        probe = core.Ctx(ctx.prop, ctx.tier, ctx.seed, ctx.meta)
        ok = _pipeline_judge(probe, c, before, after, plan, ctx.model("x86_rules", ls), verbose=True)
        print("property", "holds" if ok else "FAILS", "on this case")
        return 0 if ok else 1
    if "rules_program" in case:
        from props import c21

        c = case["rules_program"]
        print("source:\n" + c21.case_to_mlir(c, "f"))
        print("passes: convert-func-to-x86-func,convert-arith-to-x86 (before register allocation)")
        probe = core.Ctx(ctx.prop, ctx.tier, ctx.seed, ctx.meta)
        probe.rng = ctx.rng
        n0 = len(probe.failures)
        _one_program(probe, c, verbose=True)
        bad = len(probe.failures) > n0
        print("real passes and Lean lowerSrc", "DIFFER" if bad else "agree", "on this function")
        return 1 if bad else 0
    c = case["rules_case"]
    print("input:\n" + case_text(c))
    st, ex = real_outcome(c)
    model = combine(ctx.model("x86_rules", model_lines(c)))
    print("real pass :", st if ex is None else canon_obs(ex))
    print("Lean rule :", model)
    if ex is None or ex.left:
        print("nothing lowered; property holds vacuously on this case")
        return 0
    bad = False
    for chk in lowering_checks(c, ex.tokens, ex, ctx.rng, 6):
        ans = ctx.model("x86_rules", [chk.line])[0]
        regs, mems = parse_xrun(ans)
        ok = all(low(regs[r], w) == want for r, w, want, _ in chk.want_regs) \
            and all(regs[r] == chk.regs_in.get(r, default_reg(r)) for r in chk.keep_regs) \
            and all(low(mems[a], w) == want for a, w, want, _ in chk.want_mems)
        print("  ", chk.line.split(" | ")[0], "->", ans, "| expected", [(r, want) for r, _, want, _ in chk.want_regs],
              "ok" if ok else "WRONG")
        bad = bad or not ok
    print("property", "FAILS" if bad else "holds", "on this case")
    return 1 if bad else 0


# ---------------------------------------------------------------------------------------------
# whole functions: lowerSrc (Lean, proved by lowerSrc_sound) vs the two real lowering passes
# ---------------------------------------------------------------------------------------------

def run_programs(ctx: core.Ctx, n: int) -> None:
    """generated straight-line functions of the main leg through convert-func-to-x86-func and
    convert-arith-to-x86 only; the instruction list before register allocation must be what `lowerSrc`
    emits (for which `lowerSrc_sound` holds), up to the driver's removal of unused definitions"""
    from props import c21

    rng = ctx.rng
    cases = [c for c in c21.REGRESSION_CASES]
    sysc = c21.systematic_cases()
    cases += rng.sample(sysc, min(len(sysc), max(4, n // 4)))
    while len(cases) < n:
        r = rng.random()
        ty = "i64" if r < 0.4 else "i32" if r < 0.65 else "index" if r < 0.75 else "i16" if r < 0.88 else "i8"
        cases.append(c21.gen_case(rng, ty, rng.choice(["mix", "chain", "live", "stack"]), 120))
    cases = [c for c in cases if all(op[0] in "cam" for op in c["ops"])]
    prepared = [_program_real(c) for c in cases]
    answers = ctx.model("x86_rules", [p[0] for p in prepared]) if prepared else []
    for c, (_, st, ex), ans in zip(cases, prepared, answers):
        _program_judge(ctx, c, st, ex, ans)


def _one_program(ctx: core.Ctx, c: dict, verbose: bool = False) -> None:
    line, st, ex = _program_real(c)
    ans = ctx.model("x86_rules", [line])[0]
    if verbose:
        print("real :", st if ex is None else " ; ".join(["label"] + ex.tokens))
        print("Lean :", ans)
    _program_judge(ctx, c, st, ex, ans)


def _program_real(c: dict) -> tuple[str, str, Extract | None]:
    from xdsl.backend.x86.lowering.convert_arith_to_x86 import ConvertArithToX86Pass
    from xdsl.backend.x86.lowering.convert_func_to_x86_func import ConvertFuncToX86FuncPass

    from props import c21

    m = parse(c21.case_to_mlir(c, "f"))
    st = "ok"
    try:
        with contextlib.redirect_stdout(io.StringIO()), contextlib.redirect_stderr(io.StringIO()):
            ConvertFuncToX86FuncPass().apply(_context(), m)
            ConvertArithToX86Pass().apply(_context(), m)
    except Exception as e:  # noqa: BLE001
        st = "raise:" + type(e).__name__
    ex = extract(m) if st == "ok" else None
    # Both passes run a greedy driver that erases an operation without uses when it visits it (forward,
    # once per pass): convert-func-to-x86-func erases the arith operations nobody uses, convert-arith-to-x86
    # then erases those whose users were all erased by the first sweep; only what is left is lowered (and can
    # make the pass raise).  In the model source an erased operation becomes a placeholder constant, whose
    # code is dead and dropped by `dce` below.
    n = c["nargs"]
    users: dict[int, set[int]] = {n + k: set() for k in range(len(c["ops"]))}
    for k, op in enumerate(c["ops"]):
        if op[0] != "c":
            for i in op[1:3]:
                if i in users:
                    users[i].add(n + k)
    erased1 = {v for v, us in users.items() if not us and v != c["ret"]}
    erased2 = {v for v, us in users.items() if us and us <= erased1 and v != c["ret"]}
    gone = erased1 | erased2
    src = " ; ".join(("c 0" if n + k in gone else f"c {op[1]}" if op[0] == "c" else f"{op[0]} {op[1]} {op[2]}")
                     for k, op in enumerate(c["ops"]))
    return f"prog {c21.SZ_LETTER[c21.TYPES[c['ty']]]} {c['nargs']} {c['ret']} {TMP0} | {src}", st, ex


def _program_judge(ctx: core.Ctx, c: dict, st: str, ex: Extract | None, ans: str) -> None:
    ctx.ev()
    ctx.count("rules.programs")
    case = {"rules_program": c}
    if ans == "none":
        ctx.count("rules.programs.rejected_by_both" if st != "ok" else "rules.programs.rejected_by_model_only")
        if st == "ok":
            ctx.mismatch("correspondence:C21/x86-lowerSrc", case, ex.tokens if ex else st, ans,
                         "the real lowering passes accept a function that the Lean lowering rejects")
        return
    if st != "ok" or ex is None or ex.left or ex.unparsed:
        ctx.mismatch("correspondence:C21/x86-lowerSrc", case, st if ex is None else [ex.tokens, ex.left, ex.unparsed], ans,
                     "the Lean lowering accepts a function that the real lowering passes reject / leave unlowered")
        return
    model = ans[5:].split(" ; ")
    real = ["label"] + ex.tokens
    if renumber(dce(real, [0]), [0]) != renumber(dce(model, [0]), [0]):
        ctx.mismatch("correspondence:C21/x86-lowerSrc", case, real, model,
                     "real convert-func-to-x86-func + convert-arith-to-x86 and the Lean lowerSrc emit different code")
    else:
        ctx.count("rules.programs.covered_by_lowerSrc_sound")
        ctx.nt("prog:" + " ; ".join(real))


# ---------------------------------------------------------------------------------------------
# shapes the documented pipeline DOES produce: canonicalize after x86-allocate-registers
# ---------------------------------------------------------------------------------------------

PIPE_TO_ALLOC = ("convert-func-to-x86-func,convert-arith-to-x86,reconcile-unrealized-casts,canonicalize,"
                 "x86-regalloc-legalize,x86-allocate-registers")
_PIPE: Any = None
CANON_SITE = "xdsl.transforms.canonicalization_patterns.x86"


def _pipe_to_alloc() -> Any:
    global _PIPE
    if _PIPE is None:
        from xdsl.passes import PassPipeline
        from xdsl.transforms import get_all_passes

        _PIPE = PassPipeline.parse_spec(get_all_passes(), PIPE_TO_ALLOC)
    return _PIPE


def _allocated(c: dict) -> tuple[Extract, Extract] | None:
    """(code after register allocation, the same after the pipeline's second canonicalize) of a
    func/arith function, or None when the pipeline does not compile it"""
    from props import c21

    m = parse(c21.case_to_mlir(c, "f"))
    try:
        with contextlib.redirect_stdout(io.StringIO()), contextlib.redirect_stderr(io.StringIO()):
            _pipe_to_alloc().apply(_context(), m)
    except Exception:  # noqa: BLE001
        return None
    before = extract(m)
    if apply_pass(m, "canonicalize") != "ok":
        return None
    return before, extract(m)


def _pipeline_lines(c: dict, before: Extract, after: Extract, rng: Any, nvec: int) -> tuple[list[str], list[tuple[str, Any]]]:
    lines: list[str] = []
    plan: list[tuple[str, Any]] = []
    for tok, facts in zip(before.tokens, before.facts):
        if tok == "ret":
            continue
        for name in ("RemoveRedundantDS_Mov", "RS_Add_Zero"):
            lines.append(f"canon {name} | {' ; '.join(facts)} | {tok}")
            plan.append(("model", (tok, name)))
    n = c["nargs"]
    for _ in range(nvec):
        rsp = (0x7FFF00001000 + 16 * rng.randrange(64)) & M64
        args = [rand_word(rng) for _ in range(n)]
        regs = {4: rsp}
        for i in range(min(n, 6)):
            regs[ARG_REGS[i]] = args[i]
        mems = {rsp + 8 * (i - 6 + 1): args[i] for i in range(6, n)}
        for which, ex in (("before", before), ("after", after)):
            lines.append(xrun_line(regs, mems, ex.tokens, list(range(16)), list(mems)))
            plan.append((which, (args, mems)))
    return lines, plan


def _pipeline_judge(ctx: core.Ctx, c: dict, before: Extract, after: Extract, plan: list[tuple[str, Any]], answers: list[str],
                    verbose: bool = False) -> bool:
    from props import c21

    w = c21.TYPES[c["ty"]]
    case = {"rules_pipeline": c}
    ctx.ev()
    ctx.count("rules.pipeline_canon.functions")
    expected: list[str] = []
    runs: list[tuple[str, Any, str]] = [(k, e, a) for (k, e), a in zip(plan, answers) if k != "model"]
    # the two rules that can fire on this code, instruction by instruction
    it = iter(zip(plan, answers))
    fired = 0
    for tok in before.tokens:
        if tok == "ret":
            continue
        a1 = next(it)[1]
        a2 = next(it)[1]
        hit = [a for a in (a1, a2) if a != "none"]
        if hit:
            fired += 1
            expected += [t for t in hit[0][5:].split(" ; ") if t]
        else:
            expected.append(tok)
    expected.append("ret")
    ctx.count("rules.pipeline_canon.rewrites", fired)
    if fired:
        ctx.nt("pipecanon:" + " ; ".join(before.tokens))
    bad = ""
    for j in range(0, len(runs), 2):
        (_, (args, mems), a0), (_, _, a1) = runs[j], runs[j + 1]
        r0, m0 = parse_xrun(a0)
        r1, m1 = parse_xrun(a1)
        ctx.disagreements_checked += 1
        for r in range(16):
            if low(r0[r], w) != low(r1[r], w):
                bad = (f"register {r} holds {low(r1[r], w)} instead of {low(r0[r], w)} (low {w} bits) after canonicalize, "
                       f"arguments {args}")
        if m0 != m1:
            bad = f"memory differs after canonicalize, arguments {args}"
        if low(r0[0], w) != c21.py_eval(c, args):
            ctx.count("rules.pipeline_canon.allocated_code_already_wrong")   # the main leg's business
    if verbose:
        print("after allocation  :", " ; ".join(before.tokens))
        print("after canonicalize:", " ; ".join(after.tokens))
        print("Lean rules predict:", " ; ".join(expected))
        print("machine:", bad or "same registers (at the width of the function) and memory on the sampled inputs")
    if bad:
        ctx.fail(CANON_SITE, "canonicalize after x86-allocate-registers changes what a compiled function computes", case, bad,
                 {"after_allocation": before.tokens, "after_canonicalize": after.tokens}, {"expected": "same registers and memory"})
        return False
    if after.tokens != expected:
        ctx.mismatch("correspondence:C21/x86-canon-pipeline", case, after.tokens, expected,
                     "the pipeline's second canonicalize and the Lean canonicalization rules rewrite the allocated code differently")
        return False
    return True


def run_pipeline_canon(ctx: core.Ctx, n: int, nvec: int) -> None:
    """what `x86_canon_sound` is used for in the C21 sentence: the canonicalize that runs on register-allocated
    code of func/arith functions (register parameters, stack-parameter loads, constants, add/imul)"""
    from props import c21

    rng = ctx.rng
    cases = list(c21.REGRESSION_CASES)
    sysc = c21.systematic_cases()
    cases += rng.sample(sysc, min(len(sysc), max(6, n // 3)))
    while len(cases) < n:
        r = rng.random()
        ty = "i64" if r < 0.4 else "i32" if r < 0.65 else "index" if r < 0.75 else "i16" if r < 0.88 else "i8"
        c = c21.gen_case(rng, ty, rng.choice(["mix", "chain", "live", "stack", "stack"]), 120)
        # constants 0 make RS_Add_Zero applicable
        c["ops"] = [["c", 0] if op[0] == "c" and rng.random() < 0.3 else op for op in c["ops"]]
        cases.append(c)
    lines: list[str] = []
    todo: list[tuple[dict, Extract, Extract, list[tuple[str, Any]], int, int]] = []
    for c in cases:
        if any(op[0] not in "cam" for op in c["ops"]):
            continue
        res = _allocated(c)
        if res is None:
            ctx.count("rules.pipeline_canon.does_not_compile")
            continue
        before, after = res
        if before.unparsed or after.unparsed or before.left:
            ctx.mismatch("correspondence:C21/x86-rules-extract", {"rules_pipeline": c}, before.unparsed + after.unparsed + before.left,
                         "no rule", "register-allocated pipeline output outside the modelled instruction set")
            continue
        ls, plan = _pipeline_lines(c, before, after, rng, nvec)
        todo.append((c, before, after, plan, len(lines), len(lines) + len(ls)))
        lines += ls
    answers = ctx.model("x86_rules", lines) if lines else []
    for c, before, after, plan, lo, hi in todo:
        _pipeline_judge(ctx, c, before, after, plan, answers[lo:hi])
