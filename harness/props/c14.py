"""C14 — canonicalization, constant folding and CSE preserve program results."""
from __future__ import annotations

import time
from typing import Any

from vp import core

META = {
    "title": "Canonicalization, constant folding and CSE preserve program results",
    "category": "proof",
    "design_ref": "DESIGN.md §5 C14",
    "lean_modules": ["XdslProofs.C14", "XdslProofs.C14Rules", "XdslProofs.C14CSE"],
    "extra_targets": ["XdslGen", "driver_gen"],
    "text": (
        "(A) translation validation: generated func/arith/cf/scf programs over i1,i3,i8..i64,index,f32,f64 with boundary "
        "constants are run through the real passes canonicalize, constant-fold-interp, cse, test-constant-folding and "
        "test-specialised-constant-folding (on a clone); source and result are serialised to MiniIR and executed by the Lean "
        "reference semantics (XdslModel/Sem.lean: BitVec integer semantics, native IEEE floats, explicit ub) on boundary and "
        "random inputs; return values and the log of external calls must be identical whenever the source run is defined; a "
        "pass that raises or leaves unverifiable IR fails. (B) the fold kernels py_operation/is_right_unit/is_right_zero of "
        "xdsl/dialects/arith.py and IntegerType.normalized_value are translated from the current source into Lean on every run; "
        "XdslProofs.C14 proves for every width w>=1 and all Python ints that the folded attribute IntegerAttr(py_op(a,b), type, "
        "truncate_bits=True) denotes exactly bvop(a,b) and lies in the signed range, and that every right unit / right zero / "
        "left unit the classes declare is one for the reference semantics Sem.intBin (signed divisions: wherever MLIR defines the "
        "result). (C) XdslProofs.C14Rules proves rule_preserves (source defined => rewritten expression has the same value, every "
        "width) for the rule models of SignlessIntegerBinaryOperationConstantProp, ...ZeroOrUnitRight and fold() instantiated "
        "with the regenerated kernels, cmpi on equal operands, the three select patterns, select-of-cmpf to maximumf/minimumf (select_cmpf_to_minmax_sound: exact unless both operands are zeros, where only the sign of zero may differ; counterexample for nnan without nsz), the float constant fold incl. the "
        "division special-casing under stated IEEE laws, reassociation under the fastmath<reassoc> licence, and sequences of "
        "sound rules; XdslProofs.C14CSE proves cse_preserves for the CSE walk on straight-line SSA code of pure operations, and "
        "cse_hashed_preserves / cse_opinfo_preserves for the walk as it runs -- the known operations kept in a Python dict keyed by "
        "OperationInfo: for EVERY hash function (collisions included) the dict lookup finds what the collision-free table finds, "
        "provided __eq__ compares name, attribute and property dictionaries and result types in full (findH_eq_find); "
        "cse_keys_only_counterexample shows the proviso is needed (comparing only the attribute names merges constant -1 with "
        "constant -2 under any hash on which the two values collide). The "
        "rule and CSE models are tied to /repo by applying each real pattern to one-operation snippets (every integer op x widths "
        "x operand shapes x boundary constants), float folds on bit-pattern corpora (also against an exact-rational IEEE oracle), "
        "and real cse on generated straight-line blocks built around near-duplicates: for an operation of the block a twin that "
        "differs in exactly one component of its OperationInfo (attribute value, predicate, name, operand, operand order, result "
        "type; or none), attribute values being chosen with COLLIDING Python hashes wherever the type has such values "
        "(hash(-1)==hash(-2), v and v+k*(2**61-1)); every block is also run before/after the real pass on the reference semantics "
        "(every operation's result is returned), as are twin scf.if operations whose bodies are equal or differ in one constant / "
        "operation. The program stream of (A) draws integer constants the same way (twins of earlier constants of the program). "
        "CSE is public as a pass and as cse(Operation|Block|Region[, rewriter]) (other transformations call it on single blocks): "
        "every such block / scf.if program also goes, each time on a fresh clone, through every entry point (pass, module, "
        "function, region, block, block with a Rewriter, block with a PatternRewriter) one after the other in the same process, "
        "one of them twice on the same object; each result must verify, be closed (every operand defined inside the module the "
        "run was given: nothing from an earlier run's program) and print as the result of the pass or else pass the "
        "reference-semantics comparison itself; failures are reported as the history of runs that produces them, reduced in "
        "fresh processes. cse_stale_table_counterexample shows in the model why every run must start from an empty table."
    ),
    "technique": "translation validation on a Lean reference semantics + Python->Lean translation of the fold kernels + Lean 4 proofs of every rewrite rule + differential correspondence of rule/CSE models with the real patterns",
    "level_note": (
        "Trusted: Lean kernel; the statement of MLIR semantics in XdslModel/Sem.lean (index = 64 bit; NaN payloads are not "
        "observable); the MiniIR serialiser harness/vp/miniir.py; the translator (cross-checked by correspondence); Lean's native "
        "Float/Float32 as IEEE-754 (cross-checked against an exact-rational oracle on the fold corpus). The quantifier over "
        "programs and inputs in (A) is enumeration (generated programs x boundary/random inputs), not proof; runs whose source is "
        "ub/fuel/err in the reference semantics are excluded, as the property says. Programs carrying fastmath<reassoc> chains are "
        "generated separately: for them a changed float result after canonicalize is licensed by the flag and only counted; the "
        "rewrite itself is checked by (C). select(cmpf) shapes are enumerated separately (every predicate x {none,nnan,nsz,nnan+nsz,fast} x operand order x f32/f64 on all "
        "pairs of {+-0,+-1,+-inf,NaN,+-denormal}); there a difference after canonicalize counts as licensed only when an operand is a NaN "
        "(nnan) or both results are zeros differing in sign (nsz). Not generated: cf.switch, scf.while, vector/tensor types, "
        "minnumf/maxnumf, float<->int casts. The rule models cover one operation with constant / "
        "non-constant operands; the greedy driver, region_dce and Folder plumbing are exercised by (A) only. The CSE theorems "
        "cover straight-line pure single-result operations and the hash-table lookup; which operations are candidates at all is "
        "taken from the real is_side_effect_free (arith.extsi is not declared Pure and is never merged); region scoping, the region "
        "comparison is_structurally_equivalent and read-only memory operations are exercised by runs on the reference semantics "
        "only. Known findings (listed in known_findings.json) are inherited from the interpreter (C15)."
    ),
    "rule": (
        "programs: distinct generated program text on which the pass changed the IR counts as non-trivial (pass, program); "
        "kernels: every declared py_operation on boundary/random big-int pairs, is_right_unit/is_right_zero on every width x "
        "boundary constants (non-trivial = returns True), normalized_value on in/out-of-range values (non-trivial = value "
        "changed); rules: every SignlessIntegerBinaryOperation x widths {1,2,3,4,8,16,32,64,index} x operand shapes (var/var, "
        "var/const, const/var, const/const) x boundary constants (non-trivial = the pattern fired); float folds: op x type x "
        "corpus^2 (non-trivial = zero/inf/NaN operand or result); cse: generated straight-line blocks of near-duplicate operations (non-trivial = an operation "
        "was eliminated, or two different operations of the block have the same observed OperationInfo hash) and twin scf.if "
        "(non-trivial = merged); each of them through the six other entry points of cse (counted as evaluations, not as further non-trivial cases). Inputs on which the reference semantics gives ub are generated but excluded from the oracle."
    ),
    "trusted_base": [
        "reference semantics lean/XdslModel/Sem.lean (BitVec + native IEEE floats) and serialiser harness/vp/miniir.py",
        "translator harness/translate/py2lean.py + generate.py (regenerated and cross-checked every run)",
        "hand-written rule/CSE models lean/XdslModel/{ArithRules,CSE}.lean (tied by correspondence; kernels proved equal to the regenerated ones)",
    ],
    "budget": {"quick": 70, "thorough": 1100},
}


def timed(ctx: core.Ctx, name: str, f: Any) -> None:
    t = time.time()
    f(ctx)
    ctx.extra.setdefault("phase_seconds", {})[name] = round(time.time() - t, 1)


def run(ctx: core.Ctx) -> None:
    from props import c14_cse, c14_rules, c14_selcmpf, c14_tv
    from translate.generate import generate

    rep = generate(core.REPO)
    ctx.extra["translator"] = {"translated": len(rep["translated"]), "refused": rep["refused"], "regenerated_files": rep["changed_files"]}
    for k, v in rep["refused"].items():
        if "ArithPyOps" in k or "BuiltinInt" in k or "Comparisons" in k:
            ctx.broken_proof(f"translator refused {k}", v)
    t = time.time()
    ctx.lean()
    ctx.extra.setdefault("phase_seconds", {})["lean_build_and_audit"] = round(time.time() - t, 1)
    timed(ctx, "kernels", c14_rules.run_kernels)
    timed(ctx, "int_patterns", c14_rules.run_int_patterns)
    timed(ctx, "cmpi_select", c14_rules.run_cmpi_select)
    timed(ctx, "float_folds", c14_rules.run_float_folds)
    timed(ctx, "reassoc", c14_rules.run_reassoc)
    timed(ctx, "select_cmpf", c14_selcmpf.run)
    timed(ctx, "cse_blocks", c14_cse.run)
    n = 110 if ctx.tier == "quick" else 6000
    t = time.time()
    c14_tv.run_stream(ctx, n, n // 4, reserve_s=12 if ctx.tier == "quick" else 40)
    ctx.extra["phase_seconds"]["program_stream"] = round(time.time() - t, 1)


def replay(ctx: core.Ctx, body: dict) -> int:
    from props import c14_rules, c14_tv

    case = body["case"]
    if isinstance(case, dict) and "cse_history" in case:
        from props import c14_cse

        return c14_cse.replay_history(ctx, case)
    if isinstance(case, dict) and "program" in case and "pass" in case:
        return c14_tv.replay_case(ctx, case)
    if isinstance(case, dict) and case.get("rule") in ("constprop", "unitzero", "fold") and "lhs" in case:
        from xdsl.pattern_rewriter import PatternRewriteWalker
        from xdsl.transforms.canonicalization_patterns import arith as pats

        wt: Any = "index" if case["type"] == "index" else int(case["type"])
        w = 64 if wt == "index" else wt
        a, b = tuple(case["lhs"]), tuple(case["rhs"])
        src = c14_rules.expr_of(case["op"], a, b)
        sn = c14_rules.Snippet(case["op"], wt, a, b)
        try:
            if case["rule"] == "fold":
                from xdsl.ir import SSAValue

                r = sn.op.fold()
                got = "none" if r is None else (sn.value_expr(r[0]) if isinstance(r[0], SSAValue) else f"c {int(r[0].value.data)}")
            else:
                pcls = pats.SignlessIntegerBinaryOperationConstantProp if case["rule"] == "constprop" else pats.SignlessIntegerBinaryOperationZeroOrUnitRight
                PatternRewriteWalker(pcls(), apply_recursively=False).rewrite_module(sn.module)
                got = sn.result_expr()
        except Exception as e:  # noqa: BLE001
            print(f"{case['rule']} on {src} (width {w}) raises {core.exc_name(e)}: {e}")
            return 1
        print(f"{case['rule']} on {src} (width {w}) gives {got}")
        if got == "none":
            return 0
        bad = 0
        for env in ([case["env"]] if "env" in case else [[0, 0], [1, 3], [(1 << w) - 1, 1]]):
            x, y = c14_rules.eval_expr(src, w, env), c14_rules.eval_expr(got, w, env)
            print(f"  env {env}: before {x} after {y}")
            bad |= int(x is not None and x != y)
        return bad
    if isinstance(case, dict) and "lhs_bits" in case:
        from xdsl.dialects import arith, builtin
        from xdsl.transforms.canonicalization_patterns.arith import _fold_const_operation

        t = case["type"]
        tcls = builtin.Float64Type if t == "f64" else builtin.Float32Type
        l, r = c14_rules.bits_to_float(t, int(case["lhs_bits"], 16)), c14_rules.bits_to_float(t, int(case["rhs_bits"], 16))
        cls = {"addf": arith.AddfOp, "subf": arith.SubfOp, "mulf": arith.MulfOp, "divf": arith.DivfOp}[case["op"]]
        want = c14_rules.show_bits(t, c14_rules.ieee_ref(case["op"], t, l, r))
        try:
            c = _fold_const_operation(cls, builtin.FloatAttr(l, tcls()), builtin.FloatAttr(r, tcls()))
        except Exception as e:  # noqa: BLE001
            print(f"{l!r} {case['op']} {r!r} : {t} raises {core.exc_name(e)}; IEEE-754 result bits: {want}")
            return 1
        got = "declined" if c is None else c14_rules.show_bits(t, c.value.value.data)
        print(f"{l!r} {case['op']} {r!r} : {t} folds to bits {got}; IEEE-754 result bits: {want}")
        return int(got not in ("declined", want))
    print("replay of this case kind: re-run ./check C14; case =", case)
    print("recorded implementation observation:", body.get("impl_observation"), "expected:", body.get("model_observation"))
    return 0
