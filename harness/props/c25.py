"""C25 — the liveness dataflow analysis computes its specified fixpoint under any schedule."""
from __future__ import annotations

import itertools
import json
from typing import Any

from vp import core

META = {
    "title": "Liveness dataflow analysis computes its specified fixpoint under any schedule",
    "category": "proof",
    "design_ref": "DESIGN.md §5 C25",
    "lean_modules": ["XdslProofs.C25"],
    "text": (
        "Lean model XdslModel/Liveness.lean of the sparse backward solver (initialisation walk, result-lattice "
        "dependents, enqueue on change, worklist loop) with the scheduler as a parameter `pick : Nat → List Nat → "
        "Nat`. Theorems for every program and every scheduler: the loop terminates within the stated fuel with an "
        "empty worklist; the computed set is a fixpoint of the specified closure and is contained in every closed "
        "set (least fixpoint) — equivalently a value is live iff a chain of operand edges leads from it to an "
        "operand of a not-trivially-removable op or a boundary seed; hence the result is the same for any two "
        "schedulers. The Executable gating of dead_code_analysis.py is part of the model: ops of a block that is "
        "not (yet) executable are skipped, a block marked executable after the liveness initialisation has all its "
        "ops enqueued (Executable.on_update) and is handled by the worklist loop; solve_spec is proved for the "
        "gated solver (only ops of eventually executable blocks demand/forward liveness), solve_spec_all_exec "
        "gives the ungated statement when every block is executable at some time, load_order_independent that the "
        "load order of DeadCodeAnalysis and LivenessAnalysis does not matter, never_exec_dead/nothing_executable "
        "that never-executable blocks contribute nothing. Tie to /repo: generated functions/modules are analysed "
        "under both load orders of the two analyses by the real DataFlowSolver + "
        "LivenessAnalysis with the unmodified deque and with `_worklist` replaced by a logging container popping "
        "at scheduler-chosen positions (FIFO, LIFO, ≥20 random orders; all orders for the small-scope "
        "enumeration); liveness per value and the sequence of popped work items are compared with the Lean model "
        "run on the same schedule, and liveness with an independent reachability oracle. Removability is a property "
        "of the op INSTANCE: besides op classes whose removability is a class constant the programs hold several "
        "ops of one class with differing answers (RegisterAllocatedMemoryEffect: test.allocatable, rv32.li, "
        "riscv.add/mul/mv/lw/sw, x86.ds.mov with unallocated/allocated result registers; dmp.swap with/without "
        "result), in both relative orders, under both load orders and all schedules. Three independent sources for "
        "the flag: the oracle derives it from the case description (kind + result type letters), the Lean model "
        "computes it itself (`instWbd`, from the traits and operand/result register types read off the real op — "
        "theorems instWbd_iff, instWbd_regAlloc, instWbd_operands_irrelevant, instWbd_not_class_constant, "
        "live_mono_wbd, solve_mono_wbd, class_constant_flag_counterexample), and the model's flags are compared with "
        "would_be_trivially_dead(op) called per instance (`wbd` line). Every way an op can fail to be removable "
        "occurs as the ONLY consumer of a pure chain: unknown effects (test.op, func.return, func.call), a declared "
        "WRITE (test.op_with_memwrite, memref.store), a declared ALLOC that names no value (memref.alloc / "
        "memref.alloca with dynamic sizes), a declared FREE (memref.dealloc), a register write, and being a "
        "terminator although the op declares no memory effect at all (affine.yield, llvm.return, scf.yield closing "
        "a function body) — theorems instWbd_terminator_or_symbol, resultOnlyEffects_ne_instWbd, "
        "instWbd_alloc_free_write; exhaustively for bodies of ≤ 2 (thorough 3) such ops x every terminator kind."
    ),
    "technique": "Lean 4 proof over a scheduler-parametric solver model + differential correspondence (liveness and pop trace per schedule) with the real solver",
    "level_note": (
        "Statement covers supported IR only: ops without regions/successors (the real "
        "analysis raises NotImplementedError otherwise; that stream is only counted). With DeadCodeAnalysis only the "
        "entry block of the top-level op is executable, so functions are analysed one at a time (mode func) or with "
        "the test-suite idiom of marking blocks executable (mode module); running on a module with DeadCodeAnalysis "
        "(mode module_dca) leaves function bodies unanalysed by design (dead_code_analysis.py: 'only the entry block "
        "of the top-level op's first region is marked as live'; sparse_analysis.py: 'If the parent block is not "
        "executable, do nothing'): there the oracle demands exactly the boundary values (seeds/exits) live, as the "
        "gated theorem says. Modes func/graph/module_dca run with DeadCodeAnalysis loaded before and after "
        "LivenessAnalysis; all runs of a program must agree. In dominance-ordered bodies the initial backward "
        "walk already reaches the fixpoint (worklist stays empty); non-empty worklists come from graph-region "
        "module bodies (uses before defs, cycles) and from boundary values passed to set_to_exit_state after "
        "initialisation by a harness subclass of LivenessAnalysis. 'Not trivially removable' is "
        "would_be_trivially_dead(op) = False for that op instance; the oracle uses the generator's design table "
        "(per kind a constant, or — kinds carrying RegisterAllocatedMemoryEffect — 'no result has an allocated "
        "register type'), the model its own instWbd of the instance description (traits whose get_effects the "
        "model does not describe, i.e. dmp.swap here: the flag of the real function for that instance, counted as "
        "ops.flag_from_real_function). Terminators other than func.return close function bodies only (valid "
        "position); a body closed by scf.yield is not run through the verifier (scf.yield wants an scf parent; the "
        "analysis never looks at the parent op), counted as programs.not_verified.*. Trusted: Lean kernel, the hand-written model (tied by "
        "correspondence), Python set/dict semantics, this harness."
    ),
    "rule": (
        "case = one program (mode, op list with operand ids, seeds/exits), solved under both load orders of "
        "DeadCodeAnalysis/LivenessAnalysis (second order: block ops enqueued on becoming executable); non-trivial = the reference marks at "
        "least one value live through a chain of ≥2 operand edges and leaves at least one value dead; distinct = "
        "distinct program JSON. Every program is solved with the untouched deque, FIFO, LIFO and ≥20 random schedules "
        "(small-scope programs: every schedule). Histogram counts programs per mode, schedules, pops, and programs "
        "whose worklist held ≥2 items at once (where schedules can differ), and programs in which one op class "
        "has a removable instance before / after a non-removable one (programs.same_class.*), programs closed by "
        "an effect-free terminator per kind, programs with alloc-/free-only ops."
    ),
    "trusted_base": [
        "correspondence harness harness/props/c25.py (differential: liveness bits + worklist pop trace per schedule)",
        "hand-written Lean model XdslModel/Liveness.lean of liveness_analysis.py / sparse_analysis.py / dataflow.py",
    ],
    "budget": {"quick": 130, "thorough": 1100},
}

SITE_IMPL = "xdsl.analysis.liveness_analysis.LivenessAnalysis.visit_operation_impl"
SITE_SOLVER = "xdsl.analysis.dataflow.DataFlowSolver.initialize_and_run"

# Value types: one letter each.  i = i32, m = memref<i32>; register types: r = !riscv.reg (unallocated),
# R = !riscv.reg<a0>, S = !riscv.reg<t2>, t = !test.reg, T = !test.reg<a1>, x = !x86.reg64, X = !x86.reg64<rax>;
# f = !stencil.field, p = !stencil.temp; n = index, u = memref<?xi32>, v = memref<?x?xi32>.
ALLOCATED = "RSTX"   # the letters that stand for an *allocated* register type
ALL_TYPES = "imrRStTxXfpnuv"

# kind -> (operand signature: None = variadic of any types, else one entry per operand listing the admissible
#          type letters; removable by design: True / False = a constant of the op class, "regs" = decided per
#          INSTANCE: the op (a class carrying RegisterAllocatedMemoryEffect) is removable iff none of its results
#          has an allocated register type — allocated *operands* only add READ effects)
KINDS: dict[str, tuple[Any, Any]] = {
    "const": ("", True),
    "addi": ("ii", True),
    "muli": ("ii", True),
    "subi": ("ii", True),
    "xori": ("ii", True),
    "divsi": ("ii", True),
    "pure": (None, True),     # test.pureop
    "read": (None, True),     # test.op_with_memread: read-only effects
    "load": ("m", True),      # memref.load: read-only
    "test": (None, False),    # test.op: unknown effects
    "write": (None, False),   # test.op_with_memwrite
    "store": ("im", False),   # memref.store
    "call": ("i", False),     # func.call @ext
    "ret": (None, False),     # func.return: terminator
    # --- one op class, removability differs between instances -----------------------------------------------
    "alloc": (None, "regs"),              # test.allocatable (operands/results of any type)
    "li": ((), "regs"),                   # rv32.li
    "radd": (("rRS", "rRS"), "regs"),     # riscv.add
    "rmul": (("rRS", "rRS"), "regs"),     # riscv.mul
    "rmv": (("rRS",), "regs"),            # riscv.mv
    "rlw": (("rRS",), "regs"),            # riscv.lw: + MemoryReadEffect (read-only)
    "rsw": (("rRS", "rRS"), False),       # riscv.sw: + MemoryWriteEffect
    "xmov": (("xX",), "regs"),            # x86.ds.mov
    # dmp.swap (SwapOpMemoryEffect): with a result (temp operand) it has no effects, without (field operand)
    # it reads and writes its operand — one class, two design rows
    "swapf": (("f",), False),
    "swapp": (("p",), True),
    # --- one declared effect kind each (READ alone: read/load, WRITE alone: write/store above) ---------------
    # plain MemoryAllocEffect: an ALLOC effect that names no value — not an allocation "of the op's own
    # results" for result_only_effects, the op is not removable; operands = one index per dynamic dimension of
    # the result type (m: none, u: one, v: two)
    "cidx": ((), True),                   # arith.constant : index
    "malloc": ("dyn", False),             # memref.alloc
    "malloca": ("dyn", False),            # memref.alloca
    "dealloc": (("muv",), False),         # memref.dealloc: MemoryFreeEffect
    # --- terminators that DECLARE no memory effect (Pure / NoMemoryEffect): a terminator is never trivially
    # removable whatever its effects — only generated as the closing op of a function body
    "ayield": (None, False),              # affine.yield (Pure, no parent constraint)
    "lret": ("opt", False),               # llvm.return (NoMemoryEffect; no or one operand)
    "yield": (None, False),               # scf.yield (Pure; wants an scf parent: such programs are not verified)
}
TERMINATORS = ("ret", "ayield", "lret", "yield")
PURE_TERMINATORS = ("ayield", "lret", "yield")
NEEDS_PARENT = {"yield"}
DYN_DIMS = {"m": 0, "u": 1, "v": 2}


def operand_sig(kind: str, outs: str):
    """operand signature of one instance (see KINDS); "dyn": one index per dynamic dimension of the result"""
    sig = KINDS[kind][0]
    if sig == "dyn":
        return ("n",) * DYN_DIMS[outs]
    return sig
INSTANCE_KINDS = {k for k, (_s, r) in KINDS.items() if r == "regs"} | {"swapf", "swapp"}
OP_CLASS = {"swapf": "swap", "swapp": "swap"}   # kinds that are the same xDSL op class


def op_removable(kind: str, outs: str) -> bool:
    """Removability of one op instance by design of the generator — from the case description alone
    (kind and result types), never from xDSL."""
    r = KINDS[kind][1]
    if r == "regs":
        return not any(c in ALLOCATED for c in outs)
    return bool(r)
FIXED_OUT = {"const": "i", "addi": "i", "muli": "i", "subi": "i", "xori": "i", "divsi": "i", "load": "i",
             "write": "", "store": "", "call": "i", "ret": "", "rsw": "", "swapf": "", "swapp": "p",
             "cidx": "n", "dealloc": "", "ayield": "", "lret": "", "yield": ""}
# result types the generator chooses from, for kinds whose removability hangs on them
REG_OUT = {"li": ["r", "r", "R", "S"], "radd": ["r", "r", "R", "S"], "rmul": ["r", "R"], "rmv": ["r", "r", "R", "S"],
           "rlw": ["r", "R"], "xmov": ["x", "x", "X"], "malloc": ["m", "u", "u", "u", "v"], "malloca": ["m", "u", "u", "v"],
           "alloc": ["", "t", "t", "T", "T", "r", "R", "tT", "Tt", "it", "iT", "tt", "rr", "RS", "x", "X", "i", "p"]}
VAR_OUT = ["i", "i", "i", "i", "ii", "im", "iii", "m", "r", "rR", "rS", "x", "X", "f", "p", "t", "T", "n", "n", "in", "u"]


# ---------------------------------------------------------------------------------------------
# case structure
#   {"mode": "func"|"module"|"module_dca"|"graph",
#    "funcs": [{"public": bool, "args": "iim", "ops": [[kind, [operand ids], "result types"], ...]}],
#    "seeds": [ids], "exits": [ids]}
# value ids: per function, arguments first, then op results in op order; functions in order.
# ---------------------------------------------------------------------------------------------

def value_types(case: dict) -> list[str]:
    ts: list[str] = []
    for f in case["funcs"]:
        ts.extend(f["args"])
        for _, _, out in f["ops"]:
            ts.extend(out)
    return ts


def flat_ops(case: dict) -> list[tuple[str, list[int], list[int], bool, bool]]:
    """(kind, operands, results, in public function, removable by design) in program order"""
    out = []
    nxt = 0
    for f in case["funcs"]:
        nxt += len(f["args"])
        for kind, ins, outs in f["ops"]:
            res = list(range(nxt, nxt + len(outs)))
            nxt += len(outs)
            out.append((kind, list(ins), res, bool(f["public"]), op_removable(kind, outs)))
    return out


def reference(case: dict) -> list[bool]:
    """The property sentence, directly: a value is live iff it is, directly or through a chain of
    operands, used by an op that is not trivially removable, or returned from a public function
    (or is one of the explicitly given boundary seeds)."""
    n = len(value_types(case))
    # mode module_dca: DeadCodeAnalysis marks only the module's own block executable ("only the entry
    # block of the top-level op's first region is marked as live"), the analysis documents that ops of
    # non-executable blocks are not looked at: no op of a function body demands or forwards anything
    ops = flat_ops(case) if case["mode"] != "module_dca" else []
    live = [False] * n
    todo: list[int] = []

    def root(v: int) -> None:
        if not live[v]:
            live[v] = True
            todo.append(v)

    for kind, ins, _res, public, removable in ops:
        if not removable or (kind == "ret" and public):
            for v in ins:
                root(v)
    for v in list(case.get("seeds", [])) + list(case.get("exits", [])):
        root(v)
    producers: dict[int, list[int]] = {}
    for _kind, ins, res, _p, _rm in ops:
        for r in res:
            producers.setdefault(r, []).extend(ins)
    while todo:
        r = todo.pop()
        for v in producers.get(r, ()):
            root(v)
    return live


def chain_depths(case: dict, live: list[bool]) -> int:
    """longest shortest-distance (in operand edges) from a live value to a root; cheap proxy: BFS levels"""
    ops = flat_ops(case) if case["mode"] != "module_dca" else []
    n = len(live)
    dist: list[int | None] = [None] * n
    frontier = []
    for kind, ins, _res, public, removable in ops:
        if not removable:
            for v in ins:
                if dist[v] is None:
                    dist[v] = 1
                    frontier.append(v)
    for v in list(case.get("seeds", [])) + list(case.get("exits", [])):
        if dist[v] is None:
            dist[v] = 1
            frontier.append(v)
    producers: dict[int, list[int]] = {}
    for _kind, ins, res, _p, _rm in ops:
        for r in res:
            producers.setdefault(r, []).extend(ins)
    best = 1 if frontier else 0
    while frontier:
        nf = []
        for r in frontier:
            for v in producers.get(r, ()):
                if dist[v] is None:
                    dist[v] = dist[r] + 1  # type: ignore[operator]
                    best = max(best, dist[v])  # type: ignore[arg-type]
                    nf.append(v)
        frontier = nf
    return best


# ---------------------------------------------------------------------------------------------
# real code
# ---------------------------------------------------------------------------------------------

class SchedList:
    """Stand-in for `collections.deque` in `DataFlowSolver._worklist`: `popleft` removes the element at
    the position chosen by `chooser(k, length)`; logs (index, length, item)."""

    def __init__(self, chooser):
        self.items: list[Any] = []
        self.chooser = chooser
        self.log: list[tuple[int, int, Any]] = []
        self.max_len = 0

    def append(self, x: Any) -> None:
        self.items.append(x)
        self.max_len = max(self.max_len, len(self.items))

    def __bool__(self) -> bool:
        return bool(self.items)

    def __len__(self) -> int:
        return len(self.items)

    def __iter__(self):
        return iter(self.items)

    def __contains__(self, x: Any) -> bool:
        return x in self.items

    def extend(self, xs) -> None:
        for x in xs:
            self.append(x)

    def clear(self) -> None:
        self.items.clear()

    def popleft(self) -> Any:
        n = len(self.items)
        i = self.chooser(len(self.log), n) % n
        x = self.items.pop(i)
        self.log.append((i, n, x))
        return x

    pop = popleft


_TY: dict[str, Any] = {}


def build(case: dict):
    """-> (module, top-level op to analyse, body ops in program order, values by id, blocks)"""
    from xdsl.dialects import affine, arith, func, llvm, memref, riscv, rv32, scf, stencil, test, x86
    from xdsl.dialects.builtin import DYNAMIC_INDEX, IndexType, MemRefType, ModuleOp, f32, i32
    from xdsl.dialects.experimental import dmp
    from xdsl.dialects.x86 import registers as x86_regs
    from xdsl.ir import Block, Region

    if not _TY:
        _TY.update({
            "i": i32, "m": MemRefType(i32, []),
            "r": riscv.IntRegisterType.unallocated(), "R": riscv.Registers.A0, "S": riscv.Registers.T2,
            "t": test.TestRegisterType.unallocated(), "T": test.TestRegisterType.from_name("a1"),
            "x": x86_regs.UNALLOCATED_REG64, "X": x86_regs.RAX,
            "f": stencil.FieldType([(0, 8), (0, 8)], f32), "p": stencil.TempType([(0, 8), (0, 8)], f32),
            "n": IndexType(), "u": MemRefType(i32, [DYNAMIC_INDEX]), "v": MemRefType(i32, [DYNAMIC_INDEX, DYNAMIC_INDEX])})
        _TY["strategy"] = dmp.GridSlice2dAttr((2, 2))
        for c in ALL_TYPES:
            if (c in ALLOCATED) != bool(getattr(_TY[c], "is_allocated", False)):
                raise core.InfraError(f"type letter {c}: allocated registers are exactly the letters {ALLOCATED}")
    ty = _TY
    mode = case["mode"]
    vals: list[Any] = []
    body_ops: list[Any] = []
    blocks: list[Any] = []
    top_ops: list[Any] = []

    def mk(kind: str, ins: list[Any], outs: str):
        rt = [ty[c] for c in outs]
        if kind == "const":
            return arith.ConstantOp.from_int_and_width(7, 32)
        if kind in ("addi", "muli", "subi", "xori", "divsi"):
            cls = {"addi": arith.AddiOp, "muli": arith.MuliOp, "subi": arith.SubiOp, "xori": arith.XOrIOp,
                   "divsi": arith.DivSIOp}[kind]
            return cls(ins[0], ins[1])
        if kind == "pure":
            return test.TestPureOp(operands=ins, result_types=rt)
        if kind == "read":
            return test.TestReadOp(operands=ins, result_types=rt)
        if kind == "test":
            return test.TestOp(operands=ins, result_types=rt)
        if kind == "write":
            return test.TestWriteOp(operands=ins, result_types=rt)
        if kind == "load":
            return memref.LoadOp.get(ins[0], [])
        if kind == "store":
            return memref.StoreOp.get(ins[0], ins[1], [])
        if kind == "call":
            return func.CallOp("ext", [ins[0]], [i32])
        if kind == "ret":
            return func.ReturnOp(*ins)
        if kind == "alloc":
            # both operand segments and both result segments are used; the order of operands/results is kept
            # (the verifier wants as many inout operands as inout results)
            q = min(len(ins), len(rt)) // 2
            ki, ko = len(ins) - q, len(rt) - q
            return test.TestAllocatableOp(ins[:ki], ins[ki:], rt[:ko], rt[ko:])
        if kind == "li":
            return rv32.LiOp(5, rd=rt[0])
        if kind == "radd":
            return riscv.AddOp(ins[0], ins[1], rd=rt[0])
        if kind == "rmul":
            return riscv.MulOp(ins[0], ins[1], rd=rt[0])
        if kind == "rmv":
            return riscv.MVOp(ins[0], rd=rt[0])
        if kind == "rlw":
            return riscv.LwOp(ins[0], 0, rd=rt[0])
        if kind == "rsw":
            return riscv.SwOp(ins[0], ins[1], 0)
        if kind == "xmov":
            return x86.DS_MovOp(ins[0], destination=rt[0])
        if kind in ("swapf", "swapp"):
            return dmp.SwapOp.get(ins[0], ty["strategy"])
        if kind == "cidx":
            return arith.ConstantOp.from_int_and_width(3, IndexType())
        if kind == "malloc":
            return memref.AllocOp(ins, [], rt[0])
        if kind == "malloca":
            return memref.AllocaOp.build(operands=[ins, []], result_types=[rt[0]])
        if kind == "dealloc":
            return memref.DeallocOp.get(ins[0])
        if kind == "ayield":
            return affine.YieldOp.get(*ins)
        if kind == "lret":
            return llvm.ReturnOp(*ins)
        if kind == "yield":
            return scf.YieldOp(*ins)
        raise core.InfraError(f"unknown op kind {kind}")

    if mode == "graph":
        (f,) = case["funcs"]
        if f["args"]:
            raise core.InfraError("graph mode has no block arguments")
        types = value_types(case)
        ph: dict[str, Any] = {}   # placeholder operands until every value exists
        created = []
        for kind, ins, outs in f["ops"]:
            for v in ins:
                if types[v] not in ph:
                    ph[types[v]] = test.TestPureOp(result_types=[ty[types[v]]]).results[0]
            op = mk(kind, [ph[types[v]] for v in ins], outs)
            created.append(op)
            vals.extend(op.results)
        for (kind, ins, outs), op in zip(f["ops"], created):
            for k, v in enumerate(ins):
                op.operands[k] = vals[v]
        body_ops = created
        module = ModuleOp(created + [func.FuncOp.external("ext", [i32], [i32])])
        blocks.append(module.body.block)
        return module, module, body_ops, vals, blocks

    for fi, f in enumerate(case["funcs"]):
        block = Block(arg_types=[ty[c] for c in f["args"]])
        base = len(vals)
        vals.extend(block.args)
        ret_types: list[Any] = []
        for kind, ins, outs in f["ops"]:
            if any(v >= len(vals) or v < base for v in ins):
                raise core.InfraError("operand does not dominate its use / crosses functions")
            op = mk(kind, [vals[v] for v in ins], outs)
            block.add_op(op)
            body_ops.append(op)
            vals.extend(op.results)
            if kind == "ret":
                ret_types = [vals[v].type for v in ins]
        fop = func.FuncOp(f"f{fi}", ([ty[c] for c in f["args"]], ret_types), Region([block]),
                          visibility="public" if f["public"] else "private")
        top_ops.append(fop)
        blocks.append(block)
    module = ModuleOp(top_ops + [func.FuncOp.external("ext", [i32], [i32])])
    top = top_ops[0] if mode == "func" else module
    return module, top, body_ops, vals, blocks


ORDERS = ("dca_first", "live_first")


def model_ops_of(case: dict, module, body_ops: list) -> list:
    """the real ops in the order of the Lean model's op list (= pre-order of the initial walk's reverse):
    func / module: the body ops; graph: the module block (body ops + the external func.func);
    module_dca: every func.func followed by its body ops."""
    mode = case["mode"]
    if mode in ("func", "module"):
        return list(body_ops)
    if mode == "graph":
        return list(module.body.block.ops)
    out = []
    for f in module.body.block.ops:
        out.append(f)
        for r in f.regions:
            for b in r.blocks:
                out.extend(b.ops)
    return out


_IMPLS: dict[Any, str] = {}


def describe(op) -> str:
    """The model's op line prefix for one real op instance.  `opi …`: what `would_be_trivially_dead` depends
    on, read off the op itself — class level: terminator? symbol? which implementations of
    `MemoryEffect.get_effects` its traits use; instance level: which operand/result types are allocated
    registers — WITHOUT calling `get_effects` / `would_be_trivially_dead`: the Lean model computes the flag
    (`instWbd`).  A trait whose `get_effects` the model does not describe: `op <flag>` with the answer of the
    real function for this instance."""
    from xdsl.backend.register_type import RegisterAllocatedMemoryEffect, RegisterType
    from xdsl.traits import (IsTerminator, MemoryAllocEffect, MemoryEffect, MemoryFreeEffect, MemoryReadEffect,
                             MemoryWriteEffect, NoMemoryEffect, SymbolOpInterface)
    from xdsl.transforms.dead_code_elimination import would_be_trivially_dead

    if not _IMPLS:
        for cls, letter in ((NoMemoryEffect, "N"), (MemoryReadEffect, "r"), (MemoryWriteEffect, "w"),
                            (MemoryAllocEffect, "a"), (MemoryFreeEffect, "f"), (RegisterAllocatedMemoryEffect, "G")):
            _IMPLS[cls.get_effects.__func__] = letter
    letters = []
    for t in op.get_traits_of_type(MemoryEffect):
        letter = _IMPLS.get(type(t).get_effects.__func__)
        if letter is None:
            return f"op {int(bool(would_be_trivially_dead(op)))}"
        letters.append(letter)

    def bits(vals) -> str:
        return "".join("1" if isinstance(v.type, RegisterType) and v.type.is_allocated else "0" for v in vals) or "-"

    return " ".join(["opi", str(int(op.has_trait(IsTerminator, value_if_unregistered=False))),
                     str(int(op.has_trait(SymbolOpInterface, value_if_unregistered=False))),
                     "".join(sorted(letters)) or "-", bits(op.operands), bits(op.results)])


def analyse(case: dict, chooser=None, verify: bool = False, order: str = "dca_first") -> dict:
    """Run the real solver.  chooser=None: untouched deque.  `order`: DeadCodeAnalysis loaded before
    (dca_first) or after (live_first) LivenessAnalysis.  Returns liveness bits, pop trace (indices into
    the model op list), chosen indices, wbd flags, max worklist length."""
    from xdsl.analysis.dataflow import DataFlowSolver, ProgramPoint
    from xdsl.analysis.dead_code_analysis import DeadCodeAnalysis, Executable
    from xdsl.analysis.liveness_analysis import Liveness, LivenessAnalysis
    from xdsl.context import Context
    from xdsl.transforms.dead_code_elimination import would_be_trivially_dead

    module, top, body_ops, vals, blocks = build(case)
    if verify:
        module.verify()
    exits = [vals[v] for v in case.get("exits", [])]

    class LivenessWithExits(LivenessAnalysis):
        """boundary values are handed to the real `set_to_exit_state` once the initial walk is done"""

        def initialize(self, op):  # type: ignore[no-untyped-def]
            super().initialize(op)
            for v in exits:
                self.set_to_exit_state(self.get_lattice_element(v))

    solver = DataFlowSolver(Context())
    if case["mode"] == "module":
        for b in blocks:  # test-suite idiom (tests/analysis/test_liveness_analysis.py)
            solver.get_or_create_state(ProgramPoint.at_start_of_block(b), Executable).live = True
    elif order == "dca_first":
        solver.load(DeadCodeAnalysis)
    solver.load(LivenessWithExits if exits else LivenessAnalysis)
    if case["mode"] != "module" and order != "dca_first":
        solver.load(DeadCodeAnalysis)
    for v in case.get("seeds", []):  # test-suite idiom `_seed_live`
        solver.get_or_create_state(vals[v], Liveness).is_live = True
    wl = None
    if chooser is not None:
        wl = SchedList(chooser)
        solver._worklist = wl  # type: ignore[assignment]
    err = None
    try:
        solver.initialize_and_run(top)
    except Exception as e:  # noqa: BLE001
        err = core.exc_name(e)
    bits = []
    for v in vals:
        st = solver.lookup_state(v, Liveness)
        bits.append(bool(st is not None and st.is_live))
    model_ops = model_ops_of(case, module, body_ops)
    index = {id(op): i for i, op in enumerate(model_ops)}
    trace: list[int] = []
    picks: list[int] = []
    if wl is not None:
        for i, _n, (point, _analysis) in wl.log:
            picks.append(i)
            trace.append(index.get(id(point.entity), -1))
    return {
        "bits": bits, "trace": trace, "picks": picks, "err": err, "order": order,
        "wbd": [bool(would_be_trivially_dead(op)) for op in body_ops],
        # per op of the model's op list: line prefix (see `describe`) and flag of the real function
        # (runs with the untouched deque only: the program is the same for every schedule)
        "descs": [describe(op) for op in model_ops] if chooser is None else None,
        "wbd_model": [bool(would_be_trivially_dead(op)) for op in model_ops] if chooser is None else None,
        "max_wl": wl.max_len if wl is not None else None,
        "rest": len(wl) if wl is not None else 0,
        "lens": [n for _i, n, _x in wl.log] if wl is not None else [],
    }


def obs_line(r: dict) -> str:
    if r["err"]:
        return "raise " + r["err"]
    return "live=" + bits_str(r["bits"]) + " trace=" + ",".join(map(str, r["trace"])) + f" rest={r['rest']}"


def bits_str(bits) -> str:
    return "".join("1" if b else "0" for b in bits)


def model_lines(case: dict, descs: list[str], scheds: list[list[int]], order: str = "dca_first") -> list[str]:
    """program for the Lean model: ops with their block ids, and which blocks are executable before
    (`pre`) / become executable after (`post`) the initialisation of the liveness analysis.  `descs`: the
    line prefixes of `describe` for the real ops in the order of `model_ops_of` (body ops and, where the
    analysed block holds them, the func.func ops)."""
    lines = [f"reset {len(value_types(case))}"]
    mode = case["mode"]
    descs = list(descs)
    body = [(len(ins), ins, res) for (kind, ins, res, _p, _rm) in flat_ops(case)]

    def opline(ins=(), res=()) -> str:
        return " ".join(map(str, [descs.pop(0), len(ins), *ins, *res]))

    dca = "pre 0" if order == "dca_first" else "post 0"
    if mode in ("func", "graph"):
        lines += [opline(ins, res) for _n, ins, res in body]
        if mode == "graph":
            lines.append(opline())           # the external func.func closing the module block
        lines.append(dca)
    else:
        k = 0
        for fi, f in enumerate(case["funcs"]):
            n = len(f["ops"])
            if mode == "module_dca":
                lines += ["blk 0", opline(), f"blk {fi + 1}"]       # the func.func op itself
            else:
                lines.append(f"blk {fi}")
            lines += [opline(ins, res) for _n, ins, res in body[k:k + n]]
            k += n
        if mode == "module_dca":
            lines += ["blk 0", opline(), dca]                      # func.func @ext; only block 0 is ever executable
        else:
            lines += [f"pre {fi}" for fi in range(len(case["funcs"]))]  # `.live = True` by hand
    if descs:
        raise core.InfraError("op descriptions and model op list out of step")
    lines += [f"seed {v}" for v in case.get("seeds", [])]
    lines += [f"exit {v}" for v in case.get("exits", [])]
    lines.append("wbd")
    lines += [" ".join(["solve", *map(str, s)]) for s in scheds]
    return lines


# ---------------------------------------------------------------------------------------------
# schedules
# ---------------------------------------------------------------------------------------------

def random_choosers(rng, n: int):
    out = []
    for t in range(n):
        r = __import__("random").Random(rng.getrandbits(64))
        style = t % 4
        if style == 0:
            out.append(lambda k, n, r=r: r.randrange(n))
        elif style == 1:  # mostly the back of the queue
            out.append(lambda k, n, r=r: n - 1 - min(n - 1, int(r.expovariate(1.0))))
        elif style == 2:  # alternate front/back with noise
            out.append(lambda k, n, r=r: (0 if k % 2 else n - 1) if r.random() < 0.8 else r.randrange(n))
        else:             # middle
            out.append(lambda k, n, r=r: (n // 2 + r.randrange(-1, 2)) % n)
    return out


def all_schedules(case: dict, cap: int = 400, order: str = "dca_first"):
    """systematic exploration of every pop order of the real solver (small programs)"""
    runs = []
    stack: list[list[int]] = [[]]
    while stack and len(runs) < cap:
        prefix = stack.pop()
        r = analyse(case, lambda k, n, p=prefix: p[k] if k < len(p) else 0, order=order)
        runs.append(r)
        for k in range(len(prefix), len(r["picks"])):
            for alt in range(1, r["lens"][k]):
                stack.append(r["picks"][:k] + [alt])
    return runs, not stack


# ---------------------------------------------------------------------------------------------
# generators
# ---------------------------------------------------------------------------------------------

def gen_body(rng, args: str, nops: int, graph: bool, first_id: int = 0) -> list[list[Any]]:
    """ops of one body.  Dominance order unless `graph` (then operands may be any value)."""
    kinds_w = [("const", 2), ("addi", 4), ("muli", 2), ("subi", 2), ("xori", 1), ("divsi", 1), ("pure", 5),
               ("read", 2), ("load", 1), ("test", 2), ("write", 1), ("store", 1), ("call", 1),
               ("alloc", 4), ("li", 2), ("radd", 3), ("rmul", 1), ("rmv", 2), ("rlw", 1), ("rsw", 1), ("xmov", 1),
               ("swapf", 1), ("swapp", 1), ("cidx", 1), ("malloc", 2), ("malloca", 1), ("dealloc", 1)]
    eff_scale = rng.choice([0.0, 0.3, 1.0, 1.0, 2.5])
    # share of ops whose removability is a property of the instance (0: the class-constant families alone;
    # large: bodies made of a few op classes with removable and non-removable instances side by side)
    inst_scale = rng.choice([0.0, 0.5, 1.0, 3.0, 10.0])
    names = [k for k, _ in kinds_w]
    weights = [w * (eff_scale if KINDS[k][1] is False else 1.0) * (inst_scale if k in INSTANCE_KINDS else 1.0)
               for k, w in kinds_w]
    var_out = VAR_OUT if inst_scale else ["i", "i", "i", "ii", "im", "iii", "m"]
    plan: list[tuple[str, str, int]] = []  # kind, out types, #operands for variadic
    for _ in range(nops):
        kind = rng.choices(names, weights)[0]
        if kind in FIXED_OUT:
            outs = FIXED_OUT[kind]
        elif kind in REG_OUT:
            outs = rng.choice(REG_OUT[kind])
        elif kind == "test":
            outs = rng.choice(["", "i", "i", "ii", "m"])
        else:
            outs = rng.choice(var_out)
        plan.append((kind, outs, rng.choice([0, 1, 1, 2, 2, 3]) if KINDS[kind][0] is None else 0))
    # value table
    types: list[str] = list(args)
    res_of: list[list[int]] = []
    for kind, outs, _ in plan:
        res_of.append(list(range(first_id + len(types), first_id + len(types) + len(outs))))
        types.extend(outs)
    ops: list[list[Any]] = []
    avail_end = len(args)
    for j, (kind, outs, nvar) in enumerate(plan):
        def pick(t: str | None):
            hi = len(types) if graph else avail_end
            cands = [first_id + v for v in range(hi) if t is None or types[v] in t]
            if not cands:
                return None
            if rng.random() < 0.6:  # favour recent values: chains
                near = [c for c in cands if abs(c - first_id - avail_end) <= 3]
                if near:
                    return rng.choice(near)
            return rng.choice(cands)
        sig = operand_sig(kind, outs)
        ins: list[int] = []
        ok = True
        if sig is None:
            n = max(nvar, 1) if kind == "write" else nvar
            for _ in range(n):
                v = pick(None)
                if v is not None:
                    ins.append(v)
            if kind == "write" and not ins:
                ok = False
        else:
            for t in sig:
                v = pick(t)
                if v is None:
                    ok = False
                    break
                ins.append(v)
        if not ok:  # fall back to something that needs no operands of that type
            kind, ins = ("const", []) if outs == "i" else ("li", []) if outs in ("r", "R", "S") else ("pure", [])
        ops.append([kind, ins, outs])
        avail_end += len(outs)
    return ops


def gen_case(rng, mode: str, size: int) -> dict:
    if mode == "graph":
        ops = gen_body(rng, "", rng.randint(1, size), True)
        case = {"mode": mode, "funcs": [{"public": True, "args": "", "ops": ops}]}
    else:
        funcs = []
        nf = 1 if mode == "func" else rng.randint(1, 3)  # modes module, module_dca
        base = 0
        for _ in range(nf):
            args = "".join(rng.choice("iiim" if rng.random() < 0.6 else "iimrRtTxfpnnu") for _ in range(rng.randint(0, 3)))
            ops = gen_body(rng, args, rng.randint(0, size), False, base)
            types = list(args) + [c for o in ops for c in o[2]]
            ivals = [base + k for k, t in enumerate(types) if t == "i"]
            nret = min(len(ivals), rng.choice([0, 1, 1, 1, 2]))
            rets = [rng.choice(ivals[-4:] if rng.random() < 0.7 else ivals) for _ in range(nret)]
            ops.append(["ret", rets, ""])
            if rng.random() < 0.3:
                # the body is closed by a terminator that declares no memory effect, with operands of any type
                allv = list(range(base, base + len(types)))
                term = rng.choice(PURE_TERMINATORS)
                k = min(len(allv), rng.choice([0, 1, 1, 2]) if term != "lret" else rng.choice([0, 1, 1]))
                ops[-1] = [term, [rng.choice(allv[-5:] if rng.random() < 0.7 else allv) for _ in range(k)], ""]
            funcs.append({"public": rng.random() < 0.6, "args": args, "ops": ops})
            base += len(types)
        case = {"mode": mode, "funcs": funcs}
    n = len(value_types(case))
    case["seeds"] = sorted(rng.sample(range(n), min(n, rng.choice([0, 0, 0, 1, 2])))) if n else []
    case["exits"] = sorted(rng.sample(range(n), min(n, rng.choice([0, 0, 1, 1, 2, 3])))) if n else []
    return case


def small_scope(nops: int):
    """every graph-mode program with `nops` single-result ops over kinds
    {pure x, pure x y, test x (effectful, 1 result)} and operands among all values (incl. own / later
    results), plus optionally one exit value"""
    n = nops
    shapes = []
    for a in range(n):
        shapes.append(("pure", [a]))
        shapes.append(("test", [a]))
        for b in range(n):
            shapes.append(("pure", [a, b]))
    for combo in itertools.product(shapes, repeat=n):
        ops = [[k, list(ins), "i"] for k, ins in combo]
        for ex in [None, *range(n)]:
            yield {"mode": "graph", "funcs": [{"public": True, "args": "", "ops": ops}], "seeds": [],
                   "exits": [] if ex is None else [ex]}


def small_scope_inst(nops: int):
    """every graph-mode program with `nops` single-result ops of ONE class (test.allocatable, one operand)
    whose result is an unallocated (removable instance) or an allocated (non-removable instance) register,
    operands among all values, plus optionally one exit value: every mix and every relative order of
    removable and non-removable instances of the same class"""
    n = nops
    shapes = [("alloc", [a], out) for a in range(n) for out in ("t", "T")]
    for combo in itertools.product(shapes, repeat=n):
        ops = [[k, list(ins), out] for k, ins, out in combo]
        for ex in [None, *range(n)]:
            yield {"mode": "graph", "funcs": [{"public": True, "args": "", "ops": ops}], "seeds": [],
                   "exits": [] if ex is None else [ex]}


def small_scope_inst_func(nops: int):
    """the same family in a function body (dominance order: operands among the two block arguments and
    earlier results), closed by a `func.return` of nothing, in a public function"""
    def rec(k: int, ops: list):
        if k == nops:
            yield {"mode": "func", "funcs": [{"public": True, "args": "tt", "ops": ops + [["ret", [], ""]]}],
                   "seeds": [], "exits": []}
            return
        for a in range(2 + k):
            for out in ("t", "T"):
                yield from rec(k + 1, ops + [["alloc", [a], out]])
    yield from rec(0, [])


def small_scope_eff(nops: int):
    """every public function body (one index argument) with `nops` ops over {pure n -> n, memref.alloc(n),
    memref.alloca(n), memref.dealloc(u), read(n) -> n}: one declared effect kind each (none / ALLOC naming no
    value / FREE / READ), operands among the earlier values of the right type, closed by every terminator kind
    (func.return: unknown effects; affine.yield, llvm.return, scf.yield: declared effect-free) with no or one
    operand among all values"""
    def rec(k: int, ops: list, types: str):
        if k == nops:
            for term in TERMINATORS:
                for v in [None, *range(len(types))]:
                    yield {"mode": "func", "funcs": [{"public": True, "args": "n",
                                                      "ops": ops + [[term, [] if v is None else [v], ""]]}],
                           "seeds": [], "exits": []}
            return
        ns = [v for v, t in enumerate(types) if t == "n"]
        us = [v for v, t in enumerate(types) if t == "u"]
        for a in ns:
            yield from rec(k + 1, ops + [["pure", [a], "n"]], types + "n")
            yield from rec(k + 1, ops + [["read", [a], "n"]], types + "n")
            yield from rec(k + 1, ops + [["malloc", [a], "u"]], types + "u")
            yield from rec(k + 1, ops + [["malloca", [a], "u"]], types + "u")
        for a in us:
            yield from rec(k + 1, ops + [["dealloc", [a], ""]], types)
    yield from rec(0, [], "n")


def same_class_orders(case: dict) -> set[str]:
    """which relative orders of a removable and a non-removable instance of one op class occur"""
    seen: dict[str, set[bool]] = {}
    out: set[str] = set()
    for kind, _ins, _res, _p, rm in flat_ops(case):
        cls = OP_CLASS.get(kind, kind)
        if (not rm) in seen.get(cls, ()):
            out.add("removable_after_effectful" if rm else "effectful_after_removable")
        seen.setdefault(cls, set()).add(rm)
    return out


# ---------------------------------------------------------------------------------------------
# checking one program
# ---------------------------------------------------------------------------------------------

def shrink_case(case: dict, still_fails) -> dict:
    """drop seeds/exits/functions/ops (ops only when their results are unused) while it still fails"""
    cur = json.loads(json.dumps(case))

    def try_(c):
        try:
            return still_fails(c)
        except Exception:  # noqa: BLE001
            return False

    changed = True
    steps = 0
    while changed and steps < 400:
        changed = False
        for key in ("seeds", "exits"):
            for v in list(cur.get(key, [])):
                c = json.loads(json.dumps(cur))
                c[key].remove(v)
                steps += 1
                if try_(c):
                    cur, changed = c, True
        # remove one op whose results are unused anywhere
        ops = flat_ops(cur)
        used = {v for _k, ins, _r, _p, _rm in ops for v in ins} | set(cur.get("seeds", [])) | set(cur.get("exits", []))
        gi = len(ops)
        for fi in reversed(range(len(cur["funcs"]))):
            f = cur["funcs"][fi]
            for oi in reversed(range(len(f["ops"]))):
                gi -= 1
                kind, ins, res, _p, _rm = ops[gi]
                if kind in TERMINATORS or any(r in used for r in res):
                    continue
                c = json.loads(json.dumps(cur))
                del c["funcs"][fi]["ops"][oi]
                k = len(res)
                if k:
                    lo = res[0]
                    ren = lambda v: v - k if v >= lo else v  # noqa: E731
                    for g in c["funcs"]:
                        for o in g["ops"]:
                            o[1] = [ren(v) for v in o[1]]
                    c["seeds"] = [ren(v) for v in c.get("seeds", [])]
                    c["exits"] = [ren(v) for v in c.get("exits", [])]
                steps += 1
                if try_(c):
                    cur, changed = c, True
                    break
            if changed:
                break
        # an unused trailing operand of a variadic op
        if not changed:
            for fi, f in enumerate(cur["funcs"]):
                for oi, o in enumerate(f["ops"]):
                    if KINDS[o[0]][0] is None and len(o[1]) > (1 if o[0] == "write" else 0):
                        c = json.loads(json.dumps(cur))
                        c["funcs"][fi]["ops"][oi][1].pop()
                        steps += 1
                        if try_(c):
                            cur, changed = c, True
                            break
                if changed:
                    break
    return cur


def evaluate(case: dict, runs: list[dict]) -> tuple[str, str, str, int] | None:
    """direct oracle on the implementation's observations: (call_site, signature, description, run index)"""
    ref = reference(case)
    for i, r in enumerate(runs):
        if r["err"]:
            return (SITE_SOLVER, "supported IR raises " + r["err"], f"solver raised {r['err']} on supported IR", i)
        if r["rest"]:
            return (SITE_SOLVER, "worklist not drained", "solver returned with a non-empty worklist", i)
    # second clause of the property: same result whatever the order
    for i, r in enumerate(runs[1:], 1):
        if r["bits"] != runs[0]["bits"]:
            return (SITE_SOLVER, "result depends on worklist order",
                    f"liveness {bits_str(r['bits'])} under schedule {r['picks']} vs {bits_str(runs[0]['bits'])} under "
                    f"the default order (reference {bits_str(ref)})", i)
    # first clause: exactly the specified set
    for i, r in enumerate(runs):
        if r["bits"] != ref:
            extra = [v for v, (a, b) in enumerate(zip(r["bits"], ref)) if a and not b]
            missing = [v for v, (a, b) in enumerate(zip(r["bits"], ref)) if b and not a]
            if missing:
                return (SITE_IMPL, "live value left dead",
                        f"values {missing} are used (through operand chains) by a non-removable op / boundary but were left dead", i)
            return (SITE_IMPL, "dead value marked live",
                    f"values {extra} are marked live although no operand chain leads to a non-removable op / boundary", i)
    return None


def fails_with(case: dict, picks: list[int] | None, order: str = "dca_first") -> bool:
    runs = [analyse(case)]
    if order != "dca_first":
        runs.append(analyse(case, order=order))
    if picks is not None:
        runs.append(analyse(case, lambda k, n, p=picks: p[k] if k < len(p) else 0, order=order))
    return evaluate(case, runs) is not None


class Batch:
    """model lines and expected outputs of many programs, flushed to the driver in one go"""

    def __init__(self, ctx: core.Ctx):
        self.ctx = ctx
        self.lines: list[str] = []
        self.expect: list[str] = []
        self.cases: list[tuple[int, int, dict]] = []

    def add(self, case: dict, base: dict, runs: list[dict], order: str = "dca_first") -> None:
        scheds = [r["picks"] for r in runs]
        lines = model_lines(case, base["descs"], scheds, order)
        # `wbd` line: the flags the model computed (`instWbd`) against the real would_be_trivially_dead per instance
        exp = ["ok"] * (len(lines) - len(scheds) - 1) + ["wbd=" + bits_str(base["wbd_model"])] + [obs_line(r) for r in runs]
        self.cases.append((len(self.lines), len(self.lines) + len(lines), case))
        self.lines += lines
        self.expect += exp
        if len(self.lines) > 150_000:
            self.flush()

    def flush(self) -> None:
        if not self.lines:
            return
        out = self.ctx.model("liveness", self.lines)
        i = core.diff_streams(self.expect, out)
        if i is not None:
            lo, hi, case = next(c for c in self.cases if c[0] <= i < c[1])
            self.ctx.mismatch("correspondence:C25/liveness",
                              {"program": case, "lines": self.lines[lo:hi], "line": self.lines[i],
                               "order": "live_first" if "post 0" in self.lines[lo:hi] else "dca_first"},
                              self.expect[lo:hi], out[lo:hi],
                              f"real solver `{self.expect[i]}` vs Lean model `{out[i]}` for `{self.lines[i]}`")
        self.lines, self.expect, self.cases = [], [], []


def check_program(ctx: core.Ctx, batch: Batch, case: dict, nsched: int, exhaustive_sched: bool = False,
                  verify: bool = False, second_order: bool = True, cap2: int = 400) -> None:
    kinds_used = {o[0] for f in case["funcs"] for o in f["ops"]}
    if kinds_used & NEEDS_PARENT:
        verify = False   # e.g. scf.yield outside an scf op: the analysis does not look at parents
        ctx.count("programs.not_verified.terminator_wants_other_parent")
    for k in sorted(kinds_used & set(PURE_TERMINATORS)):
        ctx.count("programs.closed_by_effect_free_terminator." + k)
    if kinds_used & {"malloc", "malloca", "dealloc"}:
        ctx.count("programs.with_alloc_or_free_only_ops")
    base = analyse(case, None, verify=verify)          # the solver exactly as shipped (deque, FIFO)
    if exhaustive_sched:
        runs, complete = all_schedules(case)
        if not complete:
            ctx.count("schedules.exploration_capped")
    else:
        runs = [analyse(case, lambda k, n: 0), analyse(case, lambda k, n: n - 1)]
        runs += [analyse(case, ch) for ch in random_choosers(ctx.rng, nsched)]
    fifo = runs[0]
    if fifo["picks"] and any(fifo["picks"]):
        raise core.InfraError("first schedule is not FIFO")
    if (base["bits"], base["err"]) != (fifo["bits"], fifo["err"]):
        raise core.InfraError("logging worklist in FIFO mode differs from the untouched deque: harness fault")
    # the other load order (LivenessAnalysis before DeadCodeAnalysis): the initial walk finds every block
    # non-executable, DeadCodeAnalysis.initialize then enqueues the ops of the entry block
    runs2: list[dict] = []
    if second_order and case["mode"] != "module":
        o2 = "live_first"
        base2 = analyse(case, None, order=o2)
        if exhaustive_sched:
            runs2, complete = all_schedules(case, cap=cap2, order=o2)
            if not complete:
                ctx.count("schedules.exploration_capped.live_first")
        else:
            runs2 = [analyse(case, lambda k, n: 0, order=o2), analyse(case, lambda k, n: n - 1, order=o2)]
            runs2 += [analyse(case, ch, order=o2) for ch in random_choosers(ctx.rng, max(4, nsched // 3))]
        if (base2["bits"], base2["err"]) != (runs2[0]["bits"], runs2[0]["err"]):
            raise core.InfraError("logging worklist in FIFO mode differs from the untouched deque: harness fault")
        ctx.count("programs.both_load_orders")
        ctx.count("schedules.live_first", len(runs2))
        if any(r["trace"] for r in runs2):
            ctx.count("programs.live_first.block_ops_enqueued")
    ctx.ev(len(runs) + len(runs2) + 1)
    ctx.count(f"programs.{case['mode']}")
    ctx.count("schedules", len(runs))
    ctx.count("pops", sum(len(r["picks"]) for r in runs + runs2))
    if max(r["max_wl"] or 0 for r in runs) >= 2:
        ctx.count("programs.worklist_held_2_or_more")
    if len({tuple(r["trace"]) for r in runs}) >= 2:
        ctx.count("programs.with_distinct_pop_orders")
    ref = reference(case)
    if any(ref) and not all(ref) and chain_depths(case, ref) >= 2:
        ctx.nt(json.dumps(case, sort_keys=True))
    design = [rm for _k, _i, _r, _p, rm in flat_ops(case)]
    if design != base["wbd"]:
        ctx.count("programs.design_flag_differs_from_would_be_trivially_dead")
    for o in same_class_orders(case):
        ctx.count("programs.same_class." + o)
    ctx.count("ops.flag_computed_by_model", sum(d.startswith("opi") for d in base["descs"]))
    ctx.count("ops.flag_from_real_function", sum(not d.startswith("opi") for d in base["descs"]))
    allruns = [base] + runs + runs2
    verdict = evaluate(case, allruns)
    if verdict is not None:
        site, sig, desc, ri = verdict
        picks = None if ri == 0 else allruns[ri]["picks"]
        order = allruns[ri]["order"]
        nfail = ctx.hist.get("failing_programs." + sig, 0)
        ctx.count("failing_programs." + sig)
        small = shrink_case(case, lambda c: fails_with(c, picks, order)) if nfail < 3 else case
        rs = [analyse(small)] + ([analyse(small, order=order)] if order != "dca_first" else []) + \
             ([analyse(small, lambda k, n, p=picks: p[k] if k < len(p) else 0, order=order)] if picks is not None else [])
        v2 = evaluate(small, rs) or verdict
        d_small = [rm for _k, _i, _r, _p, rm in flat_ops(small)]
        note = ("" if d_small == rs[0]["wbd"] else
                f"; would_be_trivially_dead itself answers {bits_str(rs[0]['wbd'])} per op, the op instances are "
                f"{bits_str(d_small)} removable by their traits/result types")
        v2 = (v2[0], v2[1], v2[2] + note, v2[3])
        ctx.fail(v2[0], v2[1], {"program": small, "schedule": picks, "order": order}, v2[2],
                 [obs_line(r) for r in rs], "live=" + bits_str(reference(small)))
    batch.add(case, base, runs)
    if runs2:
        batch.add(case, base, runs2, "live_first")


def unsupported_stream(ctx: core.Ctx, n: int) -> None:
    """IR the analysis documents as unsupported (outside the statement): only counted."""
    from xdsl.analysis.dataflow import DataFlowSolver
    from xdsl.analysis.dead_code_analysis import DeadCodeAnalysis
    from xdsl.analysis.liveness_analysis import LivenessAnalysis
    from xdsl.context import Context
    from xdsl.dialects import func, test
    from xdsl.dialects.builtin import ModuleOp, i32
    from xdsl.ir import Block, Region

    for t in range(n):
        b = Block(arg_types=[i32])
        if t % 2 == 0:
            bad = test.TestOp(operands=[b.args[0]], result_types=[i32], regions=[Region(Block())])
            b.add_ops([bad, func.ReturnOp(bad.results[0])])
            region = Region([b])
        else:
            b2 = Block()
            b2.add_op(func.ReturnOp())
            b.add_op(test.TestTermOp(operands=[b.args[0]], successors=[b2]))
            region = Region([b, b2])
        f = func.FuncOp("f", ([i32], [i32] if t % 2 == 0 else []), region)
        ModuleOp([f])
        solver = DataFlowSolver(Context())
        solver.load(DeadCodeAnalysis)
        solver.load(LivenessAnalysis)
        try:
            solver.initialize_and_run(f)
            ctx.count("unsupported.no_exception")
        except NotImplementedError:
            ctx.count("unsupported.NotImplementedError")
        except Exception as e:  # noqa: BLE001
            ctx.count("unsupported." + core.exc_name(e))


def run(ctx: core.Ctx) -> None:
    ctx.lean()
    quick = ctx.tier == "quick"
    batch = Batch(ctx)
    # 1. small scope: every program with ≤ 2 (quick) / ≤ 3 (thorough) ops, every schedule; a sample of the next size
    full = [1, 2] if quick else [1, 2, 3]
    for n in full:
        for case in small_scope(n):
            check_program(ctx, batch, case, 0, exhaustive_sched=True)
            ctx.count(f"small_scope.{n}")
    nxt = full[-1] + 1
    want = 2500 if quick else 40000
    total = (nxt + nxt + nxt * nxt) ** nxt * (nxt + 1)
    p_keep = min(1.0, want / total)
    for case in small_scope(nxt):
        if ctx.rng.random() < p_keep:
            if ctx.time_left() < 0.3 * ctx.budget_s:
                ctx.count(f"small_scope.{nxt}.truncated_by_budget")
                break
            # the second load order starts with all ops on the worklist (≥ (n+1)! pop orders): explore it
            # for one program in twelve, at most 48 orders
            check_program(ctx, batch, case, 0, exhaustive_sched=True, second_order=ctx.rng.random() < 0.08, cap2=48)
            ctx.count(f"small_scope.{nxt}.sampled")
    # 1b. one op class, removability per instance: every mix/order of removable and non-removable
    # test.allocatable ops with ≤ 3 ops, every schedule (second load order: all for ≤ 2 ops, a share for 3)
    for n in (1, 2, 3):
        for case in small_scope_inst(n):
            if ctx.time_left() < 0.25 * ctx.budget_s:
                ctx.count(f"small_scope_inst.{n}.truncated_by_budget")
                break
            check_program(ctx, batch, case, 0, exhaustive_sched=True,
                          second_order=n < 3 or ctx.rng.random() < (0.25 if quick else 1.0), cap2=48 if quick else 160)
            ctx.count(f"small_scope_inst.{n}")
        for case in small_scope_inst_func(n):
            check_program(ctx, batch, case, 0, exhaustive_sched=True, cap2=48 if quick else 160)
            ctx.count(f"small_scope_inst_func.{n}")
    # 1c. one declared effect kind per op (none / READ / ALLOC without value / FREE) x every terminator kind
    # (unknown effects / declared effect-free), ≤ 2 (thorough 3) ops before the terminator, every schedule
    for n in ((0, 1, 2) if quick else (0, 1, 2, 3)):
        for case in small_scope_eff(n):
            if ctx.time_left() < 0.25 * ctx.budget_s:
                ctx.count(f"small_scope_eff.{n}.truncated_by_budget")
                break
            check_program(ctx, batch, case, 0, exhaustive_sched=True, cap2=24 if quick else 120)
            ctx.count(f"small_scope_eff.{n}")
    ctx.exhaustive = True
    ctx.extra["exhaustive_scope"] = (
        f"all graph-mode programs with {full} single-result ops over {{pure x, pure x y, test x}} with operands "
        "among all values (forward/self references included), with no or one exit value, each under every worklist "
        f"order of the real solver; a random sample of those with {nxt} ops; all graph-mode programs with ≤ 3 "
        "one-operand test.allocatable ops whose result register is unallocated (removable instance) or allocated "
        "(non-removable instance), same operand/exit choices, every worklist order, and the same ≤ 3 ops in a "
        "function body (operands among two block arguments and earlier results); all public function bodies with "
        "≤ 2 (thorough ≤ 3) ops over {test.pureop, test.op_with_memread, memref.alloc, memref.alloca, memref.dealloc} "
        "(declared effects: none / READ / ALLOC naming no value / FREE) closed by each of func.return, affine.yield, "
        "llvm.return, scf.yield (the last three declare no memory effect) with no or one operand; random programs beyond")
    # 2. random programs: untouched deque + FIFO + LIFO + ≥ 20 random schedules each
    nsched = 20 if quick else 24
    plan = [("func", 12, 120), ("module", 10, 100), ("module_dca", 8, 60), ("graph", 10, 400), ("graph", 30, 80)] if quick else \
           [("func", 16, 2500), ("module", 12, 2000), ("module_dca", 10, 800), ("graph", 10, 8000), ("graph", 40, 1500),
            ("func", 60, 200)]
    first = True
    for mode, size, count in plan:
        for _ in range(count):
            if ctx.time_left() < 0.12 * ctx.budget_s:
                ctx.count("random.truncated_by_budget")
                break
            case = gen_case(ctx.rng, mode, size)
            check_program(ctx, batch, case, nsched, verify=True)
            if first or (mode == "graph" and len(ctx.samples) < 3):
                r = analyse(case, lambda k, n: n - 1)
                ctx.sample({"program": case, "reference": bits_str(reference(case)), "lifo": obs_line(r)})
                first = False
    batch.flush()
    unsupported_stream(ctx, 6)


def replay(ctx: core.Ctx, body: dict) -> int:
    c = body["case"]
    case = c["program"]
    picks = c.get("schedule")
    order = c.get("order", "dca_first")
    if picks is None and str(c.get("line", "")).startswith("solve"):
        picks = [int(x) for x in c["line"].split()[1:]]
    base = analyse(case, order=order)                      # untouched deque
    scheds: list[list[int]] = [[]] + ([list(picks)] if picks else [])
    logged = [analyse(case, lambda k, n, p=sc: p[k] if k < len(p) else 0, order=order) for sc in scheds]
    mlines = model_lines(case, base["descs"], scheds, order)
    mout = ctx.model("liveness", mlines)
    model = mout[-len(scheds):]
    flags = mout[-len(scheds) - 1]
    impl = [obs_line(r) for r in logged]
    print("program        :", json.dumps(case))
    print("load order     :", order, "(DeadCodeAnalysis before / after LivenessAnalysis)")
    print("schedules      :", scheds, "(positions popped; [] = FIFO)")
    print("untouched deque: live=" + bits_str(base["bits"]) + (f" raise {base['err']}" if base["err"] else ""))
    print("implementation :", impl)
    print("lean model     :", model)
    print("reference      : live=" + bits_str(reference(case)))
    design = [rm for _k, _i, _r, _p, rm in flat_ops(case)]
    print("removable/op   : design " + bits_str(design) + "  would_be_trivially_dead " + bits_str(base["wbd"])
          + "  (per op instance, program order)")
    print("model op list  : lean " + flags + "  would_be_trivially_dead wbd=" + bits_str(base["wbd_model"]))
    verdict = evaluate(case, ([analyse(case)] if order != "dca_first" else []) + [base] + logged)
    print("property", "FAILS: " + verdict[2] if verdict else "holds", "on this case")
    bad = impl != model or flags != "wbd=" + bits_str(base["wbd_model"])
    if bad:
        print("correspondence : real code and Lean model DIFFER on this case")
    return 1 if (verdict or bad) else 0
