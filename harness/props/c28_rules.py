"""C28 — library of *sound* PDL rewrite rules (templated on the element type) for the eqsat pipelines.

Every rule is an identity of MLIR `arith` semantics at the given type (wrapping integers; IEEE floats
with NaN payloads identified), or — marked `refinement` — an identity on every input on which the
source program has defined behaviour (`x /u x -> 1` where `x = 0` is UB in the source).  The shapes
come from the corpus: `x * 0 -> 0`, `x - x -> 0` (tests/filecheck/transforms/apply-eqsat-pdl-interp/
extra_file.mlir), `x * 1 -> x`, `x / x -> 1` (egg_example.mlir), `x + 0 -> x`
(apply-pdl/apply_pdl_add_zero.mlir), operand swap (apply-pdl/apply_pdl_swap_inputs.mlir); the corpus
rules pin the attribute type to i32 while leaving `pdl.type` open, here both are the same type `T`.
`CREATES_CONSTANT` lists the rules whose right-hand side builds an `arith.constant` (a fresh
`equivalence.const_class` when the constant does not occur in the function).
The corpus rule `(x * y) / z -> x * (y / z)` is NOT an integer identity and is only used by the
detection-power self-test (`UNSOUND`).
"""
from __future__ import annotations

def const_pat(name, val, T):
    return (f'  %{name}_a = pdl.attribute = {val} : {T}\n'
            f'  %{name}_op = pdl.operation "arith.constant" {{"value" = %{name}_a}} -> (%type : !pdl.type)\n'
            f'  %{name} = pdl.result 0 of %{name}_op\n')

def r_identity_right(op, val, T):
    # x op val -> x
    return ("pdl.pattern : benefit(1) {\n  %x = pdl.operand\n" + f"  %type = pdl.type : {T}\n" + const_pat("c", val, T) +
            f'  %root = pdl.operation "arith.{op}" (%x, %c : !pdl.value, !pdl.value) -> (%type : !pdl.type)\n'
            "  pdl.rewrite %root {\n    pdl.replace %root with (%x : !pdl.value)\n  }\n}\n")

def r_absorb_right(op, val, T):
    # x op val -> val (the matched constant)
    return ("pdl.pattern : benefit(1) {\n  %x = pdl.operand\n" + f"  %type = pdl.type : {T}\n" + const_pat("c", val, T) +
            f'  %root = pdl.operation "arith.{op}" (%x, %c : !pdl.value, !pdl.value) -> (%type : !pdl.type)\n'
            "  pdl.rewrite %root {\n    pdl.replace %root with %c_op\n  }\n}\n")

def r_comm(op, T):
    return ("pdl.pattern : benefit(1) {\n  %x = pdl.operand\n  %y = pdl.operand\n" + f"  %type = pdl.type : {T}\n"
            f'  %root = pdl.operation "arith.{op}" (%x, %y : !pdl.value, !pdl.value) -> (%type : !pdl.type)\n'
            "  pdl.rewrite %root {\n"
            f'    %new = pdl.operation "arith.{op}" (%y, %x : !pdl.value, !pdl.value) -> (%type : !pdl.type)\n'
            "    pdl.replace %root with %new\n  }\n}\n")

def r_self_to_const(op, val, T):
    # x op x -> val
    return ("pdl.pattern : benefit(1) {\n  %x = pdl.operand\n" + f"  %type = pdl.type : {T}\n"
            f'  %root = pdl.operation "arith.{op}" (%x, %x : !pdl.value, !pdl.value) -> (%type : !pdl.type)\n'
            "  pdl.rewrite %root {\n"
            f'    %v = pdl.attribute = {val} : {T}\n'
            f'    %new = pdl.operation "arith.constant" {{"value" = %v}} -> (%type : !pdl.type)\n'
            "    pdl.replace %root with %new\n  }\n}\n")

def r_self_to_self(op, T):
    # x op x -> x
    return ("pdl.pattern : benefit(1) {\n  %x = pdl.operand\n" + f"  %type = pdl.type : {T}\n"
            f'  %root = pdl.operation "arith.{op}" (%x, %x : !pdl.value, !pdl.value) -> (%type : !pdl.type)\n'
            "  pdl.rewrite %root {\n    pdl.replace %root with (%x : !pdl.value)\n  }\n}\n")

def r_const_to_binop(op, val, op2, val2, T):
    # x op val -> x op2 val2
    return ("pdl.pattern : benefit(1) {\n  %x = pdl.operand\n" + f"  %type = pdl.type : {T}\n" + const_pat("c", val, T) +
            f'  %root = pdl.operation "arith.{op}" (%x, %c : !pdl.value, !pdl.value) -> (%type : !pdl.type)\n'
            "  pdl.rewrite %root {\n"
            f'    %v = pdl.attribute = {val2} : {T}\n'
            f'    %k = pdl.operation "arith.constant" {{"value" = %v}} -> (%type : !pdl.type)\n'
            '    %kr = pdl.result 0 of %k\n'
            f'    %new = pdl.operation "arith.{op2}" (%x, %kr : !pdl.value, !pdl.value) -> (%type : !pdl.type)\n'
            "    pdl.replace %root with %new\n  }\n}\n")

def r_self_to_binop(op, op2, val2, T):
    # x op x -> x op2 val2
    return ("pdl.pattern : benefit(1) {\n  %x = pdl.operand\n" + f"  %type = pdl.type : {T}\n"
            f'  %root = pdl.operation "arith.{op}" (%x, %x : !pdl.value, !pdl.value) -> (%type : !pdl.type)\n'
            "  pdl.rewrite %root {\n"
            f'    %v = pdl.attribute = {val2} : {T}\n'
            f'    %k = pdl.operation "arith.constant" {{"value" = %v}} -> (%type : !pdl.type)\n'
            '    %kr = pdl.result 0 of %k\n'
            f'    %new = pdl.operation "arith.{op2}" (%x, %kr : !pdl.value, !pdl.value) -> (%type : !pdl.type)\n'
            "    pdl.replace %root with %new\n  }\n}\n")

def r_assoc(op, T):
    # (x op y) op z -> x op (y op z)
    return ("pdl.pattern : benefit(1) {\n  %x = pdl.operand\n  %y = pdl.operand\n  %z = pdl.operand\n" + f"  %type = pdl.type : {T}\n"
            f'  %in = pdl.operation "arith.{op}" (%x, %y : !pdl.value, !pdl.value) -> (%type : !pdl.type)\n'
            '  %inr = pdl.result 0 of %in\n'
            f'  %root = pdl.operation "arith.{op}" (%inr, %z : !pdl.value, !pdl.value) -> (%type : !pdl.type)\n'
            "  pdl.rewrite %root {\n"
            f'    %n1 = pdl.operation "arith.{op}" (%y, %z : !pdl.value, !pdl.value) -> (%type : !pdl.type)\n'
            '    %n1r = pdl.result 0 of %n1\n'
            f'    %new = pdl.operation "arith.{op}" (%x, %n1r : !pdl.value, !pdl.value) -> (%type : !pdl.type)\n'
            "    pdl.replace %root with %new\n  }\n}\n")

def r_distrib(T):
    # x*y + x*z -> x*(y+z)
    return ("pdl.pattern : benefit(1) {\n  %x = pdl.operand\n  %y = pdl.operand\n  %z = pdl.operand\n" + f"  %type = pdl.type : {T}\n"
            '  %m1 = pdl.operation "arith.muli" (%x, %y : !pdl.value, !pdl.value) -> (%type : !pdl.type)\n'
            '  %m1r = pdl.result 0 of %m1\n'
            '  %m2 = pdl.operation "arith.muli" (%x, %z : !pdl.value, !pdl.value) -> (%type : !pdl.type)\n'
            '  %m2r = pdl.result 0 of %m2\n'
            '  %root = pdl.operation "arith.addi" (%m1r, %m2r : !pdl.value, !pdl.value) -> (%type : !pdl.type)\n'
            "  pdl.rewrite %root {\n"
            '    %n1 = pdl.operation "arith.addi" (%y, %z : !pdl.value, !pdl.value) -> (%type : !pdl.type)\n'
            '    %n1r = pdl.result 0 of %n1\n'
            '    %new = pdl.operation "arith.muli" (%x, %n1r : !pdl.value, !pdl.value) -> (%type : !pdl.type)\n'
            "    pdl.replace %root with %new\n  }\n}\n")

def int_rules(T):
    w = 64 if T == "index" else int(T[1:])
    R = {}
    R["add0"] = r_identity_right("addi", 0, T)
    R["sub0"] = r_identity_right("subi", 0, T)
    R["or0"] = r_identity_right("ori", 0, T)
    R["xor0"] = r_identity_right("xori", 0, T)
    R["shl0"] = r_identity_right("shli", 0, T)
    R["and_m1"] = r_identity_right("andi", -1, T)
    R["mul0"] = r_absorb_right("muli", 0, T)
    R["and0"] = r_absorb_right("andi", 0, T)
    R["subxx"] = r_self_to_const("subi", 0, T)
    R["xorxx"] = r_self_to_const("xori", 0, T)
    R["andxx"] = r_self_to_self("andi", T)
    R["orxx"] = r_self_to_self("ori", T)
    for op in ("addi", "muli", "andi", "ori", "xori"):
        R["comm_" + op] = r_comm(op, T)
    if w > 1:
        R["mul1"] = r_identity_right("muli", 1, T)
        R["divui1"] = r_identity_right("divui", 1, T)
    if w > 2:
        R["mul2shl"] = r_const_to_binop("muli", 2, "shli", 1, T)
        R["shl1mul"] = r_const_to_binop("shli", 1, "muli", 2, T)
        R["addxx"] = r_self_to_binop("addi", "muli", 2, T)
        R["divuixx"] = r_self_to_const("divui", 1, T)   # refinement: x = 0 is UB in the source
        R["divsixx"] = r_self_to_const("divsi", 1, T)   # refinement: x = 0 is UB in the source (min / min = 1)
    # rules whose right-hand side CREATES a constant that need not occur in the source
    R["remuixx"] = r_self_to_const("remui", 0, T)       # refinement: x = 0 is UB in the source
    R["remsixx"] = r_self_to_const("remsi", 0, T)       # refinement: x = 0 is UB in the source
    R["assoc_addi"] = r_assoc("addi", T)
    R["assoc_muli"] = r_assoc("muli", T)
    R["distrib"] = r_distrib(T)
    return R

def float_rules(T):
    R = {}
    for op in ("addf", "mulf", "minimumf", "maximumf"):
        R["comm_" + op] = r_comm(op, T)
    R["mulf1"] = r_identity_right("mulf", "1.0", T)
    R["minxx"] = r_self_to_self("minimumf", T)
    R["maxxx"] = r_self_to_self("maximumf", T)
    return R


# rule name -> (root op of the redex `x op x`, constant created)
CREATES_CONSTANT = {"subxx": ("subi", 0), "xorxx": ("xori", 0), "remuixx": ("remui", 0), "remsixx": ("remsi", 0),
                    "divuixx": ("divui", 1), "divsixx": ("divsi", 1), "addxx": ("addi", 2)}


def unsound_rules(T: str) -> dict[str, str]:
    # (x * y) /u z -> x * (y /u z): corpus rule (egg_example.mlir), not an integer identity
    return {"muldiv_assoc": (
        "pdl.pattern : benefit(1) {\n  %x = pdl.operand\n  %y = pdl.operand\n  %z = pdl.operand\n" + f"  %type = pdl.type : {T}\n"
        '  %in = pdl.operation "arith.muli" (%x, %y : !pdl.value, !pdl.value) -> (%type : !pdl.type)\n'
        '  %inr = pdl.result 0 of %in\n'
        '  %root = pdl.operation "arith.divui" (%inr, %z : !pdl.value, !pdl.value) -> (%type : !pdl.type)\n'
        "  pdl.rewrite %root {\n"
        '    %n1 = pdl.operation "arith.divui" (%y, %z : !pdl.value, !pdl.value) -> (%type : !pdl.type)\n'
        '    %n1r = pdl.result 0 of %n1\n'
        '    %new = pdl.operation "arith.muli" (%x, %n1r : !pdl.value, !pdl.value) -> (%type : !pdl.type)\n'
        "    pdl.replace %root with %new\n  }\n}\n")}


def rules_for(T: str) -> dict[str, str]:
    return float_rules(T) if T[0] == "f" else int_rules(T)
