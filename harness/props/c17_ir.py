"""C17 helpers: contexts, the pass space, the pointer-level snapshot of a real module (for the Lean
checker `ir_wf`), the independent Python invariant walk, print/parse round trips, the CPU-time guard,
and the per-pair evaluation that runs inside worker processes."""
from __future__ import annotations

import contextlib
import dataclasses
import io
import os
import re
import signal
import sys
import typing
import warnings
from collections import deque
from typing import Any

from vp import core

CLAUSES = ["op-list", "block-list", "region-list", "use-list", "block-use-list", "result-index", "arg-index",
           "root", "erased-value-in-use", "dangling-successor"]
PARENT_LINK = {"op-list", "block-list", "region-list", "root"}
# which failing clause names the finding when several fail: the clauses of C17 proper first (broken lists
# inside erased objects that are still referenced are their consequence)
PRIORITY = ["erased-value-in-use", "dangling-successor", "root", "op-list", "block-list", "region-list",
            "use-list", "block-use-list", "result-index", "arg-index"]


# ---------------------------------------------------------------------------------------------
# contexts and parsing (as xdsl-opt does: every dialect registered, unregistered ops allowed)
# ---------------------------------------------------------------------------------------------

def fresh_context():
    from xdsl.context import Context
    from xdsl.dialects import get_all_dialects

    c = Context(allow_unregistered=True)
    for n, f in get_all_dialects().items():
        c.register_dialect(n, f)
    return c


def parse_module(text: str):
    from xdsl.parser import Parser

    return Parser(fresh_context(), text).parse_module()


class CpuTimeout(BaseException):
    """raised by the ITIMER_VIRTUAL guard (BaseException: `except Exception` in a pass cannot swallow it)"""


def _on_vtalrm(signum, frame):  # noqa: ANN001
    raise CpuTimeout()


@contextlib.contextmanager
def cpu_guard(seconds: float):
    old = signal.signal(signal.SIGVTALRM, _on_vtalrm)
    signal.setitimer(signal.ITIMER_VIRTUAL, seconds)
    try:
        yield
    finally:
        signal.setitimer(signal.ITIMER_VIRTUAL, 0)
        signal.signal(signal.SIGVTALRM, old)


@contextlib.contextmanager
def quiet():
    """passes may print (debug output, serialised e-graphs) and warn"""
    out, err = sys.stdout, sys.stderr
    sys.stdout, sys.stderr = io.StringIO(), io.StringIO()
    try:
        with warnings.catch_warnings():
            warnings.simplefilter("ignore")
            yield
    finally:
        sys.stdout, sys.stderr = out, err


# ---------------------------------------------------------------------------------------------
# the pass space
# ---------------------------------------------------------------------------------------------

def all_passes() -> dict[str, type]:
    from xdsl.transforms import get_all_passes

    return {n: f() for n, f in sorted(get_all_passes().items())}


def pass_call_site(cls: type) -> str:
    return f"{cls.__module__}.{cls.__qualname__}.apply"


def _strip_optional(t: Any) -> tuple[Any, bool]:
    args = typing.get_args(t)
    if args and type(None) in args:
        rest = [a for a in args if a is not type(None)]
        if len(rest) == 1:
            return rest[0], True
    return t, False


def option_values(ftype: Any, rng) -> list[Any] | None:
    """a few values of a simple option type; None if the type is not simple"""
    if isinstance(ftype, str):
        ftype = {"int": int, "int | None": typing.Optional[int], "bool": bool, "str": str}.get(ftype, ftype)
        if isinstance(ftype, str):
            return None
    t, opt = _strip_optional(ftype)
    vals: list[Any] | None
    if t is bool:
        vals = [True, False]
    elif t is int:
        vals = [0, 1, 2, 3, 4, 8, rng.choice([5, 7, 16, 64])]
    elif typing.get_origin(t) is typing.Literal:
        vals = list(typing.get_args(t))
    elif typing.get_origin(t) is tuple and typing.get_args(t) == (int, Ellipsis):
        vals = [(1,), (2,), (2, 2), (4, 4), (1, 2, 3), (rng.choice([1, 2, 4, 8]), rng.choice([1, 2, 4]))]
    else:
        return None
    if opt:
        vals = [None, *vals]
    return vals


# string-typed options whose values are a closed vocabulary in the source
STR_OPTIONS = {
    ("convert-ptr-to-x86", "arch"): ["avx2", "avx512"],
    ("convert-vector-to-x86", "arch"): ["avx2", "avx512"],
    ("convert-func-to-x86-func", "arch"): [None, "avx2", "avx512"],
    ("x86-regalloc-legalize", "arch"): [None, "avx2", "avx512"],
    ("convert-scf-to-x86-scf", "arch"): ["unknown", "avx2", "avx512"],
    ("distribute-stencil", "strategy"): ["2d-grid", "3d-grid"],
    ("riscv-allocate-registers", "allocation_strategy"): ["LivenessBlockNaive"],
}
# options that name files / executables / entry points: only the default is meaningful here
SKIP_OPTIONS = {"pdl_file", "pdl_interp_file", "cost_file", "executable", "arguments", "entry_point",
                "operation_name", "pattern_name", "matched_operation_index", "print_debug_info"}


def option_assignments(name: str, cls: type, rng, n: int) -> list[dict[str, Any]]:
    """up to n generated option assignments (each a dict of non-default fields) for a pass"""
    space: dict[str, list[Any]] = {}
    required: list[str] = []
    for f in dataclasses.fields(cls):
        if f.name in SKIP_OPTIONS:
            if f.default is dataclasses.MISSING and f.default_factory is dataclasses.MISSING:
                return []
            continue
        vals = STR_OPTIONS.get((name, f.name))
        if vals is None:
            vals = option_values(f.type, rng)
        if f.default is dataclasses.MISSING and f.default_factory is dataclasses.MISSING:
            required.append(f.name)
            if vals is None:
                return []
        if vals is not None:
            space[f.name] = vals
    if not space:
        return []
    out: list[dict[str, Any]] = []
    seen: set[str] = set()
    for _ in range(n * 4):
        if len(out) >= n:
            break
        a: dict[str, Any] = {}
        for k, vals in space.items():
            if k in required or rng.random() < 0.6:
                a[k] = rng.choice(vals)
        key = repr(sorted(a.items(), key=lambda kv: kv[0]))
        if not a or key in seen:
            continue
        seen.add(key)
        out.append(a)
    return out


def jsonable_options(a: dict[str, Any]) -> dict[str, Any]:
    return {k: (list(v) if isinstance(v, tuple) else v) for k, v in a.items()}


def build_pass(cls: type, options: dict[str, Any]):
    kw = {}
    for f in dataclasses.fields(cls):
        if f.name in options:
            v = options[f.name]
            kw[f.name] = tuple(v) if isinstance(v, list) else v
    return cls(**kw)


# ---------------------------------------------------------------------------------------------
# universe: every object reachable from the module through any pointer field (the owner of a value
# is only *named*: following it would pull erased operations into the snapshot)
# ---------------------------------------------------------------------------------------------

class Universe:
    def __init__(self, module: Any):
        from xdsl.ir import Block, Operation, Region, SSAValue, Use

        self.ids: dict[str, dict[int, int]] = {k: {} for k in "obrvu"}
        self.objs: dict[str, list[Any]] = {k: [] for k in "obrvu"}   # objects with a full record, in discovery order
        self.inU: set[int] = set()
        self.keep: list[Any] = []  # keep every named object alive so that id() stays unique
        self.module = module
        work: deque[Any] = deque([module])

        def push(x: Any) -> None:
            if x is not None and id(x) not in self.inU:
                self.inU.add(id(x))
                work.append(x)

        self.inU.add(id(module))
        while work:
            x = work.popleft()
            if isinstance(x, Operation):
                self._reg("o", x)
                for y in (x.parent, x._next_op, x._prev_op, *x._operands, *x._operand_uses, *x.results,
                          *x._successors, *x._successor_uses, *x.regions):
                    push(y)
            elif isinstance(x, Block):
                self._reg("b", x)
                for y in (x.parent, x._next_block, x._prev_block, x._first_op, x._last_op, *x._args, x.first_use):
                    push(y)
            elif isinstance(x, Region):
                self._reg("r", x)
                for y in (x.parent, x._first_block, x._last_block):
                    push(y)
            elif isinstance(x, SSAValue):
                self._reg("v", x)
                push(x.first_use)
            elif isinstance(x, Use):
                self._reg("u", x)
                for y in (x._operation, x._next_use, x._prev_use):
                    push(y)
            else:  # a foreign object in a pointer field: gets a value id, no record
                pass

    def _reg(self, kind: str, x: Any) -> None:
        self.name(kind, x)
        self.objs[kind].append(x)

    def name(self, kind: str, x: Any) -> int:
        d = self.ids[kind]
        k = d.get(id(x))
        if k is None:
            k = d[id(x)] = len(d)
            self.keep.append(x)
        return k

    def has(self, x: Any) -> bool:
        return id(x) in self.inU

    def size(self) -> int:
        return sum(len(v) for v in self.objs.values())


def _chain(first: Any, step: str) -> tuple[list[Any], bool]:
    """follow `step` pointers from `first`; (nodes, terminated-without-revisit)"""
    out: list[Any] = []
    seen: set[int] = set()
    x = first
    while x is not None:
        if id(x) in seen:
            return out, False
        seen.add(id(x))
        out.append(x)
        x = getattr(x, step)
    return out, True


# ---------------------------------------------------------------------------------------------
# serialisation for the Lean model `ir_wf` (one record per object of the universe)
# ---------------------------------------------------------------------------------------------

def snapshot_lines(U: Universe) -> list[str]:
    from xdsl.ir import BlockArgument, ErasedSSAValue, OpResult

    def o(x: Any, kind: str) -> str:
        return "-" if x is None else str(U.name(kind, x))

    def l(xs: Any, kind: str) -> str:
        xs = list(xs)
        return ",".join(str(U.name(kind, x)) for x in xs) if xs else "-"

    lines = ["reset"]
    # ghost fields of the use lists (Python keeps neither a `last` pointer nor the owner in a Use)
    uparent: dict[int, tuple[str, int]] = {}
    ulast: dict[int, Any] = {}
    ukind: dict[int, str] = {}
    for kind, objs in (("v", U.objs["v"]), ("b", U.objs["b"])):
        for x in objs:
            ch, _ = _chain(x.first_use, "_next_use")
            ulast[id(x)] = ch[-1] if ch else None
            for u in ch:
                uparent.setdefault(id(u), (kind, U.name(kind, x)))
                ukind.setdefault(id(u), kind)
    for op in U.objs["o"]:
        for u in op._operand_uses:
            ukind.setdefault(id(u), "v")
        for u in op._successor_uses:
            ukind.setdefault(id(u), "b")
    for op in U.objs["o"]:
        lines.append(" ".join(["o", o(op, "o"), o(op.parent, "b"), o(op._next_op, "o"), o(op._prev_op, "o"),
                               l(op._operands, "v"), l(op._operand_uses, "u"), l(op.results, "v"),
                               l(op._successors, "b"), l(op._successor_uses, "u"), l(op.regions, "r")]))
    for b in U.objs["b"]:
        lines.append(" ".join(["b", o(b, "b"), o(b.parent, "r"), o(b._next_block, "b"), o(b._prev_block, "b"),
                               o(b._first_op, "o"), o(b._last_op, "o"), l(b._args, "v"),
                               o(b.first_use, "u"), o(ulast[id(b)], "u")]))
    for r in U.objs["r"]:
        lines.append(" ".join(["r", o(r, "r"), o(r.parent, "o"), o(r._first_block, "b"), o(r._last_block, "b")]))
    for v in U.objs["v"]:
        if isinstance(v, OpResult):
            k, owner, idx = "r", U.name("o", v.op), v.index
        elif isinstance(v, BlockArgument):
            k, owner, idx = "a", U.name("b", v.block), v.index
        elif isinstance(v, ErasedSSAValue):
            k, owner, idx = "e", U.name("v", v.old_value), 0
        else:
            k, owner, idx = "e", 0, 0
        if not isinstance(idx, int) or idx < 0:
            k, idx = "e", 0
        lines.append(" ".join(["v", o(v, "v"), k, str(owner), str(idx), o(v.first_use, "u"), o(ulast[id(v)], "u")]))
    for u in U.objs["u"]:
        kind = ukind.get(id(u), "v")
        par = uparent.get(id(u))
        idx = u._index if isinstance(u._index, int) and u._index >= 0 else 10 ** 9
        lines.append(" ".join(["u", kind, o(u, "u"), o(u._operation, "o"), str(idx), o(u._next_use, "u"),
                               o(u._prev_use, "u"), "-" if par is None or par[0] != kind else str(par[1])]))
    lines.append(f"check {U.name('o', U.module)}")
    return lines


# ---------------------------------------------------------------------------------------------
# the independent invariant walk over the real objects (written from the property's sentence and the
# C01 sentence; multiset / identity based, never looks at the serialisation)
# ---------------------------------------------------------------------------------------------

def py_walk(U: Universe) -> tuple[list[str], dict[str, str]]:
    """(failing clause names in CLAUSES order, clause → first detail incl. the op kind involved)"""
    from xdsl.ir import Block, BlockArgument, Operation, OpResult, Region

    bad: dict[str, str] = {}
    root = U.module

    def flag(clause: str, opname: str, detail: str) -> None:
        bad.setdefault(clause, f"{opname}|{detail}")

    def nm(x: Any) -> str:
        if isinstance(x, Operation):
            return x.name
        if isinstance(x, Block):
            return "block"
        if isinstance(x, Region):
            return "region"
        return type(x).__name__

    def owner_name(c: Any) -> str:
        """kind of the operation that (transitively) holds the container"""
        x, n = c, 0
        while x is not None and not isinstance(x, Operation) and n < 8:
            x, n = getattr(x, "parent", None), n + 1
        return x.name if isinstance(x, Operation) else nm(c)

    def containers(clause: str, conts: list[Any], members: list[Any], first: str, last: str, nxt: str, prv: str) -> None:
        where: dict[int, Any] = {}
        for c in conts:
            fwd, t1 = _chain(getattr(c, first), nxt)
            bwd, t2 = _chain(getattr(c, last), prv)
            if not (t1 and t2):
                flag(clause, owner_name(c), "list does not terminate")
                continue
            if [id(x) for x in fwd] != [id(x) for x in reversed(bwd)]:
                flag(clause, owner_name(c), "forward traversal is not the reverse of the backward traversal")
            for x in fwd:
                if id(x) in where:
                    flag(clause, owner_name(c), f"{nm(x)} found in two containers")
                where[id(x)] = c
                if x.parent is not c:
                    flag(clause, nm(x) if isinstance(x, Operation) else owner_name(c),
                         f"{nm(x)} is in the list of a container that is not its parent")
        for x in members:
            if x.parent is None:
                if getattr(x, nxt) is not None or getattr(x, prv) is not None:
                    flag(clause, nm(x), "no parent but still linked to siblings")
            elif where.get(id(x)) is not x.parent:
                flag(clause, nm(x) if isinstance(x, Operation) else owner_name(x.parent),
                     f"{nm(x)} names a parent whose list does not contain it")

    ops, blocks, regions, values, uses = (U.objs[k] for k in "obrvu")
    containers("op-list", blocks, ops, "_first_op", "_last_op", "_next_op", "_prev_op")
    containers("block-list", regions, blocks, "_first_block", "_last_block", "_next_block", "_prev_block")
    for op in ops:
        if len({id(r) for r in op.regions}) != len(op.regions):
            flag("region-list", op.name, "a region is listed twice")
        for r in op.regions:
            if r.parent is not op:
                flag("region-list", op.name, "a region of the operation names another parent")
    for r in regions:
        if r.parent is not None and not any(x is r for x in r.parent.regions):
            flag("region-list", nm(r.parent), "region names a parent that does not list it")

    # use lists = exactly the operand / successor positions
    for clause, holders, pos, uid in (
        ("use-list", values, "_operands", "_operand_uses"),
        ("block-use-list", blocks, "_successors", "_successor_uses"),
    ):
        inchain: dict[int, Any] = {}
        for x in holders:
            ch, term = _chain(x.first_use, "_next_use")
            hname = nm(x.owner) if clause == "use-list" and hasattr(x, "owner") else "block"
            if not term:
                flag(clause, hname, "use list does not terminate")
                continue
            prev = None
            for u in ch:
                if u._prev_use is not prev:
                    flag(clause, nm(u._operation), "_prev_use does not point to the previous use")
                prev = u
                if id(u) in inchain:
                    flag(clause, nm(u._operation), "one Use object in two use lists")
                    continue
                inchain[id(u)] = x
                user, i = u._operation, u._index
                hold = getattr(user, uid, ())
                if not (isinstance(i, int) and 0 <= i < len(hold) and hold[i] is u
                        and i < len(getattr(user, pos)) and getattr(user, pos)[i] is x):
                    flag(clause, nm(user), f"use list holds (user, {i}) but that position does not hold the value")
        for op in ops:
            ps, us = getattr(op, pos), getattr(op, uid)
            if len(ps) != len(us):
                flag(clause, op.name, f"{len(ps)} positions but {len(us)} Use objects")
            for i, (p, u) in enumerate(zip(ps, us)):
                if u._operation is not op or u._index != i:
                    flag(clause, op.name, f"Use object of position {i} says ({nm(u._operation)}, {u._index})")
                if inchain.get(id(u)) is not p:
                    flag(clause, op.name, f"position {i} is missing from the use list of what it holds")
        kind = "v" if clause == "use-list" else "b"
        for u in uses:
            if id(u) not in inchain and _use_kind(u, ops) == kind and (u._next_use is not None or u._prev_use is not None):
                flag(clause, nm(u._operation), "a Use outside every use list is still linked")

    for op in ops:
        for i, r in enumerate(op.results):
            if not isinstance(r, OpResult) or r.op is not op or r.index != i:
                flag("result-index", op.name, f"result {i} has owner/index {nm(getattr(r, 'op', None))}/{getattr(r, 'index', None)}")
    for b in blocks:
        for i, a in enumerate(b._args):
            if not isinstance(a, BlockArgument) or a.block is not b or a.index != i:
                flag("arg-index", owner_name(b), f"argument {i} has index {getattr(a, 'index', None)} or another owner")

    # C17 proper
    if root.parent is not None:
        flag("root", root.name, "the module has a parent")
    memo: dict[int, bool] = {}

    def attached(x: Any) -> bool:
        if not U.has(x):
            return False
        path, y = [], x
        while True:
            if id(y) in memo:
                res = memo[id(y)]
                break
            if y is root:
                res = True
                break
            path.append(y)
            p = getattr(y, "parent", None)
            if p is None or len(path) > 3 * U.size() + 3:
                res = False
                break
            y = p
        for z in path:
            memo[id(z)] = res
        return res

    for op in ops:
        if not attached(op):
            continue
        for i, v in enumerate(op._operands):
            if isinstance(v, OpResult):
                ok = attached(v.op) and 0 <= v.index < len(v.op.results) and v.op.results[v.index] is v
                what = f"result of {nm(v.op)} which is not attached below the module (erased or never inserted)"
            elif isinstance(v, BlockArgument):
                ok = attached(v.block) and 0 <= v.index < len(v.block._args) and v.block._args[v.index] is v
                what = "argument of a block that is not attached below the module, or no longer an argument of it"
            else:
                ok, what = False, f"{type(v).__name__}"
            if not ok:
                flag("erased-value-in-use", op.name, f"operand {i} is {what}")
        for i, b in enumerate(op._successors):
            reg = op.parent.parent if op.parent is not None else None
            if reg is None or getattr(b, "parent", None) is not reg:
                flag("dangling-successor", op.name, f"successor {i} is not a block of the region the operation sits in")
    return [c for c in CLAUSES if c in bad], bad


def _use_kind(u: Any, ops: list[Any]) -> str:
    op = u._operation
    if any(x is u for x in getattr(op, "_successor_uses", ())):
        return "b"
    return "v"


# ---------------------------------------------------------------------------------------------
# verification and print/parse round trip
# ---------------------------------------------------------------------------------------------

_OPNAME = re.compile(r'"([A-Za-z_][\w$]*\.[\w.$-]+)"|(?<![\w.%^@#!"])([a-z_][\w$]*\.[a-z_][\w.$]*)')


def _op_on_line(text: str, pos: int) -> str:
    """name of the operation printed on the line that holds offset `pos` (searching upwards)"""
    lines = text[:max(pos, 0) + 1].split("\n")
    for ln in reversed(lines[-12:]):
        body = ln.split("//")[0]
        if "=" in body and body.lstrip().startswith("%"):
            body = body.split("=", 1)[1]
        m = _OPNAME.search(body)
        if m:
            return m.group(1) or m.group(2)
    return "?"


def verify_failure(module: Any) -> tuple[str, str] | None:
    """None if module.verify() passes, else (kind of the innermost operation that fails, message)"""
    try:
        module.verify()
        return None
    except CpuTimeout:
        raise
    except BaseException as e:  # noqa: BLE001
        msg = f"{type(e).__name__}: {str(e).strip().splitlines()[0] if str(e).strip() else ''}"[:300]
    culprit = "?"
    try:
        for op in module.walk(reverse=True):
            try:
                op.verify(verify_nested_ops=False)
            except CpuTimeout:
                raise
            except BaseException:  # noqa: BLE001
                culprit = op.name
                break
    except CpuTimeout:
        raise
    except BaseException:  # noqa: BLE001
        pass
    return culprit, msg


def roundtrip_failure(module: Any, texts: dict[str, str] | None = None) -> tuple[str, str, str] | None:
    """None if the generic and the custom printed form both parse back in a fresh context;
    else (signature word, op kind, detail).  `texts` receives the printed forms."""
    from xdsl.parser import Parser
    from xdsl.printer import Printer
    from xdsl.utils.exceptions import ParseError

    for generic in (True, False):
        fmt = "generic" if generic else "custom"
        buf = io.StringIO()
        try:
            Printer(stream=buf, print_generic_format=generic).print_op(module)
        except CpuTimeout:
            raise
        except BaseException as e:  # noqa: BLE001
            return "print-raises", _op_on_line(buf.getvalue(), len(buf.getvalue())), f"{fmt} printer raised {type(e).__name__}: {str(e)[:200]}"
        text = buf.getvalue()
        if texts is not None:
            texts[fmt] = text
        try:
            Parser(fresh_context(), text).parse_module()
        except CpuTimeout:
            raise
        except ParseError as e:
            pos = e.span.start if getattr(e, "span", None) is not None else len(text)
            return "printed-form-does-not-parse", _op_on_line(text, pos), f"{fmt} form: {str(e.msg if hasattr(e, 'msg') else e)[:200]}"
        except BaseException as e:  # noqa: BLE001
            return "printed-form-does-not-parse", "?", f"{fmt} form: parser raised {type(e).__name__}: {str(e)[:200]}"
    return None


# ---------------------------------------------------------------------------------------------
# one (pass, options, module) pair
# ---------------------------------------------------------------------------------------------

MAX_LEAN_OBJECTS = 6000


def input_ok(text: str, tlimit: float = 10.0) -> tuple[str, int, str]:
    """the quantifier's 'valid input module': parses, verifies, is structurally consistent and both
    printed forms parse back *before* any pass runs; (status, number of operations, generic form)"""
    try:
        with quiet(), cpu_guard(tlimit):
            try:
                m = parse_module(text)
            except CpuTimeout:
                raise
            except BaseException:  # noqa: BLE001
                return "unparsed", 0, ""
            try:
                m.verify()
            except CpuTimeout:
                raise
            except BaseException:  # noqa: BLE001
                return "unverified", 0, ""
            n = sum(1 for _ in m.walk())
            U = Universe(m)
            if py_walk(U)[0]:
                return "inconsistent", n, ""
            texts: dict[str, str] = {}
            if roundtrip_failure(m, texts) is not None:
                return "does-not-round-trip", n, ""
            return "ok", n, texts["generic"]
    except CpuTimeout:
        return "timeout", 0, ""


def ssa_obligations(module: Any, in_block_order: bool = True) -> tuple[list[str], list[str]]:
    """SSA dominance of a module, reduced to what the Lean model `ssa_dom` decides.
    in_block_order=False (the re-ordered families): the position of a definition relative to its user inside ONE block
    is not looked at (xDSL's parser and verifier accept either order); everything else is still demanded.
    Returns (protocol lines, one per multi-block region that has cross-block uses; local violations found
    while walking: a use before its definition inside one block, a use of a value that is not defined in an
    enclosing region).  Graph regions (the module body) carry no order."""
    from xdsl.dialects.builtin import ModuleOp
    from xdsl.ir import BlockArgument, OpResult

    local: list[str] = []
    obl: dict[int, tuple[Any, list[tuple[int, int]]]] = {}
    bidx: dict[int, dict[int, int]] = {}
    opos: dict[int, dict[int, int]] = {}

    def block_index(reg: Any, b: Any) -> int:
        d = bidx.get(id(reg))
        if d is None:
            d = bidx[id(reg)] = {id(x): i for i, x in enumerate(reg.blocks)}
        return d[id(b)]

    def op_pos(b: Any, o: Any) -> int:
        d = opos.get(id(b))
        if d is None:
            d = opos[id(b)] = {id(x): i for i, x in enumerate(b.ops)}
        return d[id(o)]

    for u in module.walk():
        for v in u.operands:
            if isinstance(v, OpResult):
                dop, dblk = v.op, v.op.parent
            elif isinstance(v, BlockArgument):
                dop, dblk = None, v.block
            else:
                local.append(f"{u.name}: operand is a {type(v).__name__}")
                continue
            if dblk is None or dblk.parent is None:
                local.append(f"{u.name}: operand defined outside the module")
                continue
            dreg = dblk.parent
            a = u
            while a is not None and (a.parent is None or a.parent.parent is not dreg):
                a = a.parent_op()
            if a is None:
                local.append(f"{u.name}: uses a value that is not defined in an enclosing region")
                continue
            if isinstance(dreg.parent, ModuleOp):
                continue
            if a.parent is dblk:
                if in_block_order and dop is not None and op_pos(dblk, dop) >= op_pos(dblk, a):
                    local.append(f"{u.name}: used before (or inside) its definition {dop.name} in one block")
                continue
            ent = obl.get(id(dreg))
            if ent is None:
                ent = obl[id(dreg)] = (dreg, [])
            ent[1].append((block_index(dreg, dblk), block_index(dreg, a.parent)))
    lines = []
    for reg, pairs in obl.values():
        ws = []
        for b in reg.blocks:
            last = b.last_op
            ss = [block_index(reg, x) for x in last.successors if x.parent is reg] if last is not None else []
            ws.append(",".join(map(str, ss)) if ss else "-")
        uniq = list(dict.fromkeys(pairs))
        lines.append("ssa " + " ".join(ws) + " | " + " ".join(f"{x}>{y}" for x, y in uniq))
    return lines, local


def rewritten_kinds(cls: type, text: str, tlimit: float) -> list[str]:
    """kinds of the operations the default instance of the pass removes or replaces on this module (kinds of which
    fewer are left when the pass returns); [] if the pass raises / cannot be built / changes no count"""
    from collections import Counter
    from xdsl.parser import Parser
    try:
        with quiet(), cpu_guard(tlimit):
            ctx = fresh_context()
            m = Parser(ctx, text).parse_module()
            before = Counter(o.name for o in m.walk())
            cls().apply(ctx, m)
            after = Counter(o.name for o in m.walk())
            return sorted(k for k, n in before.items() if after.get(k, 0) < n)
    except BaseException:  # noqa: BLE001  (incl. CpuTimeout)
        return []


def schedule_instances(cls: type, text: str, tlimit: float) -> list[dict[str, Any]]:
    """option dicts of the instances `cls.schedule_space` offers for this module"""
    from xdsl.parser import Parser
    try:
        with quiet(), cpu_guard(tlimit):
            ctx = fresh_context()
            m = Parser(ctx, text).parse_module()
            return [jsonable_options(dataclasses.asdict(p)) for p in cls.schedule_space(ctx, m)]
    except (CpuTimeout, Exception):
        return []


def instantiate(name: str, cls: type, spec: dict[str, Any], text: str):
    return build_pass(cls, spec.get("options", {}))


def run_pair(name: str, cls: type, spec: dict[str, Any], text: str, tlimit: float, before: str | None = None,
             keep_text: bool = False) -> dict[str, Any]:
    """Run one pass instance on a fresh parse of `text` and judge the result.
    outcome: raised | timeout | no-instance | ok | fail (+ clause, opkind, detail); `lines` = snapshot for Lean,
    `walk` = failing clauses found by the Python walk."""
    from xdsl.parser import Parser

    res: dict[str, Any] = {"outcome": "ok"}
    try:
        with quiet(), cpu_guard(tlimit):
            try:
                p = instantiate(name, cls, spec, text)
            except CpuTimeout:
                raise
            except BaseException as e:  # noqa: BLE001
                return {"outcome": "raised", "exc": "instantiate:" + type(e).__name__}
            if p is None:
                return {"outcome": "no-instance"}
            ctx = fresh_context()
            m = Parser(ctx, text).parse_module()
            try:
                p.apply(ctx, m)
            except CpuTimeout:
                raise
            except BaseException as e:  # noqa: BLE001
                if isinstance(e, (KeyboardInterrupt, SystemExit)) and not isinstance(e, SystemExit):
                    raise
                return {"outcome": "raised", "exc": type(e).__name__}
    except CpuTimeout:
        return {"outcome": "timeout"}
    # the pass succeeded: judge the module it left (own guard: broken IR can make walks diverge)
    try:
        with quiet(), cpu_guard(max(tlimit, 10.0)):
            res["spec_str"] = str(p.pipeline_pass_spec()) if hasattr(p, "pipeline_pass_spec") else name
            U = Universe(m)
            res["objects"] = U.size()
            walk, details = py_walk(U)
            res["walk"] = walk
            if U.size() <= MAX_LEAN_OBJECTS:
                res["lines"] = snapshot_lines(U)
            vf = verify_failure(m)
            if walk:
                c = next(x for x in PRIORITY if x in walk)
                opk, det = details[c].split("|", 1)
                if len(walk) > 1:
                    det += f" (all failing clauses: {', '.join(walk)})"
                res.update(outcome="fail", clause=c, opkind=opk, detail=det)
                if vf is not None:
                    res["detail"] += f" (verify also fails: {vf[1]})"
            elif vf is not None:
                res.update(outcome="fail", clause="verify", opkind=vf[0], detail=vf[1])
            else:
                texts: dict[str, str] = {}
                rf = roundtrip_failure(m, texts)
                if rf is not None:
                    res.update(outcome="fail", clause=rf[0], opkind=rf[1], detail=rf[2])
                if before is not None and "generic" in texts:
                    res["changed"] = texts["generic"] != before
                if keep_text and "generic" in texts:
                    res["after"] = texts["generic"]
    except CpuTimeout:
        return {"outcome": "timeout-in-check"}
    return res
