"""C06 helper: recipes (JSON-serialisable descriptions) of builtin attribute/type values, their
construction through the public xDSL constructors, a bit-exact structural fingerprint, and the
seeded recursive generator.  Kept separate from c06.py (oracle, correspondence) for readability."""
from __future__ import annotations

import math
import struct
from typing import Any

# ---------------------------------------------------------------------------------------------
# float helpers (floats always travel as 16 hex digits of the IEEE-754 double, big-endian number)
# ---------------------------------------------------------------------------------------------

def d2h(x: float) -> str:
    return f"{struct.unpack('<Q', struct.pack('<d', x))[0]:016x}"


def h2d(h: str) -> float:
    return struct.unpack("<d", struct.pack("<Q", int(h, 16)))[0]


def f32_from_bits(u: int) -> float:
    return struct.unpack("<f", struct.pack("<I", u & 0xFFFFFFFF))[0]


def f16_from_bits(u: int) -> float:
    return struct.unpack("<e", struct.pack("<H", u & 0xFFFF))[0]


def bf16_from_bits(u: int) -> float:
    return struct.unpack("<f", struct.pack("<I", (u & 0xFFFF) << 16))[0]


FLOAT_TYPES_MAIN = ["f16", "bf16", "f32", "f64"]
FLOAT_TYPES_SMALL = ["tf32", "f8E5M2", "f8E4M3", "f8E4M3FN", "f8E5M2FNUZ", "f8E4M3FNUZ", "f8E4M3B11FNUZ",
                     "f8E3M4", "f6E2M3FN", "f6E3M2FN", "f4E2M1FN"]  # f8E8M0FNU (unsigned, no zero) left out
SIGN = {"i": "SIGNLESS", "si": "SIGNED", "ui": "UNSIGNED"}


def float_type(name: str):
    from xdsl.dialects import builtin as B

    return getattr(B, name)


def int_type(width: int, sgn: str):
    from xdsl.dialects.builtin import IntegerType, Signedness

    return IntegerType(width, getattr(Signedness, SIGN[sgn]))


def elem_type(spec: list):
    """["i", w] | ["si", w] | ["ui", w] | ["index"] | ["f", name] | ["complex", spec]"""
    from xdsl.dialects.builtin import ComplexType, IndexType

    k = spec[0]
    if k in SIGN:
        return int_type(spec[1], k)
    if k == "index":
        return IndexType()
    if k == "f":
        return float_type(spec[1])
    if k == "complex":
        return ComplexType(elem_type(spec[1]))
    raise ValueError(spec)


# ---------------------------------------------------------------------------------------------
# recipe -> attribute
# ---------------------------------------------------------------------------------------------

def build(r: list) -> Any:
    """Construct the attribute described by recipe `r` via public constructors only."""
    from xdsl.dialects import builtin as B
    from xdsl.ir.affine import AffineExpr, AffineMap
    from xdsl.ir.affine.affine_set import AffineConstraintExpr, AffineConstraintKind, AffineSet

    k = r[0]
    if k == "int":  # ["int", sgn, width, value]   sgn "index" => IndexType
        ty = B.IndexType() if r[1] == "index" else int_type(r[2], r[1])
        return B.IntegerAttr(r[3], ty)
    if k == "float":  # ["float", tyname, hex double]
        return B.FloatAttr(h2d(r[2]), float_type(r[1]))
    if k == "str":  # ["str", hex utf-8]
        return B.StringAttr(bytes.fromhex(r[1]).decode("utf-8"))
    if k == "bytes":
        return B.BytesAttr(bytes.fromhex(r[1]))
    if k == "unit":
        return B.UnitAttr()
    if k == "array":
        return B.ArrayAttr(tuple(build(x) for x in r[1]))
    if k == "dict":  # ["dict", [[hexkey, recipe], ...]]
        return B.DictionaryAttr({bytes.fromhex(kk).decode("utf-8"): build(v) for kk, v in r[1]})
    if k == "symref":  # ["symref", [hexname, ...]]
        names = [bytes.fromhex(x).decode("utf-8") for x in r[1]]
        return B.SymbolRefAttr(names[0], names[1:])
    if k == "densearr":  # ["densearr", elemspec, [values]]  float values as hex doubles
        ty = elem_type(r[1])
        vals = [h2d(v) for v in r[2]] if r[1][0] == "f" else list(r[2])
        return B.DenseArrayBase.from_list(ty, vals)
    if k == "dense":  # ["dense", container, shape, elemspec, [values]]  (1 value + bigger shape = splat)
        et = elem_type(r[3])
        cont = {"tensor": B.TensorType, "vector": B.VectorType, "memref": B.MemRefType}[r[1]]
        ty = cont(et, list(r[2]))
        return B.DenseIntOrFPElementsAttr.from_list(ty, dense_values(r[3], r[4]))
    if k == "opaque":  # ["opaque", hexname, hexvalue, type-recipe|None]
        t = B.NoneAttr() if r[3] is None else build(r[3])
        return B.OpaqueAttr.from_strings(bytes.fromhex(r[1]).decode(), bytes.fromhex(r[2]).decode(), t)
    if k == "loc":
        sub = r[1]
        if sub == "unknown":
            return B.UnknownLoc()
        if sub == "flc":
            return B.FileLineColLoc(B.StringAttr(bytes.fromhex(r[2]).decode()), B.IntAttr(r[3]), B.IntAttr(r[4]))
        if sub == "callsite":
            return B.CallSiteLoc(build(r[2]), build(r[3]))
        if sub == "fused":  # ["loc","fused",[locs], metadata|None]
            return B.FusedLoc(B.ArrayAttr(tuple(build(x) for x in r[2])), B.NoneAttr() if r[3] is None else build(r[3]))
        if sub == "name":
            return B.NameLoc(B.StringAttr(bytes.fromhex(r[2]).decode()), B.NoneAttr() if r[3] is None else build(r[3]))
    if k == "affine_map":  # ["affine_map", ndims, nsyms, [expr...]]
        return B.AffineMapAttr(AffineMap(r[1], r[2], tuple(affine_expr(e) for e in r[3])))
    if k == "affine_set":  # ["affine_set", ndims, nsyms, [[kind, expr], ...]]  (expr `kind` 0)
        cs = tuple(AffineConstraintExpr(AffineConstraintKind[c[0]], affine_expr(c[1]), AffineExpr.constant(0)) for c in r[3])
        return B.AffineSetAttr(AffineSet(r[1], r[2], cs))
    if k == "strided":  # ["strided", [int|None...], int|None]
        return B.StridedLayoutAttr(list(r[1]), r[2])
    if k == "intdata":
        return B.IntAttr(r[1])
    if k == "floatdata":
        return B.FloatData(h2d(r[1]))
    if k == "signedness":
        return B.SignednessAttr(getattr(B.Signedness, r[1]))
    # ---- types
    if k == "ity":
        return int_type(r[2], r[1])
    if k == "index":
        return B.IndexType()
    if k == "fty":
        return float_type(r[1])
    if k == "nonety":
        return B.NoneType()
    if k == "complexty":
        return B.ComplexType(build(r[1]))
    if k == "tuplety":
        return B.TupleType(B.ArrayAttr(tuple(build(x) for x in r[1])))
    if k == "functy":
        return B.FunctionType.from_attrs(B.ArrayAttr(tuple(build(x) for x in r[1])), B.ArrayAttr(tuple(build(x) for x in r[2])))
    if k == "vectorty":  # ["vectorty", elem, [dims], [scalable bools]]
        sd = B.ArrayAttr(tuple(B.BoolAttr.from_bool(bool(b)) for b in r[3]))
        return B.VectorType(build(r[1]), list(r[2]), sd)
    if k == "tensorty":  # ["tensorty", elem, [dims (-1 = dynamic)], encoding|None]
        dims = [B.DYNAMIC_INDEX if d == -1 else d for d in r[2]]
        return B.TensorType(build(r[1]), dims) if r[3] is None else B.TensorType(build(r[1]), dims, build(r[3]))
    if k == "utensorty":
        return B.UnrankedTensorType(build(r[1]))
    if k == "memrefty":  # ["memrefty", elem, dims, layout|None, memspace|None]
        dims = [B.DYNAMIC_INDEX if d == -1 else d for d in r[2]]
        return B.MemRefType(build(r[1]), dims, B.NoneAttr() if r[3] is None else build(r[3]),
                            B.NoneAttr() if r[4] is None else build(r[4]))
    if k == "umemrefty":
        return B.UnrankedMemRefType.from_type(build(r[1]), B.NoneAttr() if r[2] is None else build(r[2]))
    raise ValueError(f"unknown recipe {r!r}")


def dense_values(espec: list, vals: list) -> list:
    if espec[0] == "f":
        return [h2d(v) for v in vals]
    if espec[0] == "complex":
        inner = espec[1]
        if inner[0] == "f":
            return [(h2d(a), h2d(b)) for a, b in vals]
        return [(a, b) for a, b in vals]
    return list(vals)


def affine_expr(e: Any):
    """["d", i] | ["s", i] | ["c", n] | [op, a, b] with op in + * mod floordiv ceildiv (built via the
    public operators, as user code does)."""
    from xdsl.ir.affine import AffineExpr

    k = e[0]
    if k == "d":
        return AffineExpr.dimension(e[1])
    if k == "s":
        return AffineExpr.symbol(e[1])
    if k == "c":
        return AffineExpr.constant(e[1])
    a, b = affine_expr(e[1]), affine_expr(e[2])
    if k == "+":
        return a + b
    if k == "*":
        return a * b
    if k == "mod":
        return a % b
    if k == "floordiv":
        return a // b
    if k == "ceildiv":
        return a.ceil_div(b)
    raise ValueError(e)


TYPE_KINDS = {"ity", "index", "fty", "nonety", "complexty", "tuplety", "functy", "vectorty", "tensorty",
              "utensorty", "memrefty", "umemrefty"}


def is_type_recipe(r: list) -> bool:
    return r[0] in TYPE_KINDS


# ---------------------------------------------------------------------------------------------
# bit-exact fingerprint (independent of the attributes' own __eq__/__hash__)
# ---------------------------------------------------------------------------------------------

def fingerprint(a: Any) -> Any:
    """Structural description of an attribute with every numeric payload as exact bits: floats as the
    bytes `type.pack` gives in the attribute's precision plus the bits of the stored Python double,
    ints as ints, bytes/str as hex."""
    from xdsl.dialects import builtin as B
    from xdsl.ir import Attribute, Data, ParametrizedAttribute

    if isinstance(a, B.FloatAttr):
        v = a.value.data
        try:
            packed = a.type.pack((v,)).hex()
        except Exception as e:  # noqa: BLE001  (f80/f128 have no packing)
            packed = "unpackable:" + type(e).__name__
        return ["FloatAttr", fingerprint(a.type), packed, d2h(v)]
    if isinstance(a, B.FloatData):
        return ["FloatData", d2h(a.data)]
    if isinstance(a, Data):
        d = a.data
        return [type(a).__name__, _fp_data(d)]
    if isinstance(a, ParametrizedAttribute):
        return [type(a).__name__, [fingerprint(p) for p in a.parameters]]
    if isinstance(a, Attribute):
        return [type(a).__name__, str(a)]
    return ["?", repr(a)]


def _fp_data(d: Any) -> Any:
    from xdsl.ir import Attribute

    if isinstance(d, bool):
        return ["bool", d]
    if isinstance(d, int):
        return ["int", d]
    if isinstance(d, float):
        return ["float", d2h(d)]
    if isinstance(d, str):
        return ["str", d.encode("utf-8", "surrogatepass").hex()]
    if isinstance(d, (bytes, bytearray)):
        return ["bytes", bytes(d).hex()]
    if isinstance(d, (tuple, list)):
        return ["seq", [_fp_data(x) for x in d]]
    if isinstance(d, Attribute):
        return fingerprint(d)
    if hasattr(d, "items"):
        return ["map", [[_fp_data(k), _fp_data(v)] for k, v in d.items()]]
    if hasattr(d, "name") and hasattr(d, "value") and not isinstance(d, Attribute):  # Enum
        return ["enum", str(d)]
    return ["obj", type(d).__name__, str(d)]


# ---------------------------------------------------------------------------------------------
# generator
# ---------------------------------------------------------------------------------------------
BOUNDARY_F64 = [
    0x0000000000000000, 0x8000000000000000, 0x7FF0000000000000, 0xFFF0000000000000,  # ±0 ±inf
    0x7FF8000000000000, 0xFFF8000000000000, 0x7FF0000000000001, 0x7FF4000000000000, 0x7FFFFFFFFFFFFFFF,  # NaNs
    0x0000000000000001, 0x000FFFFFFFFFFFFF, 0x0010000000000000, 0x7FEFFFFFFFFFFFFF, 0xFFEFFFFFFFFFFFFF,  # subnormal/min/max
    0x3FF0000000000000, 0xBFF0000000000000, 0x3FF0000000000001, 0x3FD5555555555555, 0x3FB999999999999A,  # 1, -1, 1+ulp, 1/3, 0.1
    0x4340000000000000, 0x4340000000000001, 0x4345EE2A2EB5A5C4, 0x41D26580B4800000, 0x3EE4F8B588E368F1,  # 2^53, .., 1.2345678901234568e16, 1234567890.5->, 1e-5
    0x4415AF1D78B58C40, 0x4341C37937E08000, 0x3FF199999999999A, 0x40934A456D5CFAAD,  # 1e20, 1e16, 1.1, 1234.5678
]
BOUNDARY_F32 = [
    0x00000000, 0x80000000, 0x7F800000, 0xFF800000, 0x7FC00000, 0xFFC00000, 0x7F800001, 0x7FA00000, 0x7FFFFFFF,
    0x00000001, 0x007FFFFF, 0x00800000, 0x7F7FFFFF, 0xFF7FFFFF, 0x3F800000, 0x3F800001, 0x3EAAAAAB, 0x3DCCCCCD,
    0x4CEB79A3, 0x4B800000, 0x4B800001, 0x4D8EF3C4, 0x60AD78EC, 0x3727C5AC, 0x501502F9, 0x4E6E6B28,
]
BOUNDARY_16 = [0x0000, 0x8000, 0x7C00, 0xFC00, 0x7E00, 0x7C01, 0xFE00, 0x7FFF, 0x0001, 0x03FF, 0x0400, 0x7BFF, 0xFBFF,
               0x3C00, 0x3C01, 0x3555, 0x2E66, 0x7F80, 0xFF80, 0x7FC0, 0x7F81, 0x7F7F, 0x0080, 0x007F, 0x3F80, 0x3EAB]


def float_value(rng, tyname: str) -> float:
    """A double that is interesting for `tyname` (the FloatAttr constructor rounds it to the type)."""
    r = rng.random()
    if tyname == "f64":
        if r < 0.35:
            return h2d(f"{rng.choice(BOUNDARY_F64):016x}")
        if r < 0.45:
            return float(rng.choice([1, 10, 123456789, 2**53 + 2, 10**15, 10**17, 10**22, 255, 65504])) * rng.choice([1, -1])
        if r < 0.55:
            return rng.choice([1, -1]) * round(rng.uniform(0, 1000), rng.randint(0, 6))
        if r < 0.62:  # NaN with random payload
            return h2d(f"{0x7FF0000000000000 | rng.getrandbits(52) | 1 | (rng.getrandbits(1) << 63):016x}")
        return h2d(f"{rng.getrandbits(64):016x}")
    if tyname == "f32":
        if r < 0.35:
            return f32_from_bits(rng.choice(BOUNDARY_F32))
        if r < 0.45:
            return float(rng.choice([1, 10, 16777216, 123456792, 299792458, 10**10, 10**20, 255])) * rng.choice([1, -1])
        if r < 0.55:
            return rng.choice([1, -1]) * round(rng.uniform(0, 1000), rng.randint(0, 4))
        if r < 0.62:
            return f32_from_bits(0x7F800000 | rng.getrandbits(23) | 1 | (rng.getrandbits(1) << 31))
        if r < 0.70:
            return h2d(f"{rng.getrandbits(64) & 0xBFFFFFFFFFFFFFFF | 0x3000000000000000:016x}")  # double needing rounding, in f32 range
        return f32_from_bits(rng.getrandbits(32))
    if tyname == "f16":
        if r < 0.4:
            return f16_from_bits(rng.choice(BOUNDARY_16))
        if r < 0.5:
            return rng.choice([1, -1]) * round(rng.uniform(0, 100), rng.randint(0, 3))
        return f16_from_bits(rng.getrandbits(16))
    if tyname == "bf16":
        if r < 0.4:
            return bf16_from_bits(rng.choice(BOUNDARY_16))
        if r < 0.5:
            return rng.choice([1, -1]) * round(rng.uniform(0, 100), rng.randint(0, 3))
        return bf16_from_bits(rng.getrandbits(16))
    # small formats: decode a random bit pattern of the format itself, or a simple value
    t = float_type(tyname)
    if r < 0.75:
        return t.decode_bits(rng.getrandbits(t.bitwidth))
    return rng.choice([0.0, -0.0, 1.0, -1.5, 0.5, 2.0, math.inf, -math.inf, math.nan, 1 / 3, 1e-5, 448.0])


def int_value(rng, sgn: str, width: int) -> int:
    """In-range value for the type, edge-weighted; signless covers signed ∪ unsigned ranges."""
    if sgn == "index":
        return rng.choice([0, 1, -1, 2**63 - 1, -2**63, 2**64, -2**70, rng.getrandbits(70) - 2**69, rng.randint(-100, 100)])
    if width == 0:
        return 0
    lo = -(1 << (width - 1)) if sgn in ("i", "si") else 0
    hi = (1 << width) - 1 if sgn in ("i", "ui") else (1 << (width - 1)) - 1
    edges = [lo, hi, 0, 1, -1, lo + 1, hi - 1, (1 << (width - 1)) - 1, (1 << (width - 1)), -(1 << (width - 1)), 10, 255, 256, -128]
    edges = [e for e in edges if lo <= e <= hi]
    if rng.random() < 0.6:
        return rng.choice(edges)
    return rng.randint(lo, hi)


def rand_width(rng) -> int:
    r = rng.random()
    if r < 0.45:
        return rng.choice([1, 8, 16, 32, 64])
    if r < 0.9:
        return rng.randint(1, 64)
    return rng.choice([2, 7, 9, 31, 33, 63, 65, 96, 128, 257])


STRING_ALPHABETS = [
    "abcXYZ019_$. -",  # plain
    "\"\\\n\t\r\x00\x01\x1f\x7f\x0b\x0c",  # quotes, backslash, controls
    "é߿ࠀ€￿ ",  # 2- and 3-byte UTF-8, BMP edge
    "\U00010000😀\U0010ffff",  # non-BMP
]


def rand_text(rng, maxlen: int = 8, ascii_only: bool = False) -> str:
    r = rng.random()
    if r < 0.08:
        return ""
    n = rng.randint(1, maxlen)
    alph = STRING_ALPHABETS[:2] if ascii_only else STRING_ALPHABETS
    out = []
    mode = rng.random()
    for _ in range(n):
        if mode < 0.3:
            a = alph[0]
        elif mode < 0.45 and not ascii_only:
            out.append(_rand_scalar(rng))
            continue
        else:
            a = rng.choice(alph)
        out.append(rng.choice(a))
    return "".join(out)


IDENT_START = "abzAZ_" + "éñΩж名"
IDENT_REST = "abz09AZ_$." + "éñΩж名²٣５"


def rand_ident(rng, maxlen: int = 6) -> str:
    """identifier-shaped names (letters, digits, `_ $ .`), including non-ASCII letters and digits:
    names a printer might decide to print bare"""
    return rng.choice(IDENT_START) + "".join(rng.choice(IDENT_REST) for _ in range(rng.randint(0, maxlen - 1)))


def _rand_scalar(rng) -> str:
    while True:
        c = rng.choice([rng.randrange(0x80), rng.randrange(0x80, 0x800), rng.randrange(0x800, 0x10000), rng.randrange(0x10000, 0x110000)])
        if not 0xD800 <= c <= 0xDFFF:
            return chr(c)


def rand_bytes(rng, maxlen: int = 8) -> bytes:
    r = rng.random()
    if r < 0.08:
        return b""
    if r < 0.3:
        return rand_text(rng, maxlen).encode()  # valid UTF-8 payload
    if r < 0.45:
        return rand_text(rng, maxlen, ascii_only=True).encode()
    if r < 0.6:  # almost UTF-8: truncated / overlong / surrogate encodings
        return rng.choice([b"\xc3", b"\xe2\x82", b"\xc0\x80", b"\xed\xa0\x80", b"\xf4\x90\x80\x80", b"a\x80", b"\xf0\x9f\x98", b"\xff", b"\xc3\xa9\xff"])
    return bytes(rng.getrandbits(8) for _ in range(rng.randint(1, maxlen)))


def hx(s: str) -> str:
    return s.encode("utf-8").hex()


class Gen:
    """Recursive generator of recipes; every random choice comes from `rng`."""

    def __init__(self, rng, float_types: list[str]):
        self.rng = rng
        self.float_types = float_types

    # ---- leaves
    def int_attr(self) -> list:
        rng = self.rng
        if rng.random() < 0.12:
            return ["int", "index", 0, int_value(rng, "index", 0)]
        sgn = rng.choice(["i", "i", "si", "ui"])
        w = rand_width(rng)
        return ["int", sgn, w, int_value(rng, sgn, w)]

    def float_attr(self) -> list:
        t = self.rng.choice(self.float_types)
        return ["float", t, d2h(float_value(self.rng, t))]

    def str_attr(self) -> list:
        return ["str", hx(rand_text(self.rng))]

    def bytes_attr(self) -> list:
        return ["bytes", rand_bytes(self.rng).hex()]

    def espec(self, allow_complex: bool, allow_index: bool, int_max_width: int = 64) -> list:
        rng = self.rng
        r = rng.random()
        if allow_complex and r < 0.1:
            return ["complex", self.espec(False, False)]
        if r < 0.45:
            return ["f", rng.choice(self.float_types)]
        if allow_index and r < 0.52:
            return ["index"]
        w = min(rand_width(rng), int_max_width)
        return [rng.choice(["i", "i", "si", "ui"]), w]

    def evalue(self, espec: list) -> Any:
        rng = self.rng
        if espec[0] == "f":
            return d2h(float_value(rng, espec[1]))
        if espec[0] == "index":
            return int_value(rng, "si", 64)
        if espec[0] == "complex":
            return [self.evalue(espec[1]), self.evalue(espec[1])]
        return int_value(rng, espec[0], espec[1])

    def dense_array(self) -> list:
        rng = self.rng
        r = rng.random()
        if r < 0.45:
            es = ["f", rng.choice(self.float_types)]
        else:
            # element sizes of 3/5/6/7 bytes are rejected by DenseArrayBase.verify: not constructible
            w = rng.choice([1, 8, 16, 32, 64, rng.choice([rng.randint(1, 16), rng.randint(25, 32), rng.randint(57, 64)])])
            es = [rng.choice(["i", "i", "si", "ui"]), w]
        n = rng.choice([0, 1, 1, 2, 3, 5])
        return ["densearr", es, [self.evalue(es) for _ in range(n)]]

    def dense(self) -> list:
        rng = self.rng
        es = self.espec(True, True)
        cont = rng.choice(["tensor", "tensor", "tensor", "vector", "memref"])
        r = rng.random()
        if r < 0.08:  # empty
            shape = rng.choice([[0], [2, 0], [0, 3]])
            return ["dense", cont, shape, es, []]
        if r < 0.16:  # zero-rank
            return ["dense", cont, [], es, [self.evalue(es)]]
        if r < 0.30:  # splat through from_list
            shape = rng.choice([[2], [3, 2], [1], [1, 1], [4, 1, 2]])
            return ["dense", cont, shape, es, [self.evalue(es)]]
        if r < 0.38:  # large (> 100 elements: hex string form)
            shape = rng.choice([[101], [11, 10], [3, 5, 7]])
            n = math.prod(shape)
            base = [self.evalue(es) for _ in range(rng.choice([2, 3, 7]))]
            return ["dense", cont, shape, es, [base[i % len(base)] if rng.random() < 0.9 else self.evalue(es) for i in range(n)]]
        shape = rng.choice([[2], [3], [2, 2], [2, 1, 2], [1, 3], [5]])
        n = math.prod(shape)
        vals = [self.evalue(es) for _ in range(n)]
        if rng.random() < 0.25:  # all equal, or equal up to a sign of zero / NaN payload
            vals = [vals[0]] * n
        if es[0] == "f" and rng.random() < 0.2:
            z = [d2h(0.0), d2h(-0.0)]
            vals = [rng.choice(z) for _ in range(n)]
        return ["dense", cont, shape, es, vals]

    def symref(self) -> list:
        rng = self.rng
        n = rng.choice([1, 1, 2, 3])
        names = []
        for _ in range(n):
            rk = rng.random()
            names.append(hx(rng.choice(["foo", "a.b$c", "_x1", "main"]) if rk < 0.4 else rand_ident(rng) if rk < 0.7 else rand_text(rng, 5)))
        return ["symref", names]

    def loc(self, depth: int) -> list:
        rng = self.rng
        r = rng.random()
        if depth <= 0 or r < 0.3:
            return ["loc", "unknown"] if r < 0.15 else ["loc", "flc", hx(rand_text(rng, 6)), rng.choice([0, 1, 7, 2**31, 10**12]), rng.choice([0, 3, 80])]
        if r < 0.5:
            return ["loc", "callsite", self.loc(depth - 1), self.loc(depth - 1)]
        if r < 0.75:
            meta = None
            if rng.random() < 0.3:
                meta = rng.choice([["str", hx("m")], ["int", "i", 32, 5], ["dict", [[hx("k"), ["unit"]]]]])
            return ["loc", "fused", [self.loc(depth - 1) for _ in range(rng.choice([0, 1, 2, 3]))], meta]
        return ["loc", "name", hx(rand_text(rng, 5)), self.loc(depth - 1) if rng.random() < 0.6 else None]

    def affine_expr(self, nd: int, ns: int, depth: int) -> list:
        rng = self.rng
        r = rng.random()
        leaves = [["d", i] for i in range(nd)] + [["s", i] for i in range(ns)]
        if depth <= 0 or r < 0.3 or not leaves:
            if leaves and rng.random() < 0.7:
                return rng.choice(leaves)
            return ["c", rng.choice([0, 1, -1, 2, 7, -13, 2**40])]
        if r < 0.6:
            return ["+", self.affine_expr(nd, ns, depth - 1), self.affine_expr(nd, ns, depth - 1)]
        if r < 0.75:
            return ["*", self.affine_expr(nd, ns, depth - 1), ["c", rng.choice([2, 3, -1, -4, 16])]]
        return [rng.choice(["mod", "floordiv", "ceildiv"]), self.affine_expr(nd, ns, depth - 1), ["c", rng.choice([1, 2, 3, 8, 64])]]

    def affine_map(self) -> list:
        rng = self.rng
        nd, ns = rng.randint(0, 3), rng.randint(0, 2)
        return ["affine_map", nd, ns, [self.affine_expr(nd, ns, 2) for _ in range(rng.randint(0, 3))]]

    def affine_set(self) -> list:
        rng = self.rng
        nd, ns = rng.randint(1, 3), rng.randint(0, 2)
        return ["affine_set", nd, ns, [[rng.choice(["ge", "eq"]), self.affine_expr(nd, ns, 2)] for _ in range(rng.randint(1, 3))]]

    def strided(self) -> list:
        rng = self.rng
        return ["strided", [rng.choice([1, 2, 16, None, -3, 2**40]) for _ in range(rng.randint(0, 3))], rng.choice([0, 0, 5, None, -7])]

    # ---- types
    def scalar_type(self) -> list:
        rng = self.rng
        r = rng.random()
        if r < 0.45:
            return ["ity", rng.choice(["i", "i", "si", "ui"]), rng.choice([0, 1, 8, 32, 64, rand_width(rng)])]
        if r < 0.55:
            return ["index"]
        return ["fty", rng.choice(FLOAT_TYPES_MAIN + FLOAT_TYPES_SMALL + ["f80", "f128", "f8E8M0FNU"])]

    def type(self, depth: int) -> list:
        rng = self.rng
        r = rng.random()
        if depth <= 0 or r < 0.25:
            return self.scalar_type() if r > 0.02 else ["nonety"]
        if r < 0.32:
            return ["complexty", rng.choice([["fty", rng.choice(FLOAT_TYPES_MAIN)], ["ity", "i", rng.choice([1, 8, 32])]])]
        if r < 0.42:
            return ["tuplety", [self.type(depth - 1) for _ in range(rng.choice([0, 1, 2, 3]))]]
        if r < 0.55:
            return ["functy", [self.type(depth - 1) for _ in range(rng.choice([0, 1, 2]))],
                    [self.type(depth - 1) for _ in range(rng.choice([0, 1, 1, 2]))]]
        if r < 0.67:
            dims = [rng.choice([1, 2, 4, 16, 0]) for _ in range(rng.choice([0, 1, 2, 3]))]
            return ["vectorty", self.scalar_type(), dims, [int(rng.random() < 0.3) for _ in dims]]
        if r < 0.80:
            dims = [rng.choice([1, 2, 0, -1, 2**33]) for _ in range(rng.choice([0, 1, 2, 3]))]
            enc = None
            if rng.random() < 0.25:
                enc = rng.choice([["str", hx("enc")], ["int", "i", 64, 3], ["dict", [[hx("a"), ["unit"]]]], ["array", [["int", "i", 32, 1]]]])
            return ["tensorty", self.type(depth - 1) if rng.random() < 0.2 else self.scalar_type(), dims, enc]
        if r < 0.84:
            return ["utensorty", self.scalar_type()]
        if r < 0.96:
            dims = [rng.choice([1, 2, 0, -1, 128]) for _ in range(rng.choice([0, 1, 2, 3]))]
            layout = None
            if rng.random() < 0.4:
                layout = self.strided() if rng.random() < 0.5 else self.affine_map()
            ms = None
            if rng.random() < 0.4:
                ms = rng.choice([["int", "i", 64, 1], ["int", "i", 32, 3], ["str", hx("shared")], ["array", []], ["int", "index", 0, 2]])
            return ["memrefty", self.scalar_type(), dims, layout, ms]
        return ["umemrefty", self.scalar_type(), rng.choice([None, ["int", "i", 64, 2], ["str", hx("g")]])]

    # ---- any attribute
    def attr(self, depth: int) -> list:
        rng = self.rng
        r = rng.random()
        if depth > 0 and r < 0.10:
            return ["array", [self.attr(depth - 1) for _ in range(rng.choice([0, 1, 2, 3]))]]
        if depth > 0 and r < 0.20:
            keys: list[str] = []
            for _ in range(rng.choice([0, 1, 2, 3])):
                rk = rng.random()
                kname = (rng.choice(["a", "sym_name", "x.y", "_", "unit", "true", "loc", "f32"]) if rk < 0.4
                         else rand_ident(rng) if rk < 0.7 else rand_text(rng, 5))
                if kname not in keys:
                    keys.append(kname)
            return ["dict", [[hx(kk), self.attr(depth - 1)] for kk in keys]]
        if r < 0.32:
            return self.int_attr()
        if r < 0.46:
            return self.float_attr()
        if r < 0.54:
            return self.str_attr()
        if r < 0.59:
            return self.bytes_attr()
        if r < 0.66:
            return self.dense_array()
        if r < 0.78:
            return self.dense()
        if r < 0.81:
            return self.symref()
        if r < 0.82:
            return ["unit"]
        if r < 0.86:
            return self.loc(2)
        if r < 0.89:
            return self.affine_map()
        if r < 0.91:
            return self.affine_set()
        if r < 0.93:
            return self.strided()
        if r < 0.945:
            t = None if rng.random() < 0.5 else self.scalar_type()
            return ["opaque", hx(rng.choice(["dialect", "d"])), hx(rand_text(rng, 6)), t]
        if r < 0.955:
            return rng.choice([["intdata", rng.choice([0, -5, 2**100])], ["signedness", rng.choice(["SIGNLESS", "SIGNED", "UNSIGNED"])]])
        if r < 0.965:
            return ["floatdata", d2h(float_value(rng, "f64"))]
        return self.type(2)
