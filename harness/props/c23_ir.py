"""C23 helpers: the program representation shared by generator, reference semantics, Lean protocol.

A *program* is one llvm.func as nested lists (JSON-serialisable, printed verbatim as the S-expression
the Lean model `llvm` reads):

  ["func", ["ret", ty], block...]
  block = ["block", ["args", [id, ty]...], op..., term]
  op    = ["const", r, ty, v] | ["fconst", r, ty, f64bits] | ["bin", k, r, ty, a, b, ovf, exact, disjoint]
        | ["icmp", r, pred, ty, a, b] | ["fbin", k, r, ty, a, b] | ["fcmp", r, pred, ty, a, b]
        | ["fneg", r, ty, a] | ["cast", k, r, fromTy, toTy, a, ovf, nneg] | ["select", r, ty, c, a, b]
        | ["alloca", r, elemTy, sizeTy, size] | ["load", r, ty, p] | ["store", ty, v, p]
        | ["gep", r, elemTy, p, ["c", i] | ["v", id, ty], inbounds]
  term  = ["ret", ty, v] | ["br", [d, a...]] | ["condbr", c, [t, a...], [e, a...]] | ["unreachable"]

ids are SSA value numbers, blocks are addressed by their index, `ovf` is the integer of the
`overflowFlags` property (bit 0 nsw, bit 1 nuw), predicates are the integers of the `predicate`
property, flags are 0/1.

`build` turns a program into real xDSL IR (op classes of xdsl.dialects.llvm), `extract` reads a program
back from real IR (everything downstream uses the extracted form, so a slip in `build` cannot
masquerade as a backend defect), `ref_run` is the independent reference: LLVM semantics of the
*source* operations on bit patterns with Python integers, poison/UB tracked as "ub".
"""
from __future__ import annotations

import math
import struct
from typing import Any

INT_WIDTHS = [1, 8, 16, 32, 64]
BINOPS = ["add", "sub", "mul", "udiv", "sdiv", "urem", "srem", "and", "or", "xor", "shl", "lshr", "ashr"]
OVF_BINOPS = {"add", "sub", "mul", "shl"}
EXACT_BINOPS = {"udiv", "sdiv", "lshr", "ashr"}
FBINOPS = ["fadd", "fsub", "fmul", "fdiv", "frem"]
ICMP = ["eq", "ne", "slt", "sle", "sgt", "sge", "ult", "ule", "ugt", "uge"]  # ICmpPredicate order
FCMP = ["_false", "oeq", "ogt", "oge", "olt", "ole", "one", "ord", "ueq", "ugt", "uge", "ult", "ule", "une",
        "uno", "_true"]  # FCmpPredicate order
CASTS = ["trunc", "zext", "sext", "bitcast", "sitofp", "fpext"]


class Unsupported(Exception):
    """IR outside the modelled subset"""


# ---------------------------------------------------------------------------------------------
# S-expressions
# ---------------------------------------------------------------------------------------------

def sexp(x: Any) -> str:
    if isinstance(x, (list, tuple)):
        return "(" + " ".join(sexp(y) for y in x) + ")"
    if isinstance(x, bool):
        return "1" if x else "0"
    return str(x)


def read_sexp(s: str) -> Any:
    toks = s.replace("(", " ( ").replace(")", " ) ").split()
    pos = 0

    def rd() -> Any:
        nonlocal pos
        t = toks[pos]
        pos += 1
        if t == "(":
            out = []
            while toks[pos] != ")":
                out.append(rd())
            pos += 1
            return out
        try:
            return int(t)
        except ValueError:
            return t

    r = rd()
    if pos != len(toks):
        raise ValueError("trailing tokens")
    return r


# ---------------------------------------------------------------------------------------------
# bit-level helpers
# ---------------------------------------------------------------------------------------------

def is_int(ty: str) -> bool:
    return ty[0] == "i"


def width(ty: str) -> int:
    return int(ty[1:])


def size_of(ty: str) -> int:
    return {"f16": 2, "bf16": 2, "f32": 4, "f64": 8, "ptr": 8}.get(ty) or (width(ty) + 7) // 8


# float formats: name -> (storage bits, significand bits incl. the hidden one, LLVM IR type name).
# f80/f128 are only named (no reference arithmetic): they occur in the translate-or-reject boundary family.
FLOAT_FORMATS = {"f16": (16, 11, "half"), "bf16": (16, 8, "bfloat"), "f32": (32, 24, "float"),
                 "f64": (64, 53, "double"), "f80": (80, 64, "x86_fp80"), "f128": (128, 113, "fp128")}
LEAN_TYPES = {"i1", "i8", "i16", "i32", "i64", "f32", "f64", "ptr"}   # what the Lean model `llvm` reads
_TY = None


def prog_types(prog: Any) -> set[str]:
    """all type names that occur in a program"""
    import re

    global _TY
    if _TY is None:
        _TY = re.compile(r"i\d+|b?f\d+|ptr")
    out: set[str] = set()

    def walk(x: Any) -> None:
        if isinstance(x, (list, tuple)):
            for y in x:
                walk(y)
        elif isinstance(x, str) and _TY.fullmatch(x):
            out.add(x)

    walk(prog)
    return out


def float_bits(ty: str) -> int:
    return FLOAT_FORMATS[ty][0]


def sx(n: int, w: int) -> int:
    return n - (1 << w) if (n >> (w - 1)) & 1 else n


def f64_bits(x: float) -> int:
    return struct.unpack("<Q", struct.pack("<d", x))[0]


def bits_f64(b: int) -> float:
    return struct.unpack("<d", struct.pack("<Q", b))[0]


def bits_f32(b: int) -> float:
    return struct.unpack("<f", struct.pack("<I", b))[0]


def round32(x: float) -> float:
    """double -> nearest float32 (as a double)"""
    try:
        return struct.unpack("<f", struct.pack("<f", x))[0]
    except OverflowError:
        return math.copysign(math.inf, x)


def bits_f16(b: int) -> float:
    return struct.unpack("<e", struct.pack("<H", b))[0]


def f16_bits(x: float) -> int:
    """bit pattern of the IEEE half nearest to x (ties to even; overflow -> infinity)"""
    try:
        return struct.unpack("<H", struct.pack("<e", x))[0]
    except OverflowError:
        return 0x7C00 | (0x8000 if x < 0 else 0)


def bits_bf16(b: int) -> float:
    return bits_f32(b << 16)   # bfloat16 = the upper half of a binary32


def bf16_bits(x: float) -> int:
    """bit pattern of the bfloat16 nearest to x (ties to even).  x -> binary32 -> bfloat16 would round twice;
    round-to-odd in the first step makes the second rounding the only one that matters."""
    if x != x:
        return 0x7FC0
    if math.isinf(x):
        return 0x7F80 | (0x8000 if x < 0 else 0)
    sign = 0x8000 if math.copysign(1.0, x) < 0 else 0
    a = abs(x)
    if a == 0.0:
        return sign
    m, e = math.frexp(a)            # a = m * 2**e, 0.5 <= m < 1
    e_unb = e - 1                   # a = (2m) * 2**e_unb, 1 <= 2m < 2
    if e_unb < -126:
        q = -126 - 7                # subnormal grid 2**-133
    else:
        q = e_unb - 7               # 8 significant bits
    from fractions import Fraction

    n = Fraction(a) / (Fraction(2) ** q)
    k = n.numerator // n.denominator
    r = n - k
    if r > Fraction(1, 2) or (r == Fraction(1, 2) and k & 1):
        k += 1
    val = Fraction(k) * (Fraction(2) ** q)
    if val >= Fraction(2) ** 128:
        return sign | 0x7F80
    f = float(val)                  # exact: at most 9 significant bits
    return sign | (struct.unpack("<I", struct.pack("<f", f))[0] >> 16)


def f32_bits(x: float) -> int:
    """bit pattern of the float32 nearest to x"""
    try:
        return struct.unpack("<I", struct.pack("<f", x))[0]
    except OverflowError:
        return 0x7F800000 | (0x80000000 if x < 0 else 0)


def int_to_float(x: int, mant: int) -> float:
    """correctly rounded (ties to even) conversion of an integer to a float with `mant` significand bits"""
    if x == 0:
        return 0.0
    s, a = (-1 if x < 0 else 1), abs(x)
    n = a.bit_length()
    if n > mant:
        sh = n - mant
        q, r = divmod(a, 1 << sh)
        half = 1 << (sh - 1)
        if r > half or (r == half and q & 1):
            q += 1
        a = q << sh
    return s * float(a)  # exact: at most `mant`+1 significant bits, magnitude < 2^65


class Poison(Exception):
    """poison produced or undefined behaviour executed: the input is outside the property"""


# ---------------------------------------------------------------------------------------------
# reference semantics of the source program
# ---------------------------------------------------------------------------------------------

def ref_bin(k: str, w: int, a: int, b: int, ovf: int, exact: int, disjoint: int) -> int:
    M = (1 << w) - 1
    lo, hi = -(1 << (w - 1)), (1 << (w - 1)) - 1
    nsw, nuw = ovf & 1, ovf & 2
    sa, sb = sx(a, w), sx(b, w)
    if k in ("add", "sub", "mul"):
        s = {"add": sa + sb, "sub": sa - sb, "mul": sa * sb}[k]
        u = {"add": a + b, "sub": a - b, "mul": a * b}[k]
        if nsw and not lo <= s <= hi:
            raise Poison
        if nuw and not 0 <= u <= M:
            raise Poison
        return u & M
    if k == "udiv":
        if b == 0:
            raise Poison
        if exact and a % b:
            raise Poison
        return a // b
    if k == "urem":
        if b == 0:
            raise Poison
        return a % b
    if k in ("sdiv", "srem"):
        if b == 0 or (sa == lo and sb == -1):
            raise Poison
        q = abs(sa) // abs(sb)
        if (sa < 0) != (sb < 0):
            q = -q
        r = sa - q * sb
        if k == "sdiv":
            if exact and r:
                raise Poison
            return q & M
        return r & M
    if k == "and":
        return a & b
    if k == "or":
        if disjoint and a & b:
            raise Poison
        return a | b
    if k == "xor":
        return a ^ b
    if b >= w:
        raise Poison
    if k == "shl":
        full = a << b
        r = full & M
        if nuw and full > M:
            raise Poison
        if nsw and (sx(r, w) >> b) != sa:
            raise Poison
        return r
    if exact and a & ((1 << b) - 1):
        raise Poison
    if k == "lshr":
        return a >> b
    if k == "ashr":
        return (sa >> b) & M
    raise Unsupported(k)


def ref_icmp(p: int, w: int, a: int, b: int) -> int:
    sa, sb = sx(a, w), sx(b, w)
    return int({"eq": a == b, "ne": a != b, "slt": sa < sb, "sle": sa <= sb, "sgt": sa > sb, "sge": sa >= sb,
                "ult": a < b, "ule": a <= b, "ugt": a > b, "uge": a >= b}[ICMP[p]])


def ref_fcmp(p: int, x: float, y: float) -> int:
    name = FCMP[p]
    if name == "_false":
        return 0
    if name == "_true":
        return 1
    uno = math.isnan(x) or math.isnan(y)
    if name == "ord":
        return int(not uno)
    if name == "uno":
        return int(uno)
    if uno:
        return int(name[0] == "u")
    return int({"eq": x == y, "gt": x > y, "ge": x >= y, "lt": x < y, "le": x <= y, "ne": x != y}[name[1:]])


def fval(ty: str, bits: int) -> float:
    if ty == "f32":
        return bits_f32(bits)
    if ty == "f64":
        return bits_f64(bits)
    if ty == "f16":
        return bits_f16(bits)
    if ty == "bf16":
        return bits_bf16(bits)
    raise Unsupported("no reference arithmetic for " + ty)


def fbits(ty: str, x: float) -> int:
    if ty == "f32":
        return f32_bits(x)
    if ty == "f64":
        return f64_bits(x)
    if ty == "f16":
        return f16_bits(x)
    if ty == "bf16":
        return bf16_bits(x)
    raise Unsupported("no reference arithmetic for " + ty)


MIN_NORMAL = {"f16": 2.0 ** -14, "bf16": 2.0 ** -126}


def narrow_result(ty: str, r: float) -> int:
    """result of an arithmetic operation in a 16-bit format.  LLVM computes these in binary32 and rounds back
    (exact for + - * / because 24 >= 2p+2); a result in the subnormal range of the format is excluded: the
    two-step rounding (and the hardware's bfloat16 conversion, which flushes) is not modelled there."""
    if ty in MIN_NORMAL and r == r and r != 0.0 and abs(r) < MIN_NORMAL[ty]:
        raise Poison
    return fbits(ty, r)


def ref_fbin(k: str, ty: str, a: int, b: int) -> int:
    x, y = fval(ty, a), fval(ty, b)
    if k == "fadd":
        r = x + y
    elif k == "fsub":
        r = x - y
    elif k == "fmul":
        r = x * y
    elif k == "fdiv":
        if y == 0.0:
            if x == 0.0 or math.isnan(x):
                r = math.nan
            else:
                r = math.copysign(math.inf, x) * math.copysign(1.0, y)
        else:
            r = x / y
    else:  # frem: C fmod
        if math.isnan(x) or math.isnan(y) or math.isinf(x) or y == 0.0:
            r = math.nan
        else:
            r = math.fmod(x, y)
    # double arithmetic on float32 operands followed by one rounding is the correctly rounded float32 result
    return narrow_result(ty, r)


def ref_cast(k: str, ft: str, tt: str, a: int, ovf: int, nneg: int) -> int:
    if k == "trunc":
        w, v = width(ft), width(tt)
        r = a & ((1 << v) - 1)
        if ovf & 1 and sx(r, v) != sx(a, w):
            raise Poison
        if ovf & 2 and r != a:
            raise Poison
        return r
    if k == "zext":
        if nneg and (a >> (width(ft) - 1)) & 1:
            raise Poison
        return a
    if k == "sext":
        return sx(a, width(ft)) & ((1 << width(tt)) - 1)
    if k == "bitcast":
        if not is_int(ft) and math.isnan(fval(ft, a)):
            raise Poison  # the payload of a NaN is not determined by the LLVM semantics: excluded
        return a
    if k == "sitofp":
        s = sx(a, width(ft))
        if tt in ("f16", "bf16"):
            if width(ft) > 16:
                raise Poison   # computed through binary32 by LLVM: two roundings, not modelled
            return fbits(tt, float(s))
        return f32_bits(int_to_float(s, 24)) if tt == "f32" else f64_bits(int_to_float(s, 53))
    if k == "fpext":
        return fbits(tt, fval(ft, a))   # exact: every value of the narrower format is one of the wider
    raise Unsupported(k)


def ref_run(prog: list, args: list[int], fuel: int = 400) -> tuple:
    """("val", ty, bits|"nan") | ("ub",) | ("timeout",) for the argument bit patterns `args`"""
    blocks = prog[2:]
    env: dict[int, tuple] = {}   # id -> (ty, bits) | ("ptr", alloc, off)
    mem: list[list[int | None]] = []
    cur, vals = 0, [(t, a) for (_, t), a in zip(blocks[0][1][1:], args)]
    try:
        for _ in range(fuel):
            blk = blocks[cur]
            bargs = blk[1][1:]
            if len(bargs) != len(vals):
                raise Poison
            for (i, _t), v in zip(bargs, vals):
                env[i] = v
            for op in blk[2:-1]:
                _ref_op(op, env, mem)
            t = blk[-1]
            if t[0] == "ret":
                ty, b = env[t[2]]
                if not is_int(ty) and math.isnan(fval(ty, b)):
                    return ("val", ty, "nan")
                return ("val", ty, b)
            if t[0] == "unreachable":
                raise Poison
            if t[0] == "br":
                cur, vals = t[1][0], [env[a] for a in t[1][1:]]
            else:
                c = env[t[1]][1]
                tv = [env[a] for a in t[2][1:]]
                ev = [env[a] for a in t[3][1:]]
                cur, vals = (t[2][0], tv) if c else (t[3][0], ev)
        return ("timeout",)
    except Poison:
        return ("ub",)


def _ref_op(op: list, env: dict, mem: list) -> None:
    k = op[0]
    if k == "const":
        _, r, ty, v = op
        env[r] = (ty, v & ((1 << width(ty)) - 1))
    elif k == "fconst":
        _, r, ty, d = op
        env[r] = (ty, d if ty == "f64" else fbits(ty, bits_f64(d)))
    elif k == "bin":
        _, kk, r, ty, a, b, ovf, ex, dj = op
        env[r] = (ty, ref_bin(kk, width(ty), env[a][1], env[b][1], ovf, ex, dj))
    elif k == "icmp":
        _, r, p, ty, a, b = op
        env[r] = ("i1", ref_icmp(p, width(ty), env[a][1], env[b][1]))
    elif k == "fbin":
        _, kk, r, ty, a, b = op
        env[r] = (ty, ref_fbin(kk, ty, env[a][1], env[b][1]))
    elif k == "fcmp":
        _, r, p, ty, a, b = op
        env[r] = ("i1", ref_fcmp(p, fval(ty, env[a][1]), fval(ty, env[b][1])))
    elif k == "fneg":
        _, r, ty, a = op
        env[r] = (ty, env[a][1] ^ (1 << (float_bits(ty) - 1)))
    elif k == "cast":
        _, kk, r, ft, tt, a, ovf, nn = op
        env[r] = (tt, ref_cast(kk, ft, tt, env[a][1], ovf, nn))
    elif k == "select":
        _, r, ty, c, a, b = op
        env[r] = env[a] if env[c][1] else env[b]
    elif k == "alloca":
        _, r, elem, _st, s = op
        mem.append([None] * (env[s][1] * size_of(elem)))
        env[r] = ("ptr", len(mem) - 1, 0)
    elif k == "gep":
        _, r, elem, p, idx, _inb = op
        if idx[0] == "c":
            i = sx(idx[1] & 0xFFFFFFFF, 32)
        else:
            i = sx(env[idx[1]][1], width(idx[2]))
        _, a, off = env[p]
        off2 = off + i * size_of(elem)
        if not 0 <= off2 <= len(mem[a]):
            raise Poison
        env[r] = ("ptr", a, off2)
    elif k == "load":
        _, r, ty, p = op
        _, a, off = env[p]
        n = size_of(ty)
        if off < 0 or off + n > len(mem[a]):
            raise Poison
        bs = mem[a][off:off + n]
        if any(b is None for b in bs):
            raise Poison
        v = int.from_bytes(bytes(bs), "little")
        if is_int(ty) and v >> width(ty):
            raise Poison
        env[r] = (ty, v)
    elif k == "store":
        _, ty, v, p = op
        _, a, off = env[p]
        n = size_of(ty)
        if off < 0 or off + n > len(mem[a]):
            raise Poison
        mem[a][off:off + n] = list(env[v][1].to_bytes(n, "little"))
    else:
        raise Unsupported(k)


# ---------------------------------------------------------------------------------------------
# program -> real xDSL IR
# ---------------------------------------------------------------------------------------------

def xty(ty: str):
    from xdsl.dialects import builtin, llvm

    if ty == "f32":
        return builtin.Float32Type()
    if ty == "f64":
        return builtin.Float64Type()
    if ty in FLOAT_FORMATS:
        return {"f16": builtin.Float16Type, "bf16": builtin.BFloat16Type, "f80": builtin.Float80Type,
                "f128": builtin.Float128Type}[ty]()
    if ty == "ptr":
        return llvm.LLVMPointerType()
    return builtin.IntegerType(width(ty))


def build(prog: list):
    """program -> builtin.module holding one llvm.func @f, built with the dialect's op classes"""
    from xdsl.dialects import builtin, llvm
    from xdsl.dialects.builtin import FloatAttr, IntegerAttr, UnitAttr
    from xdsl.ir import Block, Region

    ret_ty = prog[1][1]
    pblocks = prog[2:]
    blocks = [Block(arg_types=[xty(t) for _, t in b[1][1:]]) for b in pblocks]
    val: dict[int, Any] = {}
    for b, xb in zip(pblocks, blocks):
        for (i, _t), a in zip(b[1][1:], xb.args):
            val[i] = a
    binmap = {"add": llvm.AddOp, "sub": llvm.SubOp, "mul": llvm.MulOp, "udiv": llvm.UDivOp, "sdiv": llvm.SDivOp,
              "urem": llvm.URemOp, "srem": llvm.SRemOp, "and": llvm.AndOp, "or": llvm.OrOp, "xor": llvm.XOrOp,
              "shl": llvm.ShlOp, "lshr": llvm.LShrOp, "ashr": llvm.AShrOp}
    fbinmap = {"fadd": llvm.FAddOp, "fsub": llvm.FSubOp, "fmul": llvm.FMulOp, "fdiv": llvm.FDivOp,
               "frem": llvm.FRemOp}
    pending: list[tuple] = []   # ops are created in program order; uses of later definitions are patched
    for b, xb in zip(pblocks, blocks):
        for op in list(b[2:-1]) + [b[-1]]:
            pending.append((xb, op))
    # definitions first seen in list order; a use before its definition (permuted block lists) needs
    # the defining op to exist already, so ops are created in dependency order and inserted in place
    created: dict[int, Any] = {}
    order = list(range(len(pending)))
    done: set[int] = set()
    slots: dict[int, Any] = {}

    def uses(op: list) -> list[int]:
        k = op[0]
        if k in ("const", "fconst", "unreachable"):
            return []
        if k in ("bin", "fbin"):
            return [op[4], op[5]]
        if k in ("icmp", "fcmp"):
            return [op[4], op[5]]
        if k == "fneg":
            return [op[3]]
        if k == "cast":
            return [op[5]]
        if k == "select":
            return [op[3], op[4], op[5]]
        if k == "alloca":
            return [op[4]]
        if k == "load":
            return [op[3]]
        if k == "store":
            return [op[2], op[3]]
        if k == "gep":
            return [op[3]] + ([op[4][1]] if op[4][0] == "v" else [])
        if k == "ret":
            return [op[2]]
        if k == "br":
            return list(op[1][1:])
        if k == "condbr":
            return [op[1]] + list(op[2][1:]) + list(op[3][1:])
        raise Unsupported(k)

    def mk(op: list):
        k = op[0]
        if k == "const":
            _, r, ty, v = op
            return llvm.ConstantOp(IntegerAttr(v, xty(ty)), xty(ty))
        if k == "fconst":
            _, r, ty, d = op
            return llvm.ConstantOp(FloatAttr(bits_f64(d), xty(ty)), xty(ty))
        if k == "bin":
            _, kk, r, ty, a, b, ovf, ex, dj = op
            cls = binmap[kk]
            if kk in OVF_BINOPS:
                return cls(val[a], val[b], overflow=IntegerAttr(ovf, 32))
            if kk in EXACT_BINOPS:
                return cls(val[a], val[b], is_exact=UnitAttr() if ex else None)
            if kk == "or":
                return cls(val[a], val[b], is_disjoint=UnitAttr() if dj else None)
            return cls(val[a], val[b])
        if k == "icmp":
            _, r, p, ty, a, b = op
            return llvm.ICmpOp(val[a], val[b], IntegerAttr(p, 64))
        if k == "fbin":
            _, kk, r, ty, a, b = op
            return fbinmap[kk](val[a], val[b])
        if k == "fcmp":
            _, r, p, ty, a, b = op
            return llvm.FCmpOp(val[a], val[b], IntegerAttr(p, 64))
        if k == "fneg":
            _, r, ty, a = op
            return llvm.FNegOp(val[a])
        if k == "cast":
            _, kk, r, ft, tt, a, ovf, nn = op
            if kk == "trunc":
                flags = tuple(f for bit, f in ((1, llvm.OverflowFlag.NO_SIGNED_WRAP), (2, llvm.OverflowFlag.NO_UNSIGNED_WRAP)) if ovf & bit)
                return llvm.TruncOp(val[a], xty(tt), overflow=llvm.OverflowAttr(flags))
            if kk == "zext":
                return llvm.ZExtOp(val[a], xty(tt), non_neg=UnitAttr() if nn else None)
            if kk == "sext":
                return llvm.SExtOp(val[a], xty(tt))
            return {"bitcast": llvm.BitcastOp, "sitofp": llvm.SIToFPOp, "fpext": llvm.FPExtOp}[kk](val[a], xty(tt))
        if k == "select":
            _, r, ty, c, a, b = op
            return llvm.SelectOp(val[c], val[a], val[b])
        if k == "alloca":
            _, r, elem, st, s = op
            o = llvm.AllocaOp(val[s], xty(elem))
            del o.properties["alignment"]   # the constructor's default (32) is not what the parser produces
            return o
        if k == "load":
            _, r, ty, p = op
            return llvm.LoadOp(val[p], xty(ty))
        if k == "store":
            _, ty, v, p = op
            return llvm.StoreOp(val[v], val[p])
        if k == "gep":
            _, r, elem, p, idx, inb = op
            if idx[0] == "c":
                return llvm.GEPOp(val[p], [idx[1]], xty(elem), inbounds=bool(inb))
            return llvm.GEPOp(val[p], [llvm.GEP_USE_SSA_VAL], xty(elem), ssa_indices=[val[idx[1]]], inbounds=bool(inb))
        if k == "ret":
            return llvm.ReturnOp(val[op[2]])
        if k == "br":
            return llvm.BrOp(blocks[op[1][0]], *[val[a] for a in op[1][1:]])
        if k == "condbr":
            return llvm.CondBrOp(val[op[1]], blocks[op[2][0]], [val[a] for a in op[2][1:]],
                                 blocks[op[3][0]], [val[a] for a in op[3][1:]])
        if k == "unreachable":
            return llvm.UnreachableOp()
        raise Unsupported(k)

    def res_id(op: list) -> int | None:
        k = op[0]
        if k in ("const", "fconst", "icmp", "fcmp", "fneg", "select", "alloca", "load", "gep"):
            return op[1]
        if k in ("bin", "fbin", "cast"):
            return op[2]
        return None

    progress = True
    while len(done) < len(pending) and progress:
        progress = False
        for n in order:
            if n in done:
                continue
            _xb, op = pending[n]
            if all(u in val for u in uses(op)):
                o = mk(op)
                slots[n] = o
                r = res_id(op)
                if r is not None:
                    val[r] = o.results[0]
                done.add(n)
                progress = True
    if len(done) < len(pending):
        raise Unsupported("cyclic use-def")
    for n in order:
        pending[n][0].add_op(slots[n])
    ptys = [xty(t) for _, t in pblocks[0][1][1:]]
    fn = llvm.FuncOp("f", llvm.LLVMFunctionType(ptys, xty(ret_ty)), linkage=llvm.LinkageAttr("external"),
                     body=Region(blocks))
    return builtin.ModuleOp([fn])


# ---------------------------------------------------------------------------------------------
# real xDSL IR -> program
# ---------------------------------------------------------------------------------------------

def pty(t) -> str:
    from xdsl.dialects import builtin, llvm

    if isinstance(t, builtin.IntegerType):
        return f"i{t.width.data}"
    if isinstance(t, builtin.Float32Type):
        return "f32"
    if isinstance(t, builtin.Float64Type):
        return "f64"
    for name, cls in (("f16", builtin.Float16Type), ("bf16", builtin.BFloat16Type), ("f80", builtin.Float80Type),
                      ("f128", builtin.Float128Type)):
        if type(t) is cls:
            return name
    if isinstance(t, llvm.LLVMPointerType):
        return "ptr"
    raise Unsupported(str(t))


def extract(module) -> list:
    """the single llvm.func of `module` as a program; raises Unsupported outside the subset"""
    from xdsl.dialects import llvm
    from xdsl.dialects.builtin import FloatAttr, IntegerAttr

    funcs = [o for o in module.ops if isinstance(o, llvm.FuncOp)]
    if len(funcs) != 1 or len(list(module.ops)) != 1:
        raise Unsupported("expected exactly one llvm.func")
    fn = funcs[0]
    blocks = list(fn.body.blocks)
    bidx = {id(b): i for i, b in enumerate(blocks)}
    ids: dict[int, int] = {}
    keep: list[Any] = []

    def vid(v) -> int:
        k = id(v)
        if k not in ids:
            ids[k] = len(ids)
            keep.append(v)
        return ids[k]

    for b in blocks:
        for a in b.args:
            vid(a)
    for b in blocks:
        for o in b.ops:
            for r in o.results:
                vid(r)
    binname = {llvm.AddOp: "add", llvm.SubOp: "sub", llvm.MulOp: "mul", llvm.UDivOp: "udiv", llvm.SDivOp: "sdiv",
               llvm.URemOp: "urem", llvm.SRemOp: "srem", llvm.AndOp: "and", llvm.OrOp: "or", llvm.XOrOp: "xor",
               llvm.ShlOp: "shl", llvm.LShrOp: "lshr", llvm.AShrOp: "ashr"}
    fbinname = {llvm.FAddOp: "fadd", llvm.FSubOp: "fsub", llvm.FMulOp: "fmul", llvm.FDivOp: "fdiv",
                llvm.FRemOp: "frem"}
    castname = {llvm.TruncOp: "trunc", llvm.ZExtOp: "zext", llvm.SExtOp: "sext", llvm.BitcastOp: "bitcast",
                llvm.SIToFPOp: "sitofp", llvm.FPExtOp: "fpext"}
    out: list = ["func", ["ret", pty(fn.function_type.output)]]
    for b in blocks:
        pb: list = ["block", ["args"] + [[vid(a), pty(a.type)] for a in b.args]]
        for o in b.ops:
            t = type(o)
            if t is llvm.ConstantOp:
                rt = pty(o.result.type)
                if isinstance(o.value, IntegerAttr) and is_int(rt):
                    pb.append(["const", vid(o.result), rt, o.value.value.data])
                elif isinstance(o.value, FloatAttr) and rt in FLOAT_FORMATS:
                    pb.append(["fconst", vid(o.result), rt, f64_bits(float(o.value.value.data))])
                else:
                    raise Unsupported("constant")
            elif t in binname:
                k = binname[t]
                ovf = o.overflowFlags.value.data if k in OVF_BINOPS and o.overflowFlags is not None else 0
                ex = int(k in EXACT_BINOPS and o.is_exact is not None)
                dj = int(k == "or" and o.is_disjoint is not None)
                pb.append(["bin", k, vid(o.res), pty(o.res.type), vid(o.lhs), vid(o.rhs), ovf, ex, dj])
            elif t is llvm.ICmpOp:
                pb.append(["icmp", vid(o.res), o.predicate.value.data, pty(o.lhs.type), vid(o.lhs), vid(o.rhs)])
            elif t in fbinname:
                if o.fastmathFlags.data:
                    raise Unsupported("fastmath")
                pb.append(["fbin", fbinname[t], vid(o.res), pty(o.res.type), vid(o.lhs), vid(o.rhs)])
            elif t is llvm.FCmpOp:
                pb.append(["fcmp", vid(o.res), o.predicate.value.data, pty(o.lhs.type), vid(o.lhs), vid(o.rhs)])
            elif t is llvm.FNegOp:
                pb.append(["fneg", vid(o.res), pty(o.res.type), vid(o.arg)])
            elif t in castname:
                k = castname[t]
                ovf, nn = 0, 0
                if k == "trunc" and o.overflowFlags is not None:
                    ovf = o.overflowFlags.to_int()
                if k == "zext":
                    nn = int(o.non_neg is not None)
                arg = o.operands[0]
                pb.append(["cast", k, vid(o.results[0]), pty(arg.type), pty(o.results[0].type), vid(arg), ovf, nn])
            elif t is llvm.SelectOp:
                pb.append(["select", vid(o.res), pty(o.res.type), vid(o.cond), vid(o.lhs), vid(o.rhs)])
            elif t is llvm.AllocaOp:
                if o.alignment is not None:
                    raise Unsupported("alloca alignment")
                pb.append(["alloca", vid(o.res), pty(o.elem_type), pty(o.size.type), vid(o.size)])
            elif t is llvm.LoadOp:
                if o.alignment is not None or o.ordering.value.data != 0:
                    raise Unsupported("load attributes")
                pb.append(["load", vid(o.dereferenced_value), pty(o.dereferenced_value.type), vid(o.ptr)])
            elif t is llvm.StoreOp:
                if o.alignment is not None or o.volatile_ is not None or o.nontemporal is not None or \
                        (o.ordering is not None and o.ordering.value.data != 0):
                    raise Unsupported("store attributes")
                pb.append(["store", pty(o.value.type), vid(o.value), vid(o.ptr)])
            elif t is llvm.GEPOp:
                raw = list(o.rawConstantIndices.iter_values())
                if len(raw) != 1:
                    raise Unsupported("gep with several indices")
                if raw[0] == llvm.GEP_USE_SSA_VAL:
                    iv = o.ssa_indices[0]
                    idx = ["v", vid(iv), pty(iv.type)]
                else:
                    idx = ["c", raw[0]]
                pb.append(["gep", vid(o.result), pty(o.elem_type), vid(o.ptr), idx, int(o.inbounds is not None)])
            elif t is llvm.ReturnOp:
                if o.arg is None:
                    raise Unsupported("void return")
                pb.append(["ret", pty(o.arg.type), vid(o.arg)])
            elif t is llvm.BrOp:
                pb.append(["br", [bidx[id(o.successor)]] + [vid(a) for a in o.arguments]])
            elif t is llvm.CondBrOp:
                pb.append(["condbr", vid(o.cond),
                           [bidx[id(o.then_block)]] + [vid(a) for a in o.then_arguments],
                           [bidx[id(o.else_block)]] + [vid(a) for a in o.else_arguments]])
            elif t is llvm.UnreachableOp:
                pb.append(["unreachable"])
            else:
                raise Unsupported(o.name)
        out.append(pb)
    return out
