"""C20 — parallel-move lowering performs a simultaneous assignment.

Real code: `riscv.ParallelMovOp` built in a module, lowered by `RISCVLowerParallelMovPass`; the
emitted `mv / fmv.s / fmv.d / xor` list is executed on a register machine over GF(2)-sets of the
initial register contents (`zero` reads 0 and discards writes).  Lean: `XdslModel/ParallelMov.lean`
(the algorithm) and `XdslProofs/C20*.lean` (register machine, validator `checkSeq`, theorems).
"""
from __future__ import annotations

import itertools
import multiprocessing as mp
import os
from typing import Any, Iterable, Iterator

from vp import core

CALL_SITE = "xdsl.transforms.riscv_lower_parallel_mov.ParallelMovPattern.match_and_rewrite"

META = {
    "title": "Parallel-move lowering performs a simultaneous assignment",
    "category": "proof",
    "design_ref": "DESIGN.md §5 C20",
    "lean_modules": ["XdslProofs.C20", "XdslProofs.C20Algo", "XdslProofs.C20Rename"],
    "text": (
        "Lean: XdslModel/ParallelMov.lean is the lowering algorithm of riscv_lower_parallel_mov.py (with the repairs of "
        "fix_1.patch) over (kind, index) registers with Python's iteration order made explicit, plus a register machine "
        "(zero reads 0, discards writes) and the symbolic validator checkSeq.  XdslProofs/C20Algo.lean proves, for every "
        "well-formed move list (non-zero destinations distinct; any mix of chains, fan-outs, cycles, self-moves, moves "
        "from/into zero, both kinds), every free list and every register file of every width: `pmov_correct` — whenever the "
        "lowering succeeds the emitted sequence leaves each destination with its source's old content and changes nothing "
        "outside destinations ∪ designated free registers (tree stage with out-edge counters, cycles through a free "
        "register, xor-swap chains: all at full strength); `pmov_fail_only` — on allocated registers with supported widths "
        "the lowering never gets stuck (no assert/KeyError/runaway loop) and fails only with 'Float cyclic move without "
        "free register', only when no float register is designated free and the float moves contain a cycle; "
        "`pmov_succeeds` — hence it succeeds and is correct for all integer moves and whenever a float register is free.  "
        "XdslProofs/C20.lean proves `checkSeq_sound` (symbolic execution over xor-sets of initial registers accepts ⇒ the "
        "sequence realises the assignment for all register files).  XdslProofs/C20Rename.lean proves "
        "`pmov_placement_invariant` (the lowering commutes with every injective renaming of the registers that keeps "
        "register file and allocation and maps exactly zero to zero: registers matter only through their identity, and "
        "zero = (int, 0) is the only one singled out) and `pmov_float_index0_ordinary` (ft0, which shares index 0 with zero, "
        "is exchangeable with any float register).  Tie to /repo: every enumerated move graph is lowered "
        "by the real pass and by the model, in the base placement and in placements chosen to separate registers that a "
        "wrong comparison would conflate (a float register at index 0, one index in both register files, infinite "
        "registers, zero spelled x0, numeric spellings, random placements over both whole register files); protocol tokens "
        "are physical registers (register file, index), so the model's zero/(flt,0) are literally the pass's zero/ft0; op "
        "lists and result wiring must be equal; the real op list is executed by an "
        "independent Python register machine (direct oracle) and certified by the proved checkSeq inside the Lean driver."
    ),
    "technique": "Lean 4 proof (algorithm model + proved validator) + exhaustive small-scope differential correspondence with the real pass",
    "level_note": (
        "Quantifier covered by enumeration: ordered move lists over ≤4 integer registers + zero (zero as source, and as "
        "destination up to twice — thorough: 4 registers with ≤2 moves into zero, every free list, both SSA modes; quick: 4 "
        "registers with ≤1 / 3 registers with ≤2 moves into zero, for lists of ≥4 moves one free list and every third "
        "distinct-SSA variant drawn by the seed), ≤3 float registers with all width patterns, all interleavings of small "
        "integer and float graphs, graph nodes numbered canonically by first appearance (thorough additionally runs all "
        "labelled variants for ≤3 registers) and placed at i1..i6 = ra..t1 / f1..f5 = ft1..ft5 (base placement); naming "
        "variants of the same cases (`naming_variants`): float family and (thorough) mixed cases over ≤2+2 registers — each "
        "float register in turn at ft0, all-numeric spelling x<k>/f<k>, all registers infinite (j_<n>/fj_<n>), zero spelled "
        "x0, one random placement over both whole register files biased to float registers sharing their index with zero or "
        "with an integer register of the case, random spellings (x<k>, f<k>, fp); quick mixed family — one float register at "
        "ft0 + one random placement per case (thorough, larger mixed graphs: seeded samples 1/8, 1/16, 1/50); integer "
        "family — zero spelled x0 for every graph over ≤3 registers with ≤1 move into zero (thorough: all over ≤3 registers "
        "+ 1/100), random placement + infinite registers for every ~25th (thorough ~200th) case and every regression case.  `pmov_placement_invariant` is the model-side reason why placements beyond "
        "these cannot matter.  Free lists of 0/1/2 designated "
        "registers per kind, widths 32/64 per source register, operands as one shared SSA value per source register or one "
        "SSA value per operand; plus a small malformed stream (unallocated registers, unsupported widths → diagnostic "
        "failure expected).  The Lean theorems hold for all move lists, not only the enumerated ones.  Excluded: designated "
        "free registers that are also sources or destinations of the same parallel move or the zero register (a free "
        "register holds no live value and is available for the whole move; hypothesis `WF.freeOk` of the theorems); one "
        "source register used at two different widths.  A PassFailedException is accepted exactly when the float moves "
        "contain a cycle of length ≥2 and no float register is designated free (DESIGN §5 `pmov_fail_only`); the stricter "
        "reading 'failure only if no correct sequence over mv/fmv/xor exists at all' is evaluated too and counted in the "
        "evidence (`fail_but_sequence_exists`, e.g. a float cycle with a tail) without being reported as a violation, "
        "because the statement only requires a failure report when no sequence can be produced; Lean records the gap as "
        "`pmov_fail_not_necessary_counterexample`.  Beyond the statement the oracle also requires that each result of the "
        "op is replaced by the last definition of its destination register and that fmv.s/fmv.d match the declared width.  "
        "Trusted: Lean kernel; hand model ParallelMov.lean (tied by correspondence); this file's IR builder/reader; "
        "mv/fmv.s/fmv.d/xor semantics as register copy / bitwise xor; the register machine is defined inside "
        "XdslModel/ParallelMov.lean (not shared with C19)."
    ),
    "rule": (
        "case = (ordered move list, width per source register, free list, SSA mode).  Non-trivial = the move graph "
        "(self-moves and moves into zero removed) has a cycle of length ≥2 or a register with ≥2 outgoing moves or a chain "
        "of length ≥2.  Distinct = distinct case tuple."
    ),
    "trusted_base": [
        "correspondence harness harness/props/c20.py (IR builder, op reader, Python register machine)",
        "hand-written Lean model XdslModel/ParallelMov.lean of riscv_lower_parallel_mov.py",
    ],
    "budget": {"quick": 150, "thorough": 1300},
}

# ---------------------------------------------------------------------------------------------
# Registers.  Token = kind letter + PHYSICAL register number: `i<k>` / `f<k>` with k < 32 is the
# register of index k of the integer / float register file (i0 = the hard-wired zero, i10 = a0,
# f0 = ft0, f10 = fa0, …), k >= 32 is the "infinite" register j_<k-32> / fj_<k-32> (xDSL index
# ~(k-32) < 0).  iu / fu = unallocated (malformed stream).  The Lean model works on the same
# (kind, number) pairs, so `Reg.zero = (int, 0)`, `(flt, 0)` = ft0 etc. are literally the registers
# the real pass sees.  A register is spelled with its ABI name unless the case's `names` component
# gives another spelling of the SAME physical register (x<k> / f<k>, `fp` for s0); one spelling per
# physical register and case.  Names come from this file's own tables (not from the code under
# test); `_type_tok` reads a real register type back by (class, index).
# ---------------------------------------------------------------------------------------------
INT_ABI = ["zero", "ra", "sp", "gp", "tp", "t0", "t1", "t2", "s0", "s1"] + [f"a{k}" for k in range(8)] \
    + [f"s{k}" for k in range(2, 12)] + [f"t{k}" for k in range(3, 7)]
FLT_ABI = [f"ft{k}" for k in range(8)] + ["fs0", "fs1"] + [f"fa{k}" for k in range(8)] \
    + [f"fs{k}" for k in range(2, 12)] + [f"ft{k}" for k in range(8, 12)]
assert len(INT_ABI) == 32 and len(FLT_ABI) == 32
NFINITE = 32


def tok_name(tok: str, names: tuple = ()) -> str | None:
    """assembly name of a token (None = unallocated)"""
    if tok[1:] == "u":
        return None
    for t, n in names:
        if t == tok:
            return n
    k = int(tok[1:])
    if k >= NFINITE:
        return ("j_" if tok[0] == "i" else "fj_") + str(k - NFINITE)
    return INT_ABI[k] if tok[0] == "i" else FLT_ABI[k]


def numeric_name(tok: str) -> str:
    """the x<k> / f<k> spelling of a finite register"""
    return ("x" if tok[0] == "i" else "f") + tok[1:]


Case = tuple  # (moves: tuple[(src, dst)], widths: tuple[int] per move, free: tuple[str], ssa: "shared"|"distinct"
#                [, names: tuple[(token, spelling)]])


def case_names(c: Case) -> tuple:
    return c[4] if len(c) > 4 else ()


def case_json(c: Case) -> dict[str, Any]:
    d = {"moves": [list(m) for m in c[0]], "widths": list(c[1]), "free": list(c[2]), "ssa": c[3]}
    if case_names(c):
        d["names"] = [list(x) for x in case_names(c)]
    regs = sorted({t for m in c[0] for t in m} | set(c[2]))
    d["registers"] = {t: tok_name(t, case_names(c)) for t in regs}  # informative only
    return d


def case_from_json(d: dict[str, Any]) -> Case:
    base = (tuple(tuple(m) for m in d["moves"]), tuple(d["widths"]), tuple(d["free"]), d.get("ssa", "shared"))
    names = tuple(tuple(x) for x in d.get("names", []))
    return base + (names,) if names else base


def case_line(c: Case) -> str:
    mv = " ".join(f"{s}>{d}:{w}" for (s, d), w in zip(c[0], c[1]))
    return f"pmov {mv} | {' '.join(c[2])}".rstrip()


# ---------------------------------------------------------------------------------------------
# Real-code adapter
# ---------------------------------------------------------------------------------------------
_OPK = {"riscv.mv": "mv", "riscv.fmv.s": "fmv32", "riscv.fmv.d": "fmv64", "riscv.xor": "xor"}


def _reg_type_named(tok: str, names: tuple = ()):
    from xdsl.dialects import riscv

    cls = riscv.IntRegisterType if tok[0] == "i" else riscv.FloatRegisterType
    n = tok_name(tok, names)
    return cls.unallocated() if n is None else cls.from_name(n)


def _type_tok(t) -> str:
    """physical identity of a real register type: (register class, index)"""
    from xdsl.dialects import riscv
    from xdsl.dialects.builtin import IntAttr

    k = "i" if isinstance(t, riscv.IntRegisterType) else "f"
    if not isinstance(t.index, IntAttr):
        return k + "u"
    i = t.index.data
    return k + str(i if i >= 0 else NFINITE + ~i)


def impl_run(c: Case) -> str:
    """Run the real pass on the case, return the canonical observation line."""
    from xdsl.context import Context
    from xdsl.dialects import riscv, test
    from xdsl.dialects.builtin import ArrayAttr, DenseArrayBase, ModuleOp, i32
    from xdsl.transforms.riscv_lower_parallel_mov import RISCVLowerParallelMovPass
    from xdsl.utils.exceptions import PassFailedException

    moves, widths, free, ssa = c[:4]
    spell = case_names(c)
    _reg_type = lambda t: _reg_type_named(t, spell)  # noqa: E731
    if ssa == "shared":
        names: list[str] = []
        for s, _ in moves:
            if s not in names:
                names.append(s)
        prod = test.TestOp(result_types=[_reg_type(s) for s in names])
        srcvals = [prod.results[names.index(s)] for s, _ in moves]
    else:
        prod = test.TestOp(result_types=[_reg_type(s) for s, _ in moves])
        srcvals = list(prod.results)
    pm = riscv.ParallelMovOp(
        srcvals,
        [_reg_type(d) for _, d in moves],
        DenseArrayBase.from_list(i32, list(widths)),
        ArrayAttr([_reg_type(f) for f in free]) if free else None,
    )
    use = test.TestOp(operands=list(pm.results))
    module = ModuleOp([prod, pm, use])
    try:
        module.verify()
    except Exception as e:  # noqa: BLE001
        return "invalid " + core.exc_name(e)
    try:
        RISCVLowerParallelMovPass().apply(Context(), module)
    except PassFailedException as e:
        msg = str(e)
        if "Float cyclic move without free register" in msg:
            return "fail float-cycle"
        if "All registers must be allocated" in msg:
            return "fail unallocated"
        if "Unsupported bit width" in msg:
            return "fail width"
        return "fail other"
    except Exception as e:  # noqa: BLE001
        return "raise " + core.exc_name(e)
    ops = [o for o in module.body.block.ops if o is not prod and o is not use]
    index = {id(o): k for k, o in enumerate(ops)}
    parts = []
    for o in ops:
        k = _OPK.get(o.name)
        if k is None:
            return "raise UnexpectedOp:" + o.name
        parts.append(":".join([k, _type_tok(o.results[0].type), *[_type_tok(x.type) for x in o.operands]]))
    res = []
    for v in use.operands:
        if v.owner is prod:
            res.append("s:" + _type_tok(v.type))
        elif id(v.owner) in index:
            res.append(f"o{index[id(v.owner)]}")
        else:
            res.append("?")
    try:
        module.verify()
    except Exception as e:  # noqa: BLE001
        return "raise VerifyAfter:" + core.exc_name(e)
    return ("ok " + " ".join(parts)).rstrip() + " | " + " ".join(res)


class _Watchdog(BaseException):
    pass


def _alarm(signum, frame):  # type: ignore[no-untyped-def]
    raise _Watchdog()


def impl_run_guarded(c: Case, limit: float = 20.0) -> str:
    """`impl_run` under a wall-clock watchdog (a normal case takes ~1 ms)."""
    import signal

    old = signal.signal(signal.SIGALRM, _alarm)
    try:
        try:
            signal.setitimer(signal.ITIMER_REAL, limit)
            try:
                return impl_run(c)
            finally:
                signal.setitimer(signal.ITIMER_REAL, 0)
        except (_Watchdog, MemoryError):
            import gc

            gc.collect()  # free the runaway IR now, not inside the next case's watchdog window
            return "raise NonTermination" if limit >= 20.0 else "timeout"
    finally:
        signal.signal(signal.SIGALRM, old)


def _worker(chunk: list[Case]) -> list[tuple[str, Any]]:
    """(observation, oracle verdict) per case; the oracle runs here only to use all cores"""
    impl_run(((("i1", "i2"),), (32,), (), "shared"))  # warm the imports before the short watchdog
    out = []
    for c in chunk:
        o = impl_run_guarded(c, 0.5)
        out.append((o, oracle(c, o)))
    return out


def _confirm(c: Case) -> str:
    return impl_run_guarded(c, 20.0)


def _retry(c: Case) -> str:
    return impl_run_guarded(c, 2.0)


def resolve_timeouts(pool, cases: list[Case], obs: list[str]) -> None:
    """Observations `timeout` (0.5 s watchdog; a normal case takes ~1 ms) are re-run: the three smallest
    with a 20 s limit (→ `raise NonTermination` when they really do not stop), the others with 2 s;
    what still times out keeps the label `timeout` (excluded from the oracle, counted)."""
    idx = sorted((i for i, o in enumerate(obs) if o == "timeout"), key=lambda i: (len(cases[i][0]), i))
    if not idx:
        return
    rest = idx[3:] if len(idx) <= 60 else []  # many timeouts: a real loop, do not pay 2 s for each
    for i, o in zip(rest, pool.map(_retry, [cases[i] for i in rest], chunksize=4)):
        obs[i] = o
    first = idx[:3]
    for i, o in zip(first, pool.map(_confirm, [cases[i] for i in first], chunksize=1)):
        obs[i] = o


# ---------------------------------------------------------------------------------------------
# Direct oracle: register machine over GF(2)-sets of initial register contents
# ---------------------------------------------------------------------------------------------

def parse_obs(obs: str):
    body, _, res = obs[3:].partition("|")
    ops = [tuple(p.split(":")) for p in body.split()]
    return ops, res.split()


def exec_ops(ops: Iterable[tuple], regs: Iterable[str]) -> tuple[dict[str, frozenset], list[str]]:
    st: dict[str, frozenset] = {r: frozenset([r]) for r in regs}
    st["i0"] = frozenset()
    notes: list[str] = []
    for op in ops:
        k, rd, rs = op[0], op[1], op[2:]
        for r in (rd, *rs):
            st.setdefault(r, frozenset([r]) if r != "i0" else frozenset())
        if k == "mv":
            if rd[0] != "i" or rs[0][0] != "i":
                notes.append("mv on non-integer register")
            v = st[rs[0]]
        elif k in ("fmv32", "fmv64"):
            if rd[0] != "f" or rs[0][0] != "f":
                notes.append("fmv on non-float register")
            v = st[rs[0]]
        elif k == "xor":
            if any(r[0] != "i" for r in (rd, *rs)):
                notes.append("xor on non-integer register")
            v = st[rs[0]] ^ st[rs[1]]
        else:
            notes.append("unknown op " + k)
            continue
        if rd != "i0":
            st[rd] = v
    return st, notes


def graph_facts(c: Case) -> dict[str, Any]:
    """Shape facts of the move graph with self-moves and moves into zero removed."""
    moves = [(s, d) for s, d in c[0] if s != d and d != "i0"]
    pred = {d: s for s, d in moves}
    cyc = {"i": False, "f": False}
    for d in pred:
        x, n = d, 0
        while x in pred and n <= len(pred):
            x = pred[x]
            n += 1
            if x == d:
                cyc[d[0]] = True
                break
    outdeg: dict[str, int] = {}
    for s, _ in moves:
        outdeg[s] = outdeg.get(s, 0) + 1
    chain = any(s in pred for s, _ in moves)
    return {"cycle": cyc, "fanout": any(v >= 2 for v in outdeg.values()), "chain": chain,
            "nontrivial": cyc["i"] or cyc["f"] or any(v >= 2 for v in outdeg.values()) or chain}


def sequence_exists(c: Case) -> bool:
    """Is there any correct sequence over {mv, fmv, xor(int)} writing only destinations ∪ free?
    Integer: always (xor swaps).  Float: unless every float move is a self-move there must be a
    writable float register whose old value nobody needs, i.e. one that is not a source."""
    fm = [(s, d) for s, d in c[0] if s[0] == "f"]
    if all(s == d for s, d in fm):
        return True
    srcs = {s for s, _ in fm}
    writable = {d for _, d in fm} | {f for f in c[2] if f[0] == "f"}
    return any(r not in srcs for r in writable)


def float_seq_exists_bruteforce(fm: list[tuple[str, str]], free: list[str]) -> bool:
    """BFS over all fmv sequences (independent check of `sequence_exists` on small cases)."""
    regs = sorted({r for m in fm for r in m} | set(free))
    writable = [r for r in regs if r in {d for _, d in fm} or r in free]
    goal = {d: s for s, d in fm}
    keep = [r for r in regs if r not in writable]
    start = tuple(regs)
    seen, todo = {start}, [start]
    while todo:
        st = todo.pop()
        cur = dict(zip(regs, st))
        if all(cur[d] == s for d, s in goal.items()) and all(cur[r] == r for r in keep):
            return True
        for d in writable:
            for s in regs:
                if s != d:
                    nxt = tuple(cur[s] if r == d else cur[r] for r in regs)
                    if nxt not in seen:
                        seen.add(nxt)
                        todo.append(nxt)
    return False


def oracle(c: Case, obs: str) -> tuple[str, str] | None:
    """None when the property holds on this observation, else (signature, description).
    The signature carries coarse tags of the input region so that independent defects get
    independent minimal cases."""
    r = oracle_untagged(c, obs)
    if r is None:
        return None
    tags = []
    x0 = " (spelled x0)" if any(t == "i0" for t, _ in case_names(c)) else ""
    if any(d == "i0" and s != d for s, d in c[0]):
        tags.append("move into zero" + x0)
    elif any(s == "i0" and s != d for s, d in c[0]):
        tags.append("zero as source" + x0)
    if c[3] == "distinct" and len({s for s, _ in c[0]}) < len(c[0]):
        tags.append("several SSA values in one source register")
    if any("f0" in m and m[0] != m[1] for m in c[0]):
        tags.append("float register of index 0")
    if obs.startswith("ok") and "xor:" in obs:
        tags.append("xor swaps")
    return (r[0] + (" [" + "; ".join(tags) + "]" if tags else ""), r[1])


# oracle findings that concern the SSA result wiring / op selection, not the register-file semantics
# that the Lean validator `checkSeq` decides
NON_SEMANTIC = {
    "result count differs from operand count",
    "result replaced by a foreign value",
    "result value lives in a register other than the destination",
    "result value is not the last definition of its register",
    "float move of the wrong width",
}


def oracle_untagged(c: Case, obs: str) -> tuple[str, str] | None:
    moves, widths, free = c[:3]
    facts = graph_facts(c)
    if obs.startswith("invalid") or obs == "timeout":
        return None  # the generated op did not verify: outside the quantifier (counted); `timeout` = see resolve_timeouts
    if obs == "raise NonTermination":
        return ("pass does not terminate", "the pass was still emitting instructions after 20 s (a normal case takes ~1 ms)")
    if obs.startswith("raise"):
        return ("exception other than PassFailedException: " + obs.split()[1],
                f"the pass raised {obs.split()[1]} on a verified parallel move")
    if obs.startswith("fail"):
        why = obs.split()[1]
        if why == "float-cycle" and facts["cycle"]["f"] and not any(f[0] == "f" for f in free):
            return None
        if why == "unallocated" and any(t[1:] == "u" for m in moves for t in m):
            return None
        if why == "width" and any(w not in (32, 64) for w in widths):
            return None
        return ("pass failure without a float cycle lacking a free float register",
                f"PassFailedException ({why}) although "
                + ("a float register is designated free" if facts["cycle"]["f"] else "the float moves contain no cycle"))
    ops, res = parse_obs(obs)
    regs = {t for m in moves for t in m} | set(free)
    st, notes = exec_ops(ops, regs)
    if notes:
        return ("ill-kinded instruction emitted", notes[0])
    if len(res) != len(moves):
        return ("result count differs from operand count", f"{len(res)} results for {len(moves)} moves")
    # where does the consumer of output i read?  in the register of the value that replaced it
    last_writer: dict[str, int] = {}
    for k, op in enumerate(ops):
        last_writer[op[1]] = k
    for i, ((s, d), r) in enumerate(zip(moves, res)):
        if r.startswith("o"):
            k = int(r[1:])
            rreg = ops[k][1]
            live = last_writer.get(rreg) == k
        elif r.startswith("s:"):
            rreg = r[2:]
            live = rreg not in last_writer or rreg == "i0"
        else:
            return ("result replaced by a foreign value", f"output {i} replaced by {r}")
        if rreg != d:
            return ("result value lives in a register other than the destination",
                    f"output {i} ({s}->{d}) was replaced by a value in {rreg}")
        if d == "i0":
            continue  # writes to zero are discarded; nothing can be demanded of it
        want = frozenset() if s == "i0" else frozenset([s])
        if st[d] != want:
            return ("destination holds a wrong value",
                    f"after the emitted sequence {d} holds {sorted(st[d])}, its source {s} held {sorted(want)}")
        if not live:
            return ("result value is not the last definition of its register",
                    f"output {i} ({s}->{d}) was replaced by {r}, which a later emitted instruction overwrites")
    dsts = {d for _, d in moves}
    for r, v in st.items():
        if r == "i0" or r in dsts or r in free:
            continue
        if v != frozenset([r]):
            return ("register outside destinations and free registers clobbered",
                    f"{r} is neither a destination nor designated free but holds {sorted(v)} afterwards")
    # float widths: a copy of the value that source register s held must use s's width
    width_of = {s: w for (s, _), w in zip(moves, widths)}
    st2: dict[str, frozenset] = {r: frozenset([r]) for r in regs}
    st2["i0"] = frozenset()
    for op in ops:
        if op[0] in ("fmv32", "fmv64"):
            v = st2.get(op[2], frozenset([op[2]]))
            if len(v) == 1:
                (s0,) = v
                if s0 in width_of and width_of[s0] != int(op[0][3:]):
                    return ("float move of the wrong width",
                            f"{op[0]} copies the value of {s0}, declared {width_of[s0]} bits wide")
        st2 = _step(st2, op)
    return None


def _step(st: dict[str, frozenset], op: tuple) -> dict[str, frozenset]:
    k, rd, rs = op[0], op[1], op[2:]
    get = lambda r: st.get(r, frozenset() if r == "i0" else frozenset([r]))  # noqa: E731
    v = get(rs[0]) ^ get(rs[1]) if k == "xor" else get(rs[0])
    if rd != "i0":
        st = dict(st)
        st[rd] = v
    return st


# ---------------------------------------------------------------------------------------------
# Enumeration
# ---------------------------------------------------------------------------------------------

def kind_graphs(nregs: int, zmax: int, has_zero: bool, maxmoves: int | None = None) -> list[tuple]:
    """Ordered move lists (src, dst) over registers 1..nregs (0 = zero when `has_zero`): non-zero
    destinations distinct, destination zero at most `zmax` times, registers numbered by first
    appearance (dst before src within a move)."""
    out: list[tuple] = []

    def rec(moves: list, used: frozenset, nz: int, nxt: int) -> None:
        out.append(tuple(moves))
        if maxmoves is not None and len(moves) >= maxmoves:
            return
        dsts = [d for d in range(1, min(nxt, nregs) + 1) if d not in used]
        if has_zero and nz < zmax:
            dsts.append(0)
        for d in dsts:
            nr = max(nxt, d + 1) if d else nxt
            srcs = list(range(1, min(nr, nregs) + 1)) + ([0] if has_zero else [])
            for s in srcs:
                nr2 = max(nr, s + 1) if s else nr
                rec(moves + [(s, d)], used | ({d} if d else frozenset()), nz + (d == 0), nr2)

    rec([], frozenset(), 0, 1)
    return out


def labelled_graphs(nregs: int, has_zero: bool) -> Iterator[tuple]:
    """All ordered move lists with arbitrary register names (no canonical numbering), zero at most once as dst."""
    regs = list(range(1, nregs + 1))
    for k in range(0, nregs + 1):
        for dsts in itertools.permutations(regs + ([0] if has_zero else []), k):
            for srcs in itertools.product(regs + ([0] if has_zero else []), repeat=k):
                yield tuple(zip(srcs, dsts))


def merges(a: tuple, b: tuple) -> Iterator[tuple]:
    """all order-preserving interleavings"""
    if not a:
        yield b
        return
    if not b:
        yield a
        return
    for rest in merges(a[1:], b):
        yield (a[0],) + rest
    for rest in merges(a, b[1:]):
        yield (b[0],) + rest


REGRESSIONS = [
    # a register that is only read was used as scratch for a cycle (tests/filecheck "reusing register")
    ([("i2", "i1"), ("i1", "i2"), ("i4", "i3")], [], "shared"),
    ([("f2", "f1"), ("f1", "f2"), ("f3", "f3"), ("f3", "f4")], [], "shared"),
    # a self-moved register used as scratch
    ([("i1", "i1"), ("i3", "i2"), ("i2", "i3"), ("i1", "i4")], [], "shared"),
    # xor-swap chain rotated cycles of length >= 3 the wrong way round
    ([("i2", "i1"), ("i3", "i2"), ("i1", "i3")], [], "shared"),
    ([("i1", "i2"), ("i2", "i3"), ("i3", "i4"), ("i4", "i1")], [], "shared"),
    # zero as destination (twice: AssertionError), zero "in a cycle", zero used as scratch, runaway loop
    ([("i1", "i0"), ("i1", "i0")], [], "shared"),
    ([("i0", "i1"), ("i1", "i0")], [], "shared"),
    ([("i2", "i1"), ("i1", "i2"), ("i0", "i3")], [], "shared"),
    ([("i1", "i1"), ("i1", "i0"), ("i0", "i0")], [], "shared"),
    ([("i0", "i1"), ("i1", "i0"), ("i1", "i0")], [], "shared"),
    ([("i2", "i1"), ("i1", "i2"), ("i1", "i0"), ("i0", "i0")], ["i5"], "shared"),
    # two SSA values living in the same source register (counter was keyed by value)
    ([("i2", "i1"), ("i1", "i2"), ("i1", "i3")], [], "distinct"),
    ([("i1", "i2"), ("i1", "i3"), ("i4", "i1")], [], "distinct"),
    # ft0 (index 0 of the float file) is an ordinary register: chain through it
    ([("f1", "f0"), ("f0", "f2")], [], "shared"),
]

FREE_OPTS_I = [(), ("i5",), ("i6", "i5")]
FREE_OPTS_F = [(), ("f4",), ("f5", "f4")]


def with_widths(ctx: core.Ctx, moves: tuple, all_float_patterns: bool) -> Iterator[tuple]:
    srcs: list[str] = []
    for s, _ in moves:
        if s not in srcs:
            srcs.append(s)
    fs = [s for s in srcs if s[0] == "f"]
    base = {s: ctx.rng.choice((32, 64)) for s in srcs}
    pats: list[dict[str, int]] = [base]
    if all_float_patterns and fs:
        pats = []
        for ws in itertools.product((32, 64), repeat=len(fs)):
            p = dict(base)
            p.update(zip(fs, ws))
            pats.append(p)
    for p in pats:
        yield tuple(p[s] for s, _ in moves)


def rename(c: Case, sigma: dict[str, str], names: tuple = ()) -> Case:
    """the same parallel move on other physical registers (`sigma` injective per kind, fixes i0) and/or
    with other spellings"""
    r = lambda t: sigma.get(t, t)  # noqa: E731
    out = (tuple((r(s), r(d)) for s, d in c[0]), c[1], tuple(r(f) for f in c[2]), c[3])
    return out + (tuple(names),) if names else out


def case_regs(c: Case) -> list[str]:
    out: list[str] = []
    for t in [t for m in c[0] for t in m] + list(c[2]):
        if t not in out and t[1:] != "u":
            out.append(t)
    return out


def numeric_names(regs: Iterable[str]) -> tuple:
    return tuple((t, numeric_name(t)) for t in regs if int(t[1:]) < NFINITE)


def random_naming(ctx: core.Ctx, c: Case) -> tuple[dict[str, str], tuple]:
    """A random placement of the case's registers in the two register files (finite and infinite
    registers), biased towards what a register comparison could get wrong: float registers that share
    their index with an integer register of the same case or with `zero` (ft0), and random spellings."""
    rng = ctx.rng
    regs = case_regs(c)
    ints = [t for t in regs if t[0] == "i" and t != "i0"]
    flts = [t for t in regs if t[0] == "f"]
    pool_i = list(range(1, NFINITE)) + list(range(NFINITE, NFINITE + 4))
    ii = rng.sample(pool_i, len(ints))
    sigma = {t: f"i{k}" for t, k in zip(ints, ii)}
    pool_f = list(range(0, NFINITE)) + list(range(NFINITE, NFINITE + 4))
    if rng.randrange(2):
        pref = [0] + ii  # collide with zero / with the integer registers of this case
        rng.shuffle(pref)
        pool_f = pref + [k for k in rng.sample(pool_f, len(pool_f)) if k not in pref]
        ff = pool_f[: len(flts)]
        rng.shuffle(ff)
    else:
        ff = rng.sample(pool_f, len(flts))
    sigma.update({t: f"f{k}" for t, k in zip(flts, ff)})
    names = []
    for t in sorted(set(sigma.values()) | ({"i0"} & set(regs))):
        if int(t[1:]) >= NFINITE:
            continue
        x = rng.randrange(4)
        if x == 0:
            names.append((t, numeric_name(t)))
        elif t == "i8" and x == 1:
            names.append((t, "fp"))
    return sigma, tuple(names)


def naming_variants(ctx: core.Ctx, fam: str, c: Case) -> Iterator[tuple[str, Case]]:
    """The pass may only compare registers for physical identity (register file + index); the base
    families fix one placement (i1..i6 = ra..t1, f1..f5 = ft1..ft5).  These variants move the same
    graph to the places where a wrong comparison shows: a float register at index 0 (the index of
    `zero` in the other file), `zero` spelled `x0`, numeric spellings, infinite registers (negative
    indices), and random placements/spellings over both whole register files."""
    quick = ctx.tier == "quick"
    base = fam.split("/")[0]
    regs = case_regs(c)
    flts = [t for t in regs if t[0] == "f"]
    rng = ctx.rng
    inf = {t: t[0] + str(NFINITE + int(t[1:])) for t in regs if t != "i0"}
    nodes = lambda k: len({t for m in c[0] for t in m if t[0] == k and t != "i0"})  # noqa: E731
    if base == "float" or (base == "mixed" and not quick and nodes("i") <= 2 and nodes("f") <= 2):
        for t in flts:
            yield fam + "/f0", rename(c, {t: "f0"})
        yield fam + "/numeric", rename(c, {}, numeric_names(regs))
        yield fam + "/infinite", rename(c, inf)
        if "i0" in regs:
            yield fam + "/x0", rename(c, {}, (("i0", "x0"),))
        sigma, names = random_naming(ctx, c)
        yield fam + "/placed", rename(c, sigma, names)
    elif base == "mixed":
        # quick: one float register at ft0 + one random placement per case; thorough (graphs beyond 2+2 nodes): samples
        if flts and (quick or rng.randrange(8) == 0):
            yield fam + "/f0", rename(c, {flts[rng.randrange(len(flts))]: "f0"})
        if quick or rng.randrange(16) == 0:
            sigma, names = random_naming(ctx, c)
            yield fam + "/placed", rename(c, sigma, names)
        if not quick and rng.randrange(50) == 0:
            yield fam + "/numeric", rename(c, {}, numeric_names(regs))
            yield fam + "/infinite", rename(c, inf)
            if "i0" in regs:
                yield fam + "/x0", rename(c, {}, (("i0", "x0"),))
    elif base in ("int", "regression"):
        n = len({t for t in regs if t not in ("i0", "i5", "i6")})
        small = n <= 3 and sum(d == "i0" for _, d in c[0]) <= 1
        if "i0" in regs and (small if quick else n <= 3 or rng.randrange(100) == 0):
            yield fam + "/x0", rename(c, {}, (("i0", "x0"),))
        if base == "regression" or rng.randrange(25 if quick else 200) == 0:
            sigma, names = random_naming(ctx, c)
            yield fam + "/placed", rename(c, sigma, names)
            yield fam + "/infinite", rename(c, inf)


def gen_cases(ctx: core.Ctx) -> Iterator[tuple[str, Case]]:
    """yields (family, case): the base families and, after each base case, its naming variants"""
    for fam, c in base_cases(ctx):
        yield fam, c
        if fam != "malformed" and not fam.endswith("-labelled"):
            yield from naming_variants(ctx, fam, c)


def base_cases(ctx: core.Ctx) -> Iterator[tuple[str, Case]]:
    """yields (family, case) in the base placement i1..i4 = ra..tp, free i5/i6 = t0/t1; f1..f3 =
    ft1..ft3, free f4/f5 = ft4/ft5"""
    quick = ctx.tier == "quick"
    T = lambda k, g: tuple((f"{k}{s}", f"{k}{d}") for s, d in g)  # noqa: E731

    def expand(fam: str, moves: tuple, frees: Iterable[tuple], allw: bool, thin: bool = False) -> Iterator[tuple[str, Case]]:
        repeated = len({s for s, _ in moves}) < len(moves)
        frees = list(frees)
        if thin:  # quick tier, big families: one free list per graph, distinct-SSA variant for every third
            frees = [frees[ctx.rng.randrange(len(frees))]]
        for free in frees:
            for ws in with_widths(ctx, moves, allw):
                yield fam, (moves, ws, free, "shared")
                if repeated and (not thin or ctx.rng.randrange(3) == 0):
                    yield fam + "/distinct-ssa", (moves, ws, free, "distinct")

    # minimal inputs of the defects repaired by `fix: riscv-lower-parallel-mov …` (re-found if they return)
    for moves, free, ssa in REGRESSIONS:
        ws = tuple(32 for _ in moves)
        yield "regression", (tuple(moves), ws, tuple(free), ssa)
    # malformed stream: unallocated registers, unsupported widths (must fail with a diagnostic)
    for moves, ws in [
        ((("iu", "i1"),), (32,)), ((("i1", "iu"),), (32,)), ((("fu", "f1"),), (32,)),
        ((("i1", "i2"), ("f1", "fu")), (32, 64)),
        ((("i1", "i2"),), (16,)), ((("f1", "f2"),), (16,)), ((("f1", "f2"),), (128,)),
        ((("i1", "i1"),), (16,)), ((("i1", "i2"), ("i2", "i1")), (8, 8)),
        ((("i1", "i2"), ("i2", "i1"), ("f1", "f2")), (32, 32, 16)),
        ((("f1", "f2"), ("f2", "f1")), (16, 16)),
    ]:
        yield "malformed", (moves, ws, (), "shared")
        yield "malformed", (moves, ws, ("i5", "f4"), "shared")
    # float graphs
    for g in kind_graphs(3, 0, False):
        yield from expand("float", T("f", g), FREE_OPTS_F, True)
    # labelled variants (no canonical numbering): the algorithm must not depend on register names
    if not quick:
        for g in labelled_graphs(3, True):
            yield from expand("int-labelled", T("i", g), FREE_OPTS_I[:2], False)
        for g in labelled_graphs(3, False):
            yield from expand("float-labelled", T("f", g), FREE_OPTS_F[:2], False)
    # the two big families, interleaved in blocks so that a run cut short by the time budget loses the tail (the
    # largest graphs) of both instead of one family entirely

    def mixed_family() -> Iterator[tuple[str, Case]]:
        # every interleaving of an integer and a float graph
        ni, nf, mm = (2, 2, 3) if quick else (3, 3, 3)
        igs = [g for g in kind_graphs(ni, 1, True, maxmoves=mm) if g]
        fgs = [g for g in kind_graphs(nf, 0, False, maxmoves=mm) if g]
        for ig in igs:
            for fg in fgs:
                ms = list(merges(T("i", ig), T("f", fg)))
                if quick and len(ms) > 3:
                    ms = ctx.rng.sample(ms, 3)
                for m in ms:
                    frees = [fi + ff for fi in FREE_OPTS_I[:2] for ff in FREE_OPTS_F[:2]]
                    yield from expand("mixed", m, frees, False, thin=quick)

    def int_family() -> Iterator[tuple[str, Case]]:
        # integer graphs (zero as source, and as destination)
        int_sets = [(4, 1), (3, 2)] if quick else [(4, 2)]
        seen: set[tuple] = set()
        for n, z in int_sets:
            for g in kind_graphs(n, z, True):
                if g in seen:
                    continue
                seen.add(g)
                yield from expand("int", T("i", g), FREE_OPTS_I, False, thin=quick and len(g) >= 4)

    gens = [mixed_family(), int_family()]
    while gens:
        for g in list(gens):
            block = list(itertools.islice(g, 1000))
            if len(block) < 1000:
                gens.remove(g)
            yield from block


# ---------------------------------------------------------------------------------------------
# run / replay
# ---------------------------------------------------------------------------------------------

def self_test_sequence_exists() -> None:
    """`sequence_exists` (closed form) against brute-force search on all float graphs over 3 registers."""
    for g in labelled_graphs(3, False):
        fm = [(f"f{s}", f"f{d}") for s, d in g]
        for free in ([], ["f4"]):
            c: Case = (tuple(fm), tuple(32 for _ in fm), tuple(free), "shared")
            if sequence_exists(c) != float_seq_exists_bruteforce(fm, free):
                raise core.InfraError(f"sequence_exists self-test failed on {fm} free={free}")


def evaluate(ctx: core.Ctx, fams: list[str], cases: list[Case], obs: list[str], verdicts: list[Any]) -> None:
    lines = [case_line(c) for c in cases]
    model = ctx.model("parallel_mov", lines)
    # model line = "<observation> # <checkSeq verdict>"
    for fam, c, o, m, bad in zip(fams, cases, obs, model, verdicts):
        ctx.ev()
        ctx.count("family." + fam)
        facts = graph_facts(c)
        if facts["nontrivial"]:
            ctx.nt(c)
        ctx.count("outcome." + (o.split()[0] if not o.startswith("fail") else o.replace(" ", ":")))
        if o.startswith("ok"):
            ctx.count("ops.xor" if "xor:" in o else "ops.moves-only")
        if facts["cycle"]["i"]:
            ctx.count("shape.int-cycle")
        if facts["cycle"]["f"]:
            ctx.count("shape.float-cycle")
        if facts["fanout"]:
            ctx.count("shape.fanout")
        if any(d == "i0" for _, d in c[0]):
            ctx.count("shape.zero-destination")
        if any(s == "i0" for s, _ in c[0]):
            ctx.count("shape.zero-source")
        regs = case_regs(c)
        if "f0" in regs:
            ctx.count("placement.float-index-0" + ("-in-moves" if any("f0" in m for m in c[0]) else "-free-only"))
        if any(t[0] == "f" and "i" + t[1:] in regs for t in regs):
            ctx.count("placement.one-index-in-both-files")
        if any(int(t[1:]) >= NFINITE for t in regs):
            ctx.count("placement.infinite-registers")
        if any(t == "i0" for t, _ in case_names(c)):
            ctx.count("spelling.zero-as-x0")
        elif case_names(c):
            ctx.count("spelling.non-abi")
        if o.startswith("fail float-cycle") and sequence_exists(c):
            ctx.count("fail_but_sequence_exists")
        if bad is not None:
            ctx.fail(CALL_SITE, bad[0], case_json(c), bad[1], o, m)
        mobs, _, verdict = m.partition(" # ")
        if mobs != o and not o.startswith("invalid") and o != "timeout":
            ctx.mismatch("correspondence:C20/parallel_mov", case_json(c), o, m,
                         "real pass output and Lean model output differ")
        if o.startswith("ok"):
            ctx.programs += 1
            # the proved validator, run by the Lean driver on the REAL output
            v = ctx_validator_line(c, o)
            pending_validate.append((c, o, v, bad))


pending_validate: list[tuple[Case, str, str, Any]] = []


def ctx_validator_line(c: Case, o: str) -> str:
    ops, res = parse_obs(o)
    return case_line(c).replace("pmov", "check", 1) + " || " + " ".join(":".join(op) for op in ops) + " | " + " ".join(res)


def flush_validator(ctx: core.Ctx) -> None:
    if not pending_validate:
        return
    out = ctx.model("parallel_mov", [v for _, _, v, _ in pending_validate])
    for (c, o, _, bad), verdict in zip(pending_validate, out):
        ctx.disagreements_checked += 1
        ctx.count("checkSeq." + verdict.split()[0])
        py_ok = bad is None or bad[0].split(" [")[0] in NON_SEMANTIC
        if (verdict == "valid") != py_ok:
            # proved validator and Python oracle disagree: one of the two is wrong (machinery)
            ctx.mismatch("correspondence:C20/checkSeq-vs-python-oracle", case_json(c), o, verdict,
                         "Lean checkSeq and the Python register machine disagree on a real output")
    pending_validate.clear()


def run(ctx: core.Ctx) -> None:
    import time

    t0 = time.time()
    ctx.lean()
    phases = {"lean_build_audit_s": round(time.time() - t0, 1), "impl_s": 0.0, "model_oracle_s": 0.0}
    ctx.extra["phase_seconds"] = phases
    self_test_sequence_exists()
    nproc = max(1, min(14, (os.cpu_count() or 2) - 1))
    pool = mp.get_context("fork").Pool(nproc)
    try:
        batch_f: list[str] = []
        batch_c: list[Case] = []
        total = 0
        complete = True

        def flush() -> None:
            nonlocal batch_f, batch_c
            if not batch_c:
                return
            size = max(50, len(batch_c) // (nproc * 4))
            chunks = [batch_c[i: i + size] for i in range(0, len(batch_c), size)]
            t1 = time.time()
            pairs = [x for part in pool.map(_worker, chunks) for x in part]
            obs = [o for o, _ in pairs]
            verdicts = [b for _, b in pairs]
            resolve_timeouts(pool, batch_c, obs)
            for k, (o, (o0, _)) in enumerate(zip(obs, pairs)):
                if o != o0:  # re-run after a watchdog timeout: judge the final observation
                    verdicts[k] = oracle(batch_c[k], o)
            t2 = time.time()
            evaluate(ctx, batch_f, batch_c, obs, verdicts)
            flush_validator(ctx)
            phases["impl_s"] = round(phases["impl_s"] + t2 - t1, 1)
            phases["model_oracle_s"] = round(phases["model_oracle_s"] + time.time() - t2, 1)
            batch_f, batch_c = [], []

        for fam, c in gen_cases(ctx):
            batch_f.append(fam)
            batch_c.append(c)
            total += 1
            if len(batch_c) >= 40000:
                flush()
                if ctx.time_left() < 20:
                    complete = False
                    break
        flush()
    finally:
        pool.close()
        pool.join()
    ctx.exhaustive = complete
    ctx.extra["exhaustive_scope"] = (
        "all canonical ordered move lists in the stated bounds (see level_note); "
        + ("complete" if complete else "cut short by the time budget"))
    for fam, c in itertools.islice(gen_cases(ctx), 3000, 3003):
        ctx.sample({"family": fam, "case": case_json(c), "impl": impl_run_guarded(c)})


def replay(ctx: core.Ctx, body: dict) -> int:
    c = case_from_json(body["case"])
    obs = impl_run_guarded(c)
    model = ctx.model("parallel_mov", [case_line(c)])[0]
    print("case          :", case_line(c), "ssa=" + c[3])
    print("implementation:", obs)
    print("lean model    :", model)
    bad = oracle(c, obs)
    if obs.startswith("ok"):
        ops, _ = parse_obs(obs)
        st, _ = exec_ops(ops, {t for m in c[0] for t in m} | set(c[2]))
        print("register machine after the emitted sequence:", {r: sorted(v) for r, v in sorted(st.items())})
        print("lean checkSeq :", ctx.model("parallel_mov", [ctx_validator_line(c, obs)])[0])
    print("oracle        :", "holds" if bad is None else f"FAILS — {bad[0]}: {bad[1]}")
    print("property", "FAILS" if bad is not None else "holds", "on this case")
    return 1 if bad is not None else 0
