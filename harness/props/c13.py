"""C13 — dead-code elimination removes only unobservable code."""
from __future__ import annotations

import copy
import json
from typing import Any, Callable

from vp import core, miniir

from props import c13_gen as gen
from props import c13_ir as ir

META = {
    "title": "Dead-code elimination removes only unobservable code",
    "category": "proof",
    "design_ref": "DESIGN.md §5 C13",
    "lean_modules": ["XdslProofs.C13", "XdslProofs.C13Sem", "XdslProofs.C13SemCFG"],
    "text": (
        "Lean theorems about the model XdslModel/DCE.lean of would_be_trivially_dead / result_only_effects / "
        "get_effects (incl. RecursiveMemoryEffect), LiveSet.propagate_* with its `while changed` loop (blocks in "
        "PostOrderIterator order, operations reversed), delete_dead, region_dce, DeadCodeElimination.apply and the "
        "trivially-dead erasure of the rewrite walkers, for every region tree with unique operation ids: "
        "wbd_spec (an operation accepted by would_be_trivially_dead is no terminator, no symbol, has known "
        "effects that are all READ or ALLOC of a value defined inside it); wbd_recursive_iff / "
        "wbd_recursive_child_observable (an operation with recursive effects is accepted exactly if it is no "
        "terminator, no symbol, its own effects are harmless and EVERY operation directly in any block of any of "
        "its regions has known effects that are all harmless - no region, block or position is exempt; one "
        "unknown or observable child anywhere keeps it); liveness_converges (the loop ends "
        "within #ops+1 passes) and live_iff_least (its result is exactly the least set LV containing every "
        "operation of a post-order-yielded block of the top region or of a region of a live operation that is "
        "not would-be-trivially-dead or has a live user); dce_sound / dce_sound_removed (region_dce keeps every "
        "operation of LV: every removed operation is outside it), removed_is_dead(_computed) (a visited "
        "operation that is removed is would-be-trivially-dead and no live operation uses a result of it), "
        "reachable_block_kept (a yielded block holding a terminator is kept: removed blocks are unreachable), "
        "dce_pass_sound (this holds at every call made by the pass); dce_complete (the pass ends within size+1 "
        "calls of region_dce, and in the module it leaves every operation is in the least live set of that "
        "module and every non-entry block is yielded by the post-order iteration of its region; "
        "dce_complete_reachable: i.e. reachable, by postorder_spec of C24); triv_sound / triv_complete for the "
        "walker-based erasure; dce_preserves_sem_straightline (for one block of region-free operations, where "
        "would-be-trivially-dead operations are arbitrary functions of their operands and of the effect log and "
        "every other operation appends to the log, the kept operations produce the same log and the same value "
        "for every kept operation and outer value); and on the reference semantics Sem for whole modules with "
        "nested regions, CFG regions and calls (XdslProofs/C13SemCFG.lean over XdslModel/DCEMini.lean, a module "
        "tree whose operations carry both the trait flags the pass reads and the MiniIR operation Sem runs): "
        "dce_preserves_sem_structured (an operation would_be_trivially_dead accepts, with trait flags that agree "
        "with the operation names on it and on everything nested in it, is quiet in Sem: whenever it runs to "
        "completion it does not end its block and leaves the effect log, the memory, the symref variables and "
        "every value it does not define unchanged), dce_preserves_sem_cfg (if the decidable hypotheses `cert` "
        "hold - a well-sorted module tree with unique ids and well-formed region graphs, operand owners cover "
        "the MiniIR uses, per region unique block ids / only the last operation of a block has successors, "
        "which are the blocks its successor positions point at / non-entry blocks end in a terminator, no kept "
        "operation reads a value defined inside an erased operation or in an erased block, flags agree with "
        "names on erased operations, every func.func is live - then every run of the original module that ends "
        "with results is reproduced, same results and same effect log, by what region_dce leaves, with the same "
        "and every larger fuel; PROVED from the liveness fixpoint and postorder_spec of C24, not assumed: no "
        "kept operation reads a result of an operation erased from a kept block, every kept block is yielded "
        "by the post-order iteration, a kept operation branches only to kept blocks), "
        "dce_pass_preserves_sem (the same for the while-loop of the pass), triv_preserves_sem (the same for the "
        "walker-based erasure of trivially dead operations to its fixpoint), dce_sem_converse, "
        "tie_checker_sound (the comparison the driver runs between the zipped tree and a MiniIR program is "
        "sound), and the two "
        "counterexamples showing that nothing more holds (dce_ub_not_preserved_counterexample: a dead "
        "arith.divsi by zero is erased; dce_divergence_not_reflected_counterexample: a dead scf.while that never "
        "terminates is erased). The model is tied to /repo by running the real functions on "
        "generated modules (test-dialect and harness-defined effect-kind operations with nested multi-block "
        "regions, use cycles, unreachable blocks; one operation with recursive effects holding a harmless and an "
        "observable item at every ordered pair of (region, block) positions; func/arith/cf/scf programs with "
        "external calls; scf.if / scf.while / scf.for / scf.index_switch / affine.if with memref.load, "
        "memref.store and external calls in every combination of their regions) and comparing "
        "would_be_trivially_dead of every operation, the live set and the number of passes, the module after "
        "region_dce (and its returned flag), after the dce pass (and its number of region_dce calls), after the "
        "walker-based erasure (dce(), GreedyRewritePatternApplier with no pattern) and after the canonicalize-"
        "style walker with region_dce as post-walk function with the Lean driver; an independent oracle written "
        "from the property's sentence (own effect table by operation name, own reachability and least-fixpoint "
        "computation) judges every before/after pair, and the Lean reference semantics `sem` (and, for a "
        "subset, the xDSL interpreter) evaluates the func/arith/cf/scf(/memref) programs before and after every "
        "variant on three inputs each (results - incl. the buffer cells the region operations store to - and "
        "effect log). For every func/arith/cf/scf(/memref) program of streams A and C and all five variants "
        "(`once`; `dce` and `canon` against the model of the pass; `walker` and `greedy` against the model of the "
        "trivially-dead erasure), the driver model `dcemini` zips the model tree (real trait flags) with the MiniIR "
        "serialisation of the same module, evaluates the hypotheses `cert` / `certPass` / `certTrivAll` of the "
        "proved theorems, "
        "and checks that the MiniIR program of the model's result is the serialisation (same value and block "
        "ids) of what the real pass leaves."
    ),
    "technique": "Lean 4 fixpoint/invariant proofs + differential correspondence + independent removed-set oracle + reference-semantics translation validation",
    "level_note": (
        "Trusted: Lean kernel; hand-written model XdslModel/DCE.lean (tied by correspondence only); the "
        "serialiser props/c13_ir.py (ids, operand owners, trait flags, own effect instances) and vp/miniir.py; "
        "the reference semantics XdslModel/Sem.lean. Semantic preservation on Sem is PROVED for region_dce and "
        "the dce pass on modules with nested regions, CFGs and calls under the decidable hypotheses `cert` "
        "(XdslProofs/C13SemCFG.lean), which the check evaluates on every generated func/arith/cf/scf program "
        "(histogram `*.cert.*`; a program outside them is counted as `uncovered`, not reported); it is in "
        "addition checked per program by Sem. Not proved: erased operations that allocate (Sem numbers "
        "allocations; per program by Sem only); SSA scoping (no kept operation reads a value defined inside an "
        "erased operation or in an erased block) and the agreement of trait flags with operation names are "
        "hypotheses checked per program. Programs whose run is UB / out of fuel before the pass are excluded from the result "
        "comparison (removing a dead division by zero is allowed). Block arguments are never removed by the "
        "code, so a dead cycle through block arguments stays and is not demanded by the oracle (its members "
        "are used by a terminator). A use of a value across blocks that violates dominance (a kept "
        "operation using a result defined in an unreachable block) is outside the statement: the generators "
        "do not produce it. The oracle's reachability follows the successors of whatever operation ends a "
        "block (known terminator or unregistered operation); a block ending in a REGISTERED non-terminator "
        "with successors is not generated. The oracle counts the effects of an operation with recursive effects over the "
        "reachable blocks of its regions. Completeness (no removable operation / unreachable block remains) "
        "is demanded of the `dce` pass only, as the statement says; region_dce alone, the walker-based "
        "erasure and the greedy applier are checked for soundness and result preservation."
    ),
    "rule": (
        "stream B: seeded random specs (1-5 module-level operations, nesting depth <= 2, 1-4 blocks per "
        "region, 20 operation kinds incl. unregistered operations, also as block-ending branches with successors) plus ALL programs of one block with n <= 2 (quick) / n <= 3 (thorough) "
        "operations over 7 kinds (5 for n = 3) x every single-operand choice, plus fixed multi-block shapes whose blocks are only reachable through unregistered branch-like operations; positions: ONE operation with recursive effects and an unused result, 3 regions x 2 chained blocks (thorough: 9 region shapes up to 4 regions, also c13.rec_read, unchained blocks, triples), a harmless item (none/read/own-result alloc/nested rec that reads) x an observable item (write/free/unknown/nested rec whose 2nd region writes; thorough also alloc/rw/unregistered/symbol) at EVERY ordered pair of (region, block) positions, same block in both orders, plus the harmless item alone at every position; stream B operations with regions have 1-3 regions, about half of the regions of recursive-effect operations quiet (pure terminators, read / own-alloc / pure leaves); stream A: seeded proggen programs (helpers incl. recursive ones, calls, scf.if/for, half of them also scf.while / loop nests, cf diamonds and loops) with "
        "0-3 appended unreachable blocks, 3 input vectors each, each also certified by `dcemini` for all five variants; stream C: scf.if, scf.while (quick) + scf.if with results, scf.for (thorough) under Sem and scf.index_switch, affine.if (structure + model only) with every assignment of none/load/store/call (thorough also pure/nested scf.if/load+store) to their regions, 3 input vectors taking every region. The histogram keys `*.rec.observable_only_in_later_region(_after_harmless_effects)` / `_later_block` count the operations whose fate is decided by a non-first region / block. A case is non-trivial if some variant "
        "removes at least one operation or block and at least one operation that is not a terminator stays. "
        "Distinct = distinct (spec or text)."
    ),
    "trusted_base": [
        "correspondence harness harness/props/c13.py (+ c13_ir.py, c13_gen.py): differential, bounded-exhaustive + random",
        "glue of the driver model dcemini (XdslModel/DCEMini.lean: zipModule, eqFuncs; the zipped tree is re-checked against both inputs)",
        "hand-written Lean model of transforms/dead_code_elimination.py and of get_effects",
        "reference semantics XdslModel/Sem.lean and serialiser harness/vp/miniir.py",
    ],
    "budget": {"quick": 120, "thorough": 1200},
}

SITE_WBD = "xdsl.transforms.dead_code_elimination.would_be_trivially_dead"
SITE_LIVE = "xdsl.transforms.dead_code_elimination.LiveSet.propagate_op_liveness"
SITE_ONCE = "xdsl.transforms.dead_code_elimination.region_dce"
SITE_PASS = "xdsl.transforms.dead_code_elimination.DeadCodeElimination.apply"
SITE_WALK = "xdsl.transforms.dead_code_elimination.dce"
SITE_GREEDY = "xdsl.pattern_rewriter.GreedyRewritePatternApplier.match_and_rewrite"
SITE_CANON = "xdsl.pattern_rewriter.PatternRewriteWalker.rewrite_region"

VARIANTS = ("once", "dce", "walker", "greedy", "canon")
SITE = {"once": SITE_ONCE, "dce": SITE_PASS, "walker": SITE_WALK, "greedy": SITE_GREEDY, "canon": SITE_CANON}
MODEL_CMD = {"once": "once", "dce": "dce", "walker": "triv", "greedy": "triv", "canon": "dce"}


# ---------------------------------------------------------------------------------------------
# real-code adapter
# ---------------------------------------------------------------------------------------------

def apply_variant(module: Any, variant: str) -> str:
    """runs the real code in place; returns the head of the protocol answer (`once 1`, `dce 2`, `triv`)"""
    from xdsl.context import Context
    from xdsl.pattern_rewriter import GreedyRewritePatternApplier, PatternRewriteWalker
    from xdsl.transforms import dead_code_elimination as D

    if variant == "once":
        changed = D.region_dce(module.body)
        return f"once {1 if changed else 0}"
    if variant == "dce":
        calls = [0]
        real = D.region_dce

        def counting(region, listener=None):  # type: ignore[no-untyped-def]
            calls[0] += 1
            return real(region, listener)

        D.region_dce = counting  # type: ignore[assignment]
        try:
            D.DeadCodeElimination().apply(Context(), module)
        finally:
            D.region_dce = real  # type: ignore[assignment]
        return f"dce {calls[0]}"
    if variant == "walker":
        D.dce(module)
        return "triv"
    if variant == "greedy":
        PatternRewriteWalker(GreedyRewritePatternApplier([])).rewrite_module(module)
        return "triv"
    if variant == "canon":
        PatternRewriteWalker(GreedyRewritePatternApplier([]), post_walk_func=D.region_dce).rewrite_module(module)
        return "dce"
    raise core.InfraError(f"unknown variant {variant}")


def observe_static(case: dict) -> tuple[str, str, str]:
    """(model tree text, wbd line, live line) of the unchanged module"""
    from xdsl.transforms import dead_code_elimination as D

    m = ir.build_case(case)
    num = ir.Numbering(m)
    tree = ir.tree_text(m, num)
    wbd = "wbd " + " ".join(f"{num.op[id(o)]}={1 if D.would_be_trivially_dead(o) else 0}" for o in m.body.walk())
    ls = D.LiveSet()
    n = 0
    while ls.changed:
        ls.changed = False
        ls.propagate_region_liveness(m.body)
        n += 1
        if n > 10 * len(num.op) + 10:
            return tree, wbd.rstrip(), "raise Runaway"
    live = sorted(num.op[id(o)] for o in m.body.walk() if ls.is_live(o))
    return tree, wbd.rstrip(), " ".join(["live", str(n), *map(str, live)])


class Outcome:
    def __init__(self) -> None:
        self.head = ""
        self.line = ""            # protocol line of the implementation (head + tree) or `raise X`
        self.s0: ir.Snap | None = None
        self.s1: ir.Snap | None = None
        self.module: Any = None
        self.sexp: str | None = None


CERT_VARIANTS = ("once", "dce", "canon", "walker", "greedy")
CERT_CMD = {"once": "once", "dce": "dce", "canon": "dce", "walker": "triv", "greedy": "triv"}
# answers of the `dcemini` model that mean "this program is outside the proved theorem" (counted), as
# opposed to a disagreement between the two serialisations / the model and the real pass (reported)
CERT_UNCOVERED = ("flags-vs-names:", "scope:", "cfg", "func-not-live", "func-body", "sort", "?")   # "?triv": a sweep


def cert_lines(case: dict, variant: str) -> list[str] | None:
    """the three `dcemini` lines of one (program, variant): the MiniIR module before, the model tree (real trait
    flags) to be zipped with it and certified, the MiniIR module after the REAL pass - both serialised with ONE
    `Serializer`, so surviving values and blocks keep their ids"""
    m = ir.build_case(case)
    num = ir.Numbering(m)
    try:
        tree = ir.tree_text(m, num)
        ser = miniir.Serializer()
        s0 = ser.module(m)
        apply_variant(m, variant)
        s1 = ser.module(m)
    except (ir.Unsupported, miniir.Unsupported):
        return None
    if "\n" in s0 or "\n" in s1:
        return None
    return ["prog " + s0, f"cert {CERT_CMD[variant]} {tree}", f"after {CERT_CMD[variant]} " + s1]


def run_variant(case: dict, variant: str) -> Outcome:
    out = Outcome()
    m = ir.build_case(case)
    num = ir.Numbering(m)
    out.s0 = ir.Snap(m, num)
    try:
        out.head = apply_variant(m, variant)
    except Exception as e:  # noqa: BLE001
        out.line = "raise " + core.exc_name(e)
        return out
    out.s1 = ir.Snap(m, num)
    out.module = m
    try:
        out.line = (out.head + " " + ir.tree_text(m, num)).rstrip()
    except ir.Unsupported as e:
        out.line = f"unserialisable: {e}"
    return out


# ---------------------------------------------------------------------------------------------
# oracle wrapper
# ---------------------------------------------------------------------------------------------

def judge(variant: str, o: Outcome, case: dict | None = None) -> tuple[str, str, str] | None:
    """(call_site, signature, description) if the property's sentence fails on this outcome"""
    if o.s1 is None:
        return SITE[variant], "exception on a valid module", f"{variant}: {o.line}"
    bad = ir.oracle_sound(o.s0, o.s1)
    if bad is not None:
        return SITE[variant], bad[0], f"{variant}: {bad[1]}"
    if variant == "dce":
        bad = ir.oracle_complete(o.s1)
        if bad is not None:
            sig = bad[0]
            if bad[2] is not None:
                # class of the leftover
                x = bad[2]
                if any(u not in o.s1.ops for u in o.s0.users[x]):
                    sig += ": its users went away with the operation that contained them"
                elif o.s1.users[x]:
                    sig += ": dead use cycle through a nested region"
                else:
                    sig += ": it became removable when unreachable blocks were deleted"
            return SITE_PASS, sig, f"after the dce pass: {bad[1]}"
    return None


def removed_count(o: Outcome) -> int:
    if o.s1 is None:
        return 0
    return (len(o.s0.ops) - len(o.s1.ops)) + (len(o.s0.blocks) - len(o.s1.blocks))


# ---------------------------------------------------------------------------------------------
# shrinking
# ---------------------------------------------------------------------------------------------

def _with_ids(top: list[dict]) -> list[dict]:
    top = copy.deepcopy(top)
    for n, o in enumerate(ir.spec_labels(top)):
        o["_id"] = n
    return top


def _finalize(top: list[dict]) -> list[dict]:
    """renumber after a structural edit: uses of vanished operations are dropped"""
    ops = ir.spec_labels(top)
    remap = {o["_id"]: n for n, o in enumerate(ops)}
    for o in ops:
        o["u"] = [[remap[l], k] for l, k in o.get("u", []) if l in remap]
    for o in ops:
        del o["_id"]
    return top


def spec_candidates(top: list[dict]):
    """smaller specs, one structural edit each: delete an operation (never the terminator of a block),
    delete a non-entry block, replace an operation with regions by the body of its first block,
    delete a region of an operation with several regions, drop a use"""
    n = len(ir.spec_labels(top))

    def blocks_of(t: list[dict]):
        """(block list, is_region_block) of every block of the spec"""
        yield t, False
        for o in ir.spec_labels(t):
            for r in o.get("r", []):
                for blk in r:
                    yield blk, True

    for victim in range(n - 1, -1, -1):
        # delete
        t = _with_ids(top)
        for blk, inreg in blocks_of(t):
            hit = [k for k, o in enumerate(blk) if o["_id"] == victim]
            if hit and not (inreg and hit[0] == len(blk) - 1):
                del blk[hit[0]]
                yield _finalize(t)
                break
        # hoist
        t = _with_ids(top)
        for blk, _inreg in blocks_of(t):
            hit = [k for k, o in enumerate(blk) if o["_id"] == victim and o.get("r")]
            if hit:
                inner = blk[hit[0]]["r"][0][0][:-1]
                blk[hit[0]:hit[0] + 1] = inner
                yield _finalize(t)
                break
    # delete a non-entry block
    t0 = _with_ids(top)
    regions = [(o["_id"], ri) for o in ir.spec_labels(t0) for ri, _r in enumerate(o.get("r", []))]
    for oid, ri in regions:
        nb = len([o for o in ir.spec_labels(t0) if o["_id"] == oid][0]["r"][ri])
        for b in range(nb - 1, 0, -1):
            t = _with_ids(top)
            reg = [o for o in ir.spec_labels(t) if o["_id"] == oid][0]["r"][ri]
            del reg[b]
            for blk in reg:
                if blk:
                    blk[-1]["s"] = [x - (x > b) for x in blk[-1].get("s", []) if x != b]
            yield _finalize(t)
    # delete one region of an operation that has several
    for oid, ri in regions:
        t = _with_ids(top)
        o = [o for o in ir.spec_labels(t) if o["_id"] == oid][0]
        if len(o["r"]) > 1:
            del o["r"][ri]
            yield _finalize(t)
    # drop a use
    for oi in range(n):
        for k in range(len(ir.spec_labels(top)[oi].get("u", []))):
            t = copy.deepcopy(top)
            del ir.spec_labels(t)[oi]["u"][k]
            yield t


def shrink_spec(top: list[dict], still: Callable[[list[dict]], bool]) -> list[dict]:
    cur = top
    steps = 0
    progress = True
    while progress and steps < 400:
        progress = False
        for cand in spec_candidates(cur):
            steps += 1
            if cand and still(cand):
                cur, progress = cand, True
                break
            if steps >= 400:
                break
    return cur


def shrink_text(text: str, still: Callable[[str], bool]) -> str:
    lines = text.split("\n")

    def ok(ls: list[str]) -> bool:
        t = "\n".join(ls)
        try:
            ir.parse_text(t)
        except Exception:  # noqa: BLE001
            return False
        return still(t)

    return "\n".join(core.shrink_list(lines, ok, max_steps=400))


def failure_of(case: dict, variant: str) -> tuple[str, str, str] | None:
    try:
        return judge(variant, run_variant(case, variant), case)
    except core.InfraError:
        raise
    except Exception:  # noqa: BLE001
        return None


def report(ctx: core.Ctx, case: dict, variant: str, bad: tuple[str, str, str], o: Outcome) -> None:
    key = bad[:2]
    small = case
    # shrinking costs hundreds of runs: do it for the first two failures of a class only (ctx.fail keeps
    # the smallest case per class anyway; the enumerations run in size order)
    done = ctx.extra.setdefault("oracle_failures_by_class", {})
    kk = " | ".join(key)
    done[kk] = done.get(kk, 0) + 1
    try:
        if done[kk] > 2:
            pass
        elif "spec" in case:
            s = shrink_spec(case["spec"], lambda c: (failure_of({"spec": c}, variant) or ("", ""))[:2] == key)
            small = {"spec": s}
        elif len(case["mlir"]) < 6000:
            t = shrink_text(case["mlir"], lambda c: (failure_of({"mlir": c}, variant) or ("", ""))[:2] == key)
            small = {"mlir": t}
    except Exception:  # noqa: BLE001  (shrinking is best effort)
        small = case
    o2 = run_variant(small, variant)
    bad2 = judge(variant, o2, small) or bad
    small = {**{k: v for k, v in small.items() if k in ("spec", "mlir")}, "variant": variant}
    ctx.fail(bad2[0], bad2[1], small, bad2[2], o2.line, "a module the property's sentence allows")


# ---------------------------------------------------------------------------------------------
# batches
# ---------------------------------------------------------------------------------------------

def run_batch(ctx: core.Ctx, cases: list[dict], label: str, sem: bool) -> None:
    """every case: static observations + the five variants, oracle, correspondence; `sem`: stream A"""
    lines: list[str] = []
    obs: list[str] = []
    where: list[tuple[int, str]] = []
    sem_lines: list[str] = []
    sem_where: list[tuple[int, str, int]] = []     # (case index, variant or 'orig', input index)
    cert_in: list[str] = []
    cert_where: list[tuple[int, str, int]] = []    # (case index, variant, removed ops + blocks)
    for ci, case in enumerate(cases):
        ctx.count(f"{label}.programs")
        try:
            tree, wbd, live = observe_static(case)
        except ir.Unsupported as e:
            raise core.InfraError(f"C13 generator produced an unserialisable module: {e}")
        for cmd, line in (("wbd", wbd), ("live", live)):
            lines.append(f"{cmd} {tree}"); obs.append(line); where.append((ci, cmd))
            ctx.ev()
        nontrivial = False
        outs: dict[str, Outcome] = {}
        for v in VARIANTS:
            o = run_variant(case, v)
            outs[v] = o
            ctx.ev()
            bad = judge(v, o, case)
            if bad is not None:
                report(ctx, case, v, bad, o)
            if o.s1 is not None:
                k = removed_count(o)
                if k:
                    ctx.count(f"{label}.{v}.removed_something")
                    ctx.count(f"{label}.{v}.removed_ops_or_blocks", k)
                    if any(not ir.oracle_class(d["name"])[0] for d in o.s1.ops.values()):
                        nontrivial = True
                if len(o.s0.blocks) > len(o.s1.blocks):
                    ctx.count(f"{label}.{v}.removed_blocks", len(o.s0.blocks) - len(o.s1.blocks))
            lines.append(f"{MODEL_CMD[v]} {tree}"); obs.append(o.line); where.append((ci, v))
        if nontrivial:
            ctx.nt(json.dumps(case.get("spec", case.get("mlir")), sort_keys=True))
        s0 = outs["once"].s0
        if s0 is not None:
            if any(not r for r in s0.reach.values()):
                ctx.count(f"{label}.with_unreachable_block")
            if any(d["parent"] is not None for d in s0.blocks.values()):
                ctx.count(f"{label}.with_nested_region")
            if any(i in s0.users[i] or any(i in s0.users[u] for u in s0.users[i]) for i in s0.ops):
                ctx.count(f"{label}.with_use_cycle")
            for d in s0.ops.values():
                ctx.count(f"{label}.op.{d['name']}")
            # which position inside an operation with recursive effects decides that it has to stay
            for i, d in s0.ops.items():
                t_, s_, eff_, rec_ = ir.oracle_class(d["name"])
                if not rec_ or t_ or s_ or eff_ not in ("pure", "read"):
                    continue
                if len(d["regions"]) > 1:
                    ctx.count(f"{label}.rec.multi_region")
                loud, quiet = s0.effect_positions(i)
                if not loud:
                    continue
                first = min(loud)
                if first[0] > 0:
                    ctx.count(f"{label}.rec.observable_only_in_later_region")
                    if any(q[0] < first[0] for q in quiet):
                        ctx.count(f"{label}.rec.observable_only_in_later_region_after_harmless_effects")
                if all(p_[1] > 0 for p_ in loud):
                    ctx.count(f"{label}.rec.observable_only_in_later_block")
        if sem:
            ctx.programs += 1
            try:
                m0 = ir.build_case(case)
                sem_lines.append("prog " + miniir.serialize(m0)); sem_where.append((ci, "orig", -1))
                for k, vec in enumerate(case["inputs"]):
                    sem_lines.append("run 200000 main " + " ".join(miniir.arg_text(t, x) for t, x in zip(case["arg_types"], vec)))
                    sem_where.append((ci, "orig", k))
                for v in VARIANTS:
                    o = outs[v]
                    if o.module is None:
                        continue
                    sem_lines.append("prog " + miniir.serialize(o.module)); sem_where.append((ci, v, -1))
                    for k, vec in enumerate(case["inputs"]):
                        sem_lines.append("run 200000 main " + " ".join(miniir.arg_text(t, x) for t, x in zip(case["arg_types"], vec)))
                        sem_where.append((ci, v, k))
            except miniir.Unsupported as e:
                raise core.InfraError(f"C13 stream A program is not serialisable to MiniIR: {e}")
            for v in CERT_VARIANTS:
                cl = cert_lines(case, v)
                if cl is None:
                    ctx.count(f"{label}.cert.unserialisable")
                    continue
                cert_in.extend(cl)
                cert_where.append((ci, v, removed_count(outs[v])))
    # ---- correspondence with the Lean model
    model = ctx.model("dce", lines)
    for i, (a, b) in enumerate(zip(obs, model)):
        ci, what = where[i]
        if what == "canon" and b.startswith("dce "):
            b = " ".join(["dce", *b.split(" ")[2:]])      # the number of region_dce calls is not compared
        if a != b:
            case = {k: v for k, v in cases[ci].items() if k in ("spec", "mlir")}
            ctx.mismatch("correspondence:C13/dce", {**case, "variant": what}, a, b,
                         f"implementation and Lean model disagree on `{what}`")
            break
    # ---- hypotheses of the proved semantic-preservation theorem (XdslProofs/C13SemCFG.lean) on this program,
    #      and: the MiniIR program the theorem speaks about IS what the real pass leaves
    if cert_in:
        res = ctx.model("dcemini", cert_in)
        for j, (ci, v, removed) in enumerate(cert_where):
            r_prog, r_cert, r_after = res[3 * j: 3 * j + 3]
            ctx.ev()
            case = {k: x for k, x in cases[ci].items() if k in ("spec", "mlir")}
            if r_prog != "ok":
                raise core.InfraError(f"dcemini rejected a program: {r_prog}")
            if r_cert == "cert ok":
                ctx.count(f"{label}.cert.{v}.ok")
                if removed:
                    ctx.count(f"{label}.cert.{v}.ok_and_removed_something")
            elif r_cert.startswith("cert no ") and r_cert[8:].startswith(CERT_UNCOVERED):
                why = r_cert[8:].split(":")[0]
                ctx.count(f"{label}.cert.{v}.uncovered.{why}")
                ctx.extra.setdefault("cert_uncovered_examples", {}).setdefault(r_cert[8:], case.get("mlir", "")[:1500])
            else:
                ctx.mismatch("correspondence:C13/dcemini", {**case, "variant": v}, "cert ok", r_cert,
                             "the model tree and the MiniIR serialisation of one module do not fit together "
                             "(shape, operand owners, ids)")
                break
            if r_after != "after ok":
                ctx.mismatch("correspondence:C13/dcemini", {**case, "variant": v}, "after ok", r_after,
                             f"`{v}`: the MiniIR program of the model's result is not the serialisation of what the "
                             "real pass leaves")
                break
    # ---- reference semantics before / after
    if sem_lines:
        res = ctx.model("sem", sem_lines)
        base: dict[tuple[int, int], str] = {}
        for (ci, v, k), r in zip(sem_where, res):
            if k < 0:
                if r != "ok":
                    raise core.InfraError(f"sem rejected a program ({v}): {r}")
                continue
            if v == "orig":
                base[(ci, k)] = r
                ctx.count(f"{label}.sem." + r.split(" ")[0])
                continue
            ctx.ev()
            b = base[(ci, k)]
            if not b.startswith("ok "):
                continue
            ctx.disagreements_checked += 1
            if r != b:
                case = cases[ci]
                key = (SITE[v], "program results or effect log changed")

                def still(t: str, v=v, case=case) -> bool:
                    return sem_differs({**case, "mlir": t}, v)

                text = case["mlir"]
                done = ctx.extra.setdefault("oracle_failures_by_class", {})
                kk = " | ".join(key)
                done[kk] = done.get(kk, 0) + 1
                try:
                    if len(text) < 6000 and done[kk] <= 2:
                        text = shrink_text(text, still)
                except Exception:  # noqa: BLE001
                    text = case["mlir"]
                ctx.fail(key[0], key[1], {"mlir": text, "variant": v, "arg_types": case["arg_types"],
                                          "inputs": case["inputs"]},
                         f"{v}: Sem gives `{b}` before and `{r}` after on input #{k}", r, b)


def sem_lines_for(case: dict, module: Any) -> list[str]:
    out = ["prog " + miniir.serialize(module)]
    for vec in case["inputs"]:
        out.append("run 200000 main " + " ".join(miniir.arg_text(t, x) for t, x in zip(case["arg_types"], vec)))
    return out


def sem_differs(case: dict, variant: str) -> bool:
    try:
        m0 = ir.build_case(case)
        o = run_variant(case, variant)
        if o.module is None:
            return False
        a = core.run_model("sem", sem_lines_for(case, m0))
        b = core.run_model("sem", sem_lines_for(case, o.module))
    except Exception:  # noqa: BLE001
        return False
    return any(x.startswith("ok ") and x != y for x, y in zip(a[1:], b[1:]))


def run_real_interp(ctx: core.Ctx, cases: list[dict], label: str) -> None:
    """the real interpreter before / after the dce pass (results + effect log)"""
    for case in cases:
        m0 = ir.build_case(case)
        o = run_variant(case, "dce")
        if o.module is None:
            continue
        for k, vec in enumerate(case["inputs"]):
            a = miniir.run_real(m0, "main", list(vec), cpu_budget_s=5.0)
            if not a.startswith("ok "):
                ctx.count(f"{label}.interp.not_ok_before")
                continue
            b = miniir.run_real(o.module, "main", list(vec), cpu_budget_s=5.0)
            ctx.ev()
            ctx.count(f"{label}.interp.compared")
            if a != b:
                ctx.fail(SITE_PASS, "interpreter results or effect log changed",
                         {"mlir": case["mlir"], "variant": "dce", "arg_types": case["arg_types"], "inputs": [vec]},
                         f"the xDSL interpreter gives `{a}` before and `{b}` after the dce pass", b, a)


def run_malformed(ctx: core.Ctx) -> None:
    junk = ["", "dce", "dce R", "dce R 1 B 1 O 0 0 0 0 U 0 0", "once R 1 B 1 O 0 1 0 0 0 K 1 q 0 0 0",
            "frob R 1 B 0", "dce R 1 B 2 O 0 0 0 0 U 0 0 0 O 0 0 0 0 U 0 0 0",      # duplicate id
            "dce R 1 B 1 O 0 0 1 0 U 0 1 5 0",                                          # successor outside
            "live R 1 B 0 R 1 B 0"]
    out = ctx.model("dce", junk)
    if any(o != "bad-op" for o in out):
        ctx.mismatch("correspondence:C13/dce", {"lines": junk}, ["bad-op"] * len(junk), out,
                     "model accepts a malformed protocol line")
    ctx.count("malformed.protocol_lines", len(junk))


# ---------------------------------------------------------------------------------------------
# run / replay
# ---------------------------------------------------------------------------------------------

def run(ctx: core.Ctx) -> None:
    ctx.lean()
    quick = ctx.tier == "quick"
    ir.custom_ops()
    # exhaustive small scope (enumeration order = size order, so the first failure is minimal)
    bound = 2 if quick else 3
    small: list[dict] = []
    for n in range(1, bound + 1):
        for kinds, uses in gen.enum_small(n):
            small.append({"spec": gen.small_spec(kinds, uses)})
    small.extend({"spec": sp} for sp in gen.unregistered_branch_specs())
    if quick:
        pool = list(gen.enum_small(3))
        for kinds, uses in ctx.rng.sample(pool, 150):
            small.append({"spec": gen.small_spec(kinds, uses)})
    for k in range(0, len(small), 400):
        if ctx.time_left() < 25:
            ctx.extra["exhaustive_truncated_at"] = k
            break
        run_batch(ctx, small[k:k + 400], "small", sem=False)
    else:
        ctx.exhaustive = True
        ctx.extra["exhaustive_scope"] = (f"all programs of one block with <= {bound} operations over the kinds "
                                         f"{list(gen.SMALL_KINDS)} (n = 3: {list(gen.SMALL_KINDS_3)}) and every choice of at most one operand per operation")
    # effect-position family (exhaustive in its scope; see c13_gen.position_specs)
    pos = list(gen.position_specs(full=not quick))
    for k in range(0, len(pos), 400):
        if ctx.time_left() < 25:
            ctx.extra["positions_truncated_at"] = k
            ctx.exhaustive = False
            break
        run_batch(ctx, pos[k:k + 400], "positions", sem=False)
    else:
        ctx.extra["positions_scope"] = gen.position_scope(full=not quick)
    # stream B
    nb = 350 if quick else 15000
    specs = [{"spec": gen.gen_spec(ctx.rng, max_depth=2 if i % 4 else 3)} for i in range(nb)]
    for k in range(0, nb, 200):
        if ctx.time_left() < 20:
            ctx.extra["streamB_truncated_at"] = k
            break
        run_batch(ctx, specs[k:k + 200], "streamB", sem=False)
    # stream A
    na = 60 if quick else 2500
    texts: list[dict] = []
    for _ in range(na):
        texts.append(gen.gen_text(ctx.rng))
    for k in range(0, na, 40):
        if ctx.time_left() < 15:
            ctx.extra["streamA_truncated_at"] = k
            break
        run_batch(ctx, texts[k:k + 40], "streamA", sem=True)
    run_real_interp(ctx, texts[: (10 if quick else 100)], "streamA")
    # stream C: real multi-region operations with loads / stores / calls at every region position
    for with_sem in (True, False):
        rc = gen.region_op_texts(full=not quick, with_sem=with_sem)
        for k in range(0, len(rc), 50):
            if ctx.time_left() < 10:
                ctx.extra["streamC_truncated_at"] = [with_sem, k]
                break
            run_batch(ctx, rc[k:k + 50], "streamC", sem=with_sem)
    run_malformed(ctx)
    ctx.sample({"spec": small[len(small) // 3]["spec"]})
    ctx.sample({"spec": specs[0]["spec"], "stats": gen.spec_stats(specs[0]["spec"])})
    ctx.sample({"mlir": texts[0]["mlir"][:1500]})


def replay(ctx: core.Ctx, body: dict) -> int:
    case = body["case"]
    if "lines" in case:
        print("dce model:", ctx.model("dce", case["lines"]))
        return 0
    ir.custom_ops()
    variant = case.get("variant", "dce")
    m = ir.build_case(case)
    print("input module:")
    print(m)
    tree, wbd, live = observe_static(case)
    print("would_be_trivially_dead (impl) :", wbd)
    print("would_be_trivially_dead (model):", ctx.model("dce", ["wbd " + tree])[0])
    print("live set (impl) :", live)
    print("live set (model):", ctx.model("dce", ["live " + tree])[0])
    rc = 0
    for v in ([variant] if variant in VARIANTS else list(VARIANTS)):
        o = run_variant(case, v)
        model = ctx.model("dce", [f"{MODEL_CMD[v]} {tree}"])[0]
        print(f"--- variant {v}")
        if o.module is not None:
            print(o.module)
        print("implementation :", o.line)
        print("lean model     :", model)
        bad = judge(v, o, case)
        if bad is not None:
            print(f"property FAILS on this case: {bad[0]} [{bad[1]}]: {bad[2]}")
            rc = 1
        elif o.line != model:
            print("property holds on this case (but implementation and model differ)")
            rc = 1
        else:
            print("property holds on this case")
        if "mlir" in case and "inputs" in case and o.module is not None:
            a = ctx.model("sem", sem_lines_for(case, m))
            b = ctx.model("sem", sem_lines_for(case, o.module))
            print("sem before:", a[1:])
            print("sem after :", b[1:])
            if any(x.startswith("ok ") and x != y for x, y in zip(a[1:], b[1:])):
                print("property FAILS on this case: program results or effect log changed")
                rc = 1
            if v in CERT_CMD:
                cl = cert_lines(case, v)
                if cl is not None:
                    print("hypotheses of the proved Sem theorem / model result = real result:",
                          ctx.model("dcemini", cl)[1:])
    return rc
