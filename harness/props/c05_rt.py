"""C05 helpers: custom-format print → parse round trip against the generic one, reduction of a
failing module to single operations, classification of the defect.

Uses the canonical serialisation of harness/props/c04_ir.py (own walk over the IR objects, never
goes through Printer)."""
from __future__ import annotations

import re
from io import StringIO
from typing import Any

from vp import core

from props import c04_ir as I


# ---------------------------------------------------------------------------------------------
# printing / canonical form
# ---------------------------------------------------------------------------------------------

def print_custom(op) -> str:
    from xdsl.printer import Printer

    io = StringIO()
    Printer(stream=io).print_op(op)
    return io.getvalue()


_RES_SUFFIX = re.compile(r"(_[0-9]+)+$")


def _norm(c: Any) -> Any:
    """Resource handles get a fresh `_<n>` suffix every time a text is parsed (blob storage is shared
    between Contexts: C04 known finding, not a matter of the custom form): compare them without it."""
    if isinstance(c, tuple):
        if len(c) == 4 and c[0] == "param" and c[1] == "DenseResourceAttr":
            ps = list(c[3])
            if ps and isinstance(ps[0], tuple) and ps[0][:2] == ("data", "StringAttr"):
                h = ps[0]
                ps[0] = (h[0], h[1], h[2], ("str", _RES_SUFFIX.sub("", h[3][1])))
            return (c[0], c[1], c[2], tuple(_norm(p) for p in ps))
        return tuple(_norm(x) for x in c)
    return c


def canon(op) -> Any:
    return _norm(I.canon_op(op))


class RT:
    __slots__ = ("ok", "stage", "detail", "custom", "generic", "parsed")

    def __init__(self, ok: bool, stage: str = "", detail: str = "", custom: str = "", generic: str = "", parsed=None):
        self.ok, self.stage, self.detail, self.custom, self.generic = ok, stage, detail, custom, generic
        self.parsed = parsed  # module parsed from the custom text (when it parsed)


def field_of(diff: str) -> str:
    """which component of an operation differs (from a c04_ir.first_diff path; canonical op tuple is
    ("op", name, results, operands, successors, properties, attributes, regions))"""
    m = re.findall(r"/op(\d)", diff.split(":", 1)[0])
    if not m:
        return "operation"
    return {"1": "name", "2": "results", "3": "operands", "4": "successors", "5": "properties",
            "6": "attributes", "7": "regions"}.get(m[-1], "operation")


def roundtrip(module, ctx_factory=None) -> RT:
    """custom print → parse in a fresh Context  vs  generic print → parse in a fresh Context.
    `stage`: generic (the generic form itself does not round-trip: C04's matter, not judged here),
    print, parse, diff"""
    mk = ctx_factory or I.fresh_context
    c0 = canon(module)
    tc = mc = cc = None
    stage, detail = "", ""
    try:
        tc = print_custom(module)
    except Exception as e:  # noqa: BLE001
        stage, detail = "print", f"custom printer raised {core.exc_name(e)}: {str(e)[:300]}"
    if tc is not None:
        try:
            mc = I.parse_module(tc, mk())
            cc = canon(mc)
        except Exception as e:  # noqa: BLE001
            msg = str(e).strip().splitlines()
            stage, detail = "parse", f"{core.exc_name(e)}: {(msg[-1] if msg else '').strip()[:200]}"
    if cc is not None and cc == c0:
        # custom form ≡ original; whether the generic form round-trips as well is C04's question
        return RT(True, "", "", tc, "", mc)
    # something is off: make sure it is not the generic form / the IR itself (then it is C04's matter)
    try:
        tg = I.print_generic(module)
        cg = canon(I.parse_module(tg, mk()))
    except Exception as e:  # noqa: BLE001
        return RT(True, "generic", f"{core.exc_name(e)}: {str(e)[-200:]}")
    if cg != c0:
        return RT(True, "generic", I.first_diff(c0, cg) or "")
    if stage:
        return RT(False, stage, detail, tc or "", tg)
    return RT(False, "diff", I.first_diff(cg, cc) or "canonical forms differ", tc, tg, mc)


# ---------------------------------------------------------------------------------------------
# which code prints/parses an op
# ---------------------------------------------------------------------------------------------

def format_kind(op) -> str:
    """'declarative' (assembly_format / FormatProgram), 'handwritten' (print+parse overrides),
    'generic' (no custom syntax)"""
    from xdsl.ir import Operation
    from xdsl.irdl import IRDLOperation

    cls = type(op)
    if isinstance(op, IRDLOperation) and getattr(cls, "assembly_format", None) is not None:
        return "declarative"
    if getattr(cls, "print", None) is not Operation.print or getattr(cls.parse, "__func__", None) is not Operation.parse.__func__:
        return "handwritten"
    return "generic"


def call_site(op) -> str:
    cls = type(op)
    if format_kind(op) == "declarative":
        return f"xdsl.irdl.declarative_assembly_format.FormatProgram[{op.name}]"
    return f"{cls.__module__}.{cls.__qualname__}.print/parse"


def signature(rt: RT) -> str:
    if rt.stage == "print":
        return "custom printer raises"
    if rt.stage == "parse":
        return "custom form does not parse back"
    return "custom form parses to a different operation (" + field_of(rt.detail) + ")"


# ---------------------------------------------------------------------------------------------
# reduction to single operations
# ---------------------------------------------------------------------------------------------

class NotIsolatable(Exception):
    pass


def isolate(op, replace: dict[int, Any] | None = None):
    """A module containing just a clone of `op` (with its regions): every value defined outside is
    replaced by a result of one `test.op`, every block outside by a fresh block with the same
    argument types.  `replace`: walk index (inside op, op itself = 0) → True: that nested op is
    replaced by a `test.op` with the same result types (used to take an already reported inner op
    out of an enclosing one)."""
    from xdsl.dialects.builtin import ModuleOp
    from xdsl.dialects.test import TestOp, TestTermOp
    from xdsl.ir import Block, Region

    inner_ops = list(op.walk())
    inside_vals: set[Any] = set()
    inside_blocks: set[Any] = set()
    for o in inner_ops:
        inside_vals.update(o.results)
        for r in o.regions:
            for b in r.blocks:
                inside_blocks.add(b)
                inside_vals.update(b.args)
    ext: list[Any] = []
    ext_blocks: list[Any] = []
    for o in inner_ops:
        for v in o.operands:
            if v not in inside_vals and v not in ext:
                ext.append(v)
        for s in o.successors:
            if s not in inside_blocks and s not in ext_blocks:
                ext_blocks.append(s)
    if ext_blocks and any(s not in ext_blocks for s in op.successors):
        raise NotIsolatable("nested successor outside")
    pre = []
    vmap: dict[Any, Any] = {}
    if ext:
        prod = TestOp(result_types=[v.type for v in ext])
        pre.append(prod)
        for v, r in zip(ext, prod.results):
            vmap[v] = r
    bmap: dict[Any, Any] = {}
    new_blocks = []
    for s in ext_blocks:
        nb = Block(arg_types=[a.type for a in s.args])
        nb.add_op(TestTermOp())
        bmap[s] = nb
        new_blocks.append(nb)
    cl = op.clone(vmap, bmap)
    if replace:
        cl_ops = list(cl.walk())
        for k in sorted(replace, reverse=True):
            victim = cl_ops[k]
            if victim.regions or victim.successors or victim.parent is None:
                raise NotIsolatable("cannot take nested op out")
            sub = TestOp(result_types=list(victim.result_types))
            blk = victim.parent
            blk.insert_op_before(sub, victim)
            for a, b in zip(victim.results, sub.results):
                a.replace_all_uses_with(b)
            blk.erase_op(victim)
    if not ext_blocks:
        return ModuleOp(pre + [cl]), cl
    entry = Block()
    for o in pre:
        entry.add_op(o)
    entry.add_op(cl)
    wrapper = TestOp(regions=[Region([entry] + new_blocks)])
    return ModuleOp([wrapper]), cl


class OpFailure:
    __slots__ = ("op_name", "call_site", "signature", "kind", "rt", "isolated", "iso")

    def __init__(self, op, rt: RT, isolated: bool, iso=None):
        self.iso = iso  # the isolated module the failure was reproduced on
        self.op_name = op.name
        self.call_site = call_site(op)
        self.signature = signature(rt)
        self.kind = format_kind(op)
        self.rt = rt
        self.isolated = isolated


def reduce_failure(module, rt: RT) -> list[OpFailure]:
    """`module` fails the custom round trip.  Find the single operations responsible: every op with a
    custom syntax is isolated (innermost first) and round-tripped alone; an enclosing op is only
    reported when it still fails with the already reported inner ops replaced by `test.op`s."""
    ops = list(module.walk())
    failing: dict[int, OpFailure] = {}  # id(op) → failure
    out: list[OpFailure] = []
    seen_keys: set[tuple[str, str]] = set()
    for o in reversed(ops):
        if o is module or format_kind(o) == "generic":
            continue
        inner = list(o.walk())
        bad_inner = {k: True for k, x in enumerate(inner) if k and id(x) in failing}
        # an enclosing op of an op that is itself enclosed in a failing op: only direct culprits
        try:
            iso, cl = isolate(o, bad_inner or None)
        except NotIsolatable:
            if bad_inner:
                failing[id(o)] = failing[id(inner[next(iter(bad_inner))])]
            continue
        except Exception:  # noqa: BLE001
            continue
        r = roundtrip(iso)
        if r.ok or r.stage == "generic":
            continue
        if r.stage == "print" and rt.stage != "print":
            # the printer of the isolated op raises although it printed inside the module: it needs its
            # surroundings (parent op); not reproducible on the single op
            continue
        named = o
        if r.stage == "diff":
            # the differing operation may be a nested one that only fails inside this op (its printer or
            # parser consults the parent): name the finding after it, keep the enclosing op as the case
            inner_op = _op_at_path(iso, r.detail.split(":", 1)[0])
            if inner_op is not None and inner_op is not cl and inner_op is not iso and format_kind(inner_op) != "generic" \
                    and any(x is inner_op for x in cl.walk()):
                named = inner_op
        f = OpFailure(named, r, True, iso)
        failing[id(o)] = f
        if (f.call_site, f.signature) not in seen_keys:
            seen_keys.add((f.call_site, f.signature))
            out.append(f)
    if out:
        return out
    # not reproducible on a single op: report the whole module, keyed by the first differing op
    culprit = module
    if rt.stage == "diff":
        m = re.findall(r"/(?:op7|region1|block3)/(\d+)", rt.detail.split(":", 1)[0])
        culprit = _op_at_path(module, rt.detail.split(":", 1)[0]) or module
    return [OpFailure(culprit, rt, False)]


def _op_at_path(module, path: str):
    """follow a c04_ir.first_diff path (/op7/<region>/region1/<block>/block3/<op>/…) down the IR"""
    toks = [t for t in path.split("/") if t]
    cur = module
    i = 0
    try:
        while i + 5 < len(toks) + 1 and i < len(toks) and toks[i] == "op7":
            r = int(toks[i + 1])
            if toks[i + 2] != "region1":
                break
            b = int(toks[i + 3])
            if toks[i + 4] != "block3":
                break
            k = int(toks[i + 5])
            cur = list(list(cur.regions[r].blocks)[b].ops)[k]
            i += 6
    except Exception:  # noqa: BLE001
        return cur
    return cur
