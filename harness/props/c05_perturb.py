"""C05 — variants of corpus operations built through the generic form.

* property perturbation: for every operation class of the corpus that has optional or
  default-valued properties/attributes, variants of corpus instances in which ONE such entry is
  put into a state another corpus instance of the same class is in (a value it carries; absent only
  if some instance lacks the entry), and one variant with all absent ones set; the variant module
  must verify, then custom print → parse ≡ generic print → parse;
* function-like operations (classes with `arg_attrs` / `res_attrs`): the per-argument / per-result
  decorations on none / all / a strict subset (empty dictionaries mixed with non-empty ones) of the
  arguments and results, for declarations also 0 / 1 / 2 results;
* a fixed catalogue of generic-form module texts for hand-written formats whose rare shapes the
  corpus reaches in one place only (vector.transfer_read / transfer_write);
* the baseline of corpus chunks that parsed and verified at the pinned state: a chunk (unchanged
  text) that stops parsing or verifying is a failing input — a defect of a custom *parser* otherwise
  removes its own witnesses from the corpus.
"""
from __future__ import annotations

import hashlib
import json
import re
from pathlib import Path
from typing import Any

from vp import core

from props import c04_ir as I
from props import c05_rt as R

BASELINE = Path(__file__).resolve().parents[1] / "corpus" / "C05" / "verified_chunks.json"
SEG = ("operandSegmentSizes", "resultSegmentSizes", "operand_segment_sizes", "result_segment_sizes")


# ---------------------------------------------------------------------------------------------
# baseline of verified chunks
# ---------------------------------------------------------------------------------------------

def chunk_key(path: str, idx: int) -> str:
    return f"{path}#{idx}"


def text_hash(text: str) -> str:
    return hashlib.sha1(text.encode()).hexdigest()[:16]


def load_baseline() -> dict[str, str]:
    if not BASELINE.exists():
        return {}
    return json.loads(BASELINE.read_text())["chunks"]


def write_baseline() -> int:
    """(re)create the baseline from the tree XDSL_REPO points at — run on the pinned/clean tree only"""
    out = {}
    for path, idx, text in I.corpus_chunks():
        if I.parse_verified(text) is not None:
            out[chunk_key(path, idx)] = text_hash(text)
    BASELINE.parent.mkdir(parents=True, exist_ok=True)
    BASELINE.write_text(json.dumps({"_comment": "corpus chunks (file#chunk → sha1 prefix of the chunk text) that parse and "
                                    "verify with all dialects on the clean tree; regenerate with "
                                    "`PYTHONPATH=/repo:harness /venv/bin/python -m props.c05_perturb --rebaseline`",
                                    "chunks": out}, indent=0, sort_keys=True) + "\n")
    return len(out)


def parse_verify(text: str):
    """(module, None) or (None, (stage, exception))"""
    try:
        m = I.parse_module(text)
    except BaseException as e:  # noqa: BLE001
        if isinstance(e, (KeyboardInterrupt, SystemExit)):
            raise
        return None, ("parse", e)
    try:
        m.verify()
    except BaseException as e:  # noqa: BLE001
        if isinstance(e, (KeyboardInterrupt, SystemExit)):
            raise
        return None, ("verify", e)
    return m, None


_OPNAME = re.compile(r"\b([a-z_][a-z0-9_]*(?:\.[a-z_][a-z0-9_]*)+)\b")


def op_class_of_message(msg: str):
    """the registered operation a parser/verifier message names first (None if none)"""
    ctx = I.fresh_context(allow_unregistered=False)
    for m in _OPNAME.finditer(msg):
        try:
            cls = ctx.get_optional_op(m.group(1))
        except Exception:  # noqa: BLE001
            cls = None
        if cls is not None:
            return cls
    return None


def report_lost_chunk(ctx: core.Ctx, path: str, idx: int, text: str, why) -> None:
    stage, e = why
    lines = str(e).strip().splitlines()
    msg = (lines[-1] if lines else "").strip()[:300]
    # a parse error shows the offending source line: the op name is on it
    cls = op_class_of_message("\n".join(lines[-4:])) or op_class_of_message(str(e))
    if cls is not None:
        site = f"{cls.__module__}.{cls.__qualname__}.print/parse"
        opn = cls.name
    else:
        site, opn = "xdsl.parser.core.Parser.parse_module", None
    sig = ("input that parsed and verified at the pinned state no longer " + ("parses" if stage == "parse" else "verifies after parsing"))
    ctx.fail(site, sig, {"family": "lost-chunk", "file": path, "chunk": idx, "op": opn},
             f"{path} chunk {idx}: {core.exc_name(e)}: {msg}",
             {"stage": stage, "error": msg, "text_head": text.strip()[:400]}, None)
    ctx.count(f"corpus.lost.{stage}")


# ---------------------------------------------------------------------------------------------
# index of the corpus: value pools and instances per operation class
# ---------------------------------------------------------------------------------------------

class Index:
    def __init__(self) -> None:
        self.pool: dict[Any, dict[tuple[str, str], list[Any]]] = {}      # cls → (where, name) → values
        self.inst: dict[Any, list[tuple[int, str, int, Any, int]]] = {}  # cls → (module size, path, chunk, module, walk index)
        self.absent_seen: dict[Any, set[tuple[str, str]]] = {}           # cls → entries some instance lacks
        self.funclike: dict[Any, list[tuple[int, str, int, Any, int]]] = {}
        self._fl_known: dict[Any, bool] = {}

    def add_module(self, module, path: str, idx: int) -> None:
        from xdsl.irdl import IRDLOperation

        ops = list(module.walk())
        n = len(ops)
        for k, o in enumerate(ops):
            if not isinstance(o, IRDLOperation) or R.format_kind(o) == "generic":
                continue
            cls = type(o)
            if cls not in self._fl_known:
                self._fl_known[cls] = bool(funclike_fields(cls))
            if self._fl_known[cls] and fn_arity(o) is not None:
                fl = self.funclike.setdefault(cls, [])
                if len(fl) < 60:
                    fl.append((n, path, idx, module, k))
            names = tunable_names(cls)
            if not names:
                continue
            pool = self.pool.setdefault(cls, {})
            for where, name in names:
                v = (o.properties if where == "prop" else o.attributes).get(name)
                if v is not None:
                    lst = pool.setdefault((where, name), [])
                    if v not in lst and len(lst) < 4:
                        lst.append(v)
                else:
                    self.absent_seen.setdefault(cls, set()).add((where, name))
            lst2 = self.inst.setdefault(cls, [])
            if len(lst2) < 40:
                lst2.append((n, path, idx, module, k))


_TUNABLE: dict[Any, list[tuple[str, str]]] = {}


def tunable_names(cls) -> list[tuple[str, str]]:
    """optional or default-valued properties / attributes of an IRDL operation class"""
    if cls in _TUNABLE:
        return _TUNABLE[cls]
    from xdsl.irdl import OptionalDef

    od = cls.get_irdl_definition()
    out = []
    for where, defs in (("prop", od.properties), ("attr", od.attributes)):
        for n, d in defs.items():
            if n in SEG or n in ("arg_attrs", "res_attrs"):
                # per-argument / per-result arrays must match the arity: the function-like leg builds them
                continue
            if isinstance(d, OptionalDef) or getattr(d, "default_value", None) is not None:
                out.append((where, n))
    _TUNABLE[cls] = out
    return out


def variant(module, k: int, edit) :
    """clone of `module` whose k-th operation (walk order) is edited in place; None if the edit fails
    or the variant does not verify"""
    try:
        cl = module.clone()
        op = list(cl.walk())[k]
        edit(op)
        cl.verify()
        return cl
    except BaseException as e:  # noqa: BLE001
        if isinstance(e, (KeyboardInterrupt, SystemExit)):
            raise
        return None


def _setter(where: str, name: str, v):
    def f(op):
        d = op.properties if where == "prop" else op.attributes
        if v is None:
            d.pop(name, None)
        else:
            d[name] = v
    return f


def attr_text(v) -> str:
    return "<absent>" if v is None else str(v)[:120]


def hidden_in_ancestor(op) -> bool:
    """`op` sits in a region that an enclosing operation does not print in its custom form (linalg
    named ops regenerate their body): editing it is invisible by design of that enclosing op — the
    finding would be about the enclosing op, which the corpus/pass legs judge"""
    a = op.parent_op()
    while a is not None and a.parent_op() is not None:
        try:
            text = R.print_custom(a)
        except Exception:  # noqa: BLE001
            return True
        if op.name not in text:
            return True
        a = a.parent_op()
    return False


def run_perturb(ctx: core.Ctx, ix: Index, check_module, per_class: int, max_module_ops: int, reserve: float) -> None:
    classes = sorted(ix.inst, key=lambda c: c.name)
    for cls in classes:
        if ctx.time_left() < reserve:
            ctx.count("perturb.skipped_for_time")
            break
        names = tunable_names(cls)
        pool = ix.pool.get(cls, {})
        insts = sorted(ix.inst[cls], key=lambda t: t[0])[:per_class]
        ctx.count("perturb.classes")
        for size, path, idx, module, k in insts:
            if size > max_module_ops:
                continue
            op = list(module.walk())[k]
            if hidden_in_ancestor(op):
                ctx.count("perturb.instance_in_hidden_region")
                continue
            edits: list[tuple[dict[str, str], Any]] = []
            allset = []
            for where, name in names:
                cur = (op.properties if where == "prop" else op.attributes).get(name)
                cands = [v for v in pool.get((where, name), []) if v != cur][:2]
                # every per-entry state a variant uses is one some corpus instance of the class is in:
                # an entry is only removed when some instance lacks it
                if cur is not None and (where, name) in ix.absent_seen.get(cls, ()):
                    cands.append(None)
                for v in cands:
                    edits.append(({f"{where}:{name}": attr_text(v)}, _setter(where, name, v)))
                if cur is None and pool.get((where, name)):
                    allset.append((where, name, pool[(where, name)][0]))
            if len(allset) > 1:
                def all_edit(o, allset=allset):
                    for where, name, v in allset:
                        _setter(where, name, v)(o)
                edits.append(({f"{w}:{n}": attr_text(v) for w, n, v in allset}, all_edit))
            for desc, edit in edits:
                if ctx.time_left() < reserve:
                    break
                vm = variant(module, k, edit)
                if vm is None:
                    ctx.count("perturb.variant_does_not_verify")
                    continue
                ctx.count("perturb.variants")
                ctx.nt(("perturb", cls.name, path, idx, k, json.dumps(desc, sort_keys=True)))
                check_module(ctx, vm, {"family": "perturb", "file": path, "chunk": idx, "op_index": k,
                                       "op_class": cls.name, "set": desc}, "perturb")


# ---------------------------------------------------------------------------------------------
# function-like operations: per-argument / per-result decorations
# ---------------------------------------------------------------------------------------------

def funclike_fields(cls) -> dict[str, str]:
    """{'arg_attrs': 'prop'|'attr', 'res_attrs': …} for classes that define them"""
    od = cls.get_irdl_definition()
    out = {}
    for n in ("arg_attrs", "res_attrs"):
        if n in od.properties:
            out[n] = "prop"
        elif n in od.attributes:
            out[n] = "attr"
    return out


def fn_arity(op) -> tuple[int, int] | None:
    ft = op.properties.get("function_type") or op.attributes.get("function_type")
    if ft is None:
        return None
    from xdsl.dialects.builtin import FunctionType

    if isinstance(ft, FunctionType):
        return len(ft.inputs.data), len(ft.outputs.data)
    try:
        from xdsl.dialects.llvm import LLVMFunctionType, LLVMVoidType

        if isinstance(ft, LLVMFunctionType):
            return len(ft.inputs.data), 0 if isinstance(ft.output, LLVMVoidType) else 1
    except Exception:  # noqa: BLE001
        pass
    return None


def deco_patterns(n: int) -> list[tuple[str, list[bool] | None]]:
    """which positions carry a non-empty dictionary; None = the array is absent"""
    pats: list[tuple[str, list[bool] | None]] = [("none", None)]
    if n >= 1:
        pats.append(("all", [True] * n))
    if n >= 2:
        pats.append(("first-only", [True] + [False] * (n - 1)))
        pats.append(("last-only", [False] * (n - 1) + [True]))
    if n >= 3:
        pats.append(("middle-only", [False] + [True] + [False] * (n - 2)))
    return pats


def deco_array(p: list[bool] | None, tag: str):
    from xdsl.dialects.builtin import ArrayAttr, DictionaryAttr, IntegerAttr, i32

    if p is None:
        return None
    return ArrayAttr([DictionaryAttr({f"test.{tag}": IntegerAttr(i + 1, i32)} if b else {}) for i, b in enumerate(p)])


def with_results(op, nres: int) -> bool:
    """declaration only: give the function `nres` results (i32); False when not applicable"""
    from xdsl.dialects.builtin import FunctionType, i32

    if any(r.blocks for r in op.regions):
        return False
    d = op.properties if "function_type" in op.properties else op.attributes
    ft = d.get("function_type")
    if isinstance(ft, FunctionType):
        d["function_type"] = FunctionType.from_lists(list(ft.inputs.data), [i32] * nres)
        return True
    try:
        from xdsl.dialects.llvm import LLVMFunctionType, LLVMVoidType

        if isinstance(ft, LLVMFunctionType) and nres <= 1:
            d["function_type"] = LLVMFunctionType(list(ft.inputs.data), i32 if nres else LLVMVoidType(), ft.is_variadic)
            return True
    except Exception:  # noqa: BLE001
        pass
    return False


def run_funclike(ctx: core.Ctx, ix: Index, check_module, per_class: int, reserve: float) -> None:
    for cls in sorted(ix.funclike, key=lambda c: c.name):
        fields = funclike_fields(cls)
        insts = sorted(ix.funclike[cls], key=lambda t: t[0])
        # prefer small modules; make sure a declaration and a definition with ≥2 results are included
        chosen = insts[:per_class]
        for want in (lambda o: not any(r.blocks for r in o.regions), lambda o: (fn_arity(o) or (0, 0))[1] >= 2,
                     lambda o: (fn_arity(o) or (0, 0))[0] >= 2):
            hit = next((t for t in insts if want(list(t[3].walk())[t[4]])), None)
            if hit is not None and hit not in chosen:
                chosen.append(hit)
        ctx.count("funclike.classes")
        for size, path, idx, module, k in chosen:
            op = list(module.walk())[k]
            res_counts: list[int | None] = [None]
            if not any(r.blocks for r in op.regions):
                res_counts += [0, 1, 2]
            for nres in res_counts:
                base = module
                if nres is not None:
                    def set_results(o, nres=nres):
                        if not with_results(o, nres):
                            raise ValueError("not applicable")
                        if "res_attrs" in fields:
                            _setter(fields["res_attrs"], "res_attrs", None)(o)

                    base = variant(module, k, set_results)
                    if base is None:
                        ctx.count("funclike.result_count_variant_not_applicable")
                        continue
                ar = fn_arity(list(base.walk())[k])
                if ar is None:
                    continue
                nargs, nr = ar
                for an, ap in (deco_patterns(nargs) if "arg_attrs" in fields else [("n/a", None)]):
                    for rn, rp in (deco_patterns(nr) if "res_attrs" in fields else [("n/a", None)]):
                        if ctx.time_left() < reserve:
                            ctx.count("funclike.skipped_for_time")
                            return

                        def edit(o, ap=ap, rp=rp):
                            if "arg_attrs" in fields:
                                _setter(fields["arg_attrs"], "arg_attrs", deco_array(ap, "arg"))(o)
                            if "res_attrs" in fields:
                                _setter(fields["res_attrs"], "res_attrs", deco_array(rp, "res"))(o)

                        vm = variant(base, k, edit)
                        if vm is None:
                            ctx.count("funclike.variant_does_not_verify")
                            continue
                        ctx.count("funclike.variants")
                        ctx.nt(("funclike", cls.name, path, idx, k, nres, an, rn))
                        check_module(ctx, vm, {"family": "funclike", "file": path, "chunk": idx, "op_index": k,
                                               "op_class": cls.name, "results": nres, "arg_attrs": an, "res_attrs": rn},
                                     "funclike")


# ---------------------------------------------------------------------------------------------
# fixed catalogue of generic-form texts (hand-written formats with rare shapes)
# ---------------------------------------------------------------------------------------------

def _transfer_texts() -> list[tuple[str, str]]:
    out = []
    shapes = [
        # (name, memref type, vector type, padding type, rank of the permutation map results, identity map text, other map text)
        ("scalar-elt", "memref<?x?xf32>", "vector<4x3xf32>", "f32", 2, "affine_map<(d0, d1) -> (d0, d1)>", "affine_map<(d0, d1) -> (d1, d0)>"),
        ("scalar-elt-1d", "memref<?x?xf32>", "vector<128xf32>", "f32", 1, "affine_map<(d0, d1) -> (d1)>", "affine_map<(d0, d1) -> (d0)>"),
        ("vector-elt", "memref<?x?xvector<4x3xf32>>", "vector<1x1x4x3xf32>", "vector<4x3xf32>", 2, "affine_map<(d0, d1) -> (d0, d1)>", "affine_map<(d0, d1) -> (d1, d0)>"),
        ("vector-elt-1d", "memref<?x?xvector<4x3xf32>>", "vector<2x4x3xf32>", "vector<4x3xf32>", 1, "affine_map<(d0, d1) -> (d1)>", "affine_map<(d0, d1) -> (d0)>"),
    ]
    for name, mt, vt, pt, rank, ident, other in shapes:
        for ib_name, ib in (("in_bounds-all-false", ["false"] * rank), ("in_bounds-mixed", ["true"] + ["false"] * (rank - 1)),
                            ("in_bounds-all-true", ["true"] * rank)):
            for pm_name, pm in (("identity-map", ident), ("explicit-map", other)):
                ibt = "[" + ", ".join(ib) + "]"
                text = (
                    f'%m, %i, %pad = "test.op"() : () -> ({mt}, index, {pt})\n'
                    f'%v = "vector.transfer_read"(%m, %i, %i, %pad) <{{in_bounds = {ibt}, operandSegmentSizes = array<i32: 1, 2, 1, 0>, '
                    f'permutation_map = {pm}}}> : ({mt}, index, index, {pt}) -> {vt}\n'
                    f'"vector.transfer_write"(%v, %m, %i, %i) <{{in_bounds = {ibt}, operandSegmentSizes = array<i32: 1, 1, 2, 0>, '
                    f'permutation_map = {pm}}}> : ({vt}, {mt}, index, index) -> ()\n')
                out.append((f"vector.transfer/{name}/{ib_name}/{pm_name}", text))
    return out


def _func_texts() -> list[tuple[str, str]]:
    """func.func definitions with result / argument attributes on all or a strict subset of the
    positions, and declarations with result attributes"""
    out = []
    tag = "{test.tag = 1 : i32}"
    for name, ins, outs, res_attrs, arg_attrs in [
        ("func/one-result-decorated", 1, 1, f"[{tag}]", None),
        ("func/two-results-second-decorated", 1, 2, f"[{{}}, {tag}]", None),
        ("func/two-results-first-decorated", 1, 2, f"[{tag}, {{}}]", None),
        ("func/two-results-both-decorated", 1, 2, f"[{tag}, {tag}]", None),
        ("func/three-results-middle-decorated", 1, 3, f"[{{}}, {tag}, {{}}]", None),
        ("func/two-args-second-decorated", 2, 0, None, f"[{{}}, {tag}]"),
        ("func/args-and-results-partly-decorated", 2, 2, f"[{{}}, {tag}]", f"[{tag}, {{}}]"),
        ("func/undecorated-two-results", 1, 2, None, None),
    ]:
        it = ", ".join(["i32"] * ins)
        ot = ", ".join(["i32"] * outs)
        props = f'function_type = ({it}) -> ({ot}), sym_name = "f"'
        if res_attrs:
            props += f", res_attrs = {res_attrs}"
        if arg_attrs:
            props += f", arg_attrs = {arg_attrs}"
        args = ", ".join(f"%a{i}: i32" for i in range(ins))
        rets = ", ".join(["%a0"] * outs)
        out.append((name, f'"func.func"() <{{{props}}}> ({{\n^bb0({args}):\n  "func.return"({rets}) : ({ot}) -> ()\n}}) : () -> ()\n'))
    # declarations: result attributes are printed since the repair of print_func_op_like (argument
    # attributes of declarations are a listed limitation and stay out of this catalogue)
    for name, outs, res_attrs in [
        ("func/declaration-one-result-decorated", 1, f"[{tag}]"),
        ("func/declaration-two-results-second-decorated", 2, f"[{{}}, {tag}]"),
        ("func/declaration-two-results-both-decorated", 2, f"[{tag}, {tag}]"),
        ("func/declaration-undecorated", 1, None),
    ]:
        ot = ", ".join(["i32"] * outs)
        props = f'function_type = (i32) -> ({ot}), sym_name = "f", sym_visibility = "private"'
        if res_attrs:
            props += f", res_attrs = {res_attrs}"
        out.append((name, f'"func.func"() <{{{props}}}> ({{\n}}) : () -> ()\n'))
    return out


def _llvm_func_texts() -> list[tuple[str, str]]:
    """llvm.func with and without the optional `unnamed_addr` (the custom parser always sets it; 0 is its
    declared default since the repair)"""
    out = []
    base = ('CConv = #llvm.cconv<ccc>, function_type = !llvm.func<void ()>, linkage = #llvm.linkage<"external">, '
            'sym_name = "f", visibility_ = 0 : i64')
    for name, extra in [("llvm.func/no-unnamed_addr", ""), ("llvm.func/unnamed_addr-0", ", unnamed_addr = 0 : i64"),
                        ("llvm.func/unnamed_addr-1", ", unnamed_addr = 1 : i64"), ("llvm.func/unnamed_addr-2", ", unnamed_addr = 2 : i64")]:
        out.append((name, f'"llvm.func"() <{{{base}{extra}}}> ({{\n}}) : () -> ()\n'))
    return out


def _affine_texts() -> list[tuple[str, str]]:
    """affine access operations whose map needs parentheses in the custom form, resp. binds symbols
    after dimensions (judged by the access-function oracle of c05_affine: the custom parser renames
    dimensions to symbols, so the `map` property itself differs by a listed known finding)"""
    head = ('%m = "test.op"() : () -> memref<64xf32>\n%i = "test.op"() : () -> index\n%j = "test.op"() : () -> index\n'
            '%v = "test.op"() : () -> f32\n')
    prec = head + (
        '%0 = "affine.load"(%m, %i, %j) <{map = affine_map<(d0, d1) -> ((d0 + d1) floordiv 4)>}> : (memref<64xf32>, index, index) -> f32\n'
        '%1 = "affine.load"(%m, %i) <{map = affine_map<(d0) -> ((d0 + 3) mod 4 * 2)>}> : (memref<64xf32>, index) -> f32\n'
        '"affine.store"(%v, %m, %i, %j) <{map = affine_map<(d0, d1) -> ((d0 * 3 + d1 + 1) ceildiv 8)>}> : (f32, memref<64xf32>, index, index) -> ()\n'
        '%2 = "affine.vector_load"(%m, %j, %i) <{map = affine_map<(d0, d1) -> (((d0 + 5) floordiv 2 + d1) mod 16)>}> : (memref<64xf32>, index, index) -> vector<4xf32>\n'
        '%3 = "affine.load"(%m, %i, %j) <{map = affine_map<(d0, d1) -> (d0 * 2 + d1 mod 4)>}> : (memref<64xf32>, index, index) -> f32\n')
    syms = head + (
        '%0 = "affine.load"(%m, %i, %j) <{map = affine_map<(d0)[s0] -> (d0 + s0 * 2)>}> : (memref<64xf32>, index, index) -> f32\n'
        '"affine.store"(%v, %m, %j, %i) <{map = affine_map<(d0)[s0] -> (s0 mod 8)>}> : (f32, memref<64xf32>, index, index) -> ()\n')
    return [("affine/access-map-parentheses", prec), ("affine/access-map-dims-and-symbols", syms)]


def text_catalogue() -> list[tuple[str, str]]:
    return _transfer_texts() + _func_texts() + _llvm_func_texts() + _affine_texts()


def run_text_catalogue(ctx: core.Ctx, check_module) -> None:
    for name, text in text_catalogue():
        m, why = parse_verify(text)
        if m is None:
            # the generic form of a catalogue entry must always be readable: the catalogue is wrong or
            # the verifier changed — say so instead of silently dropping the witness
            stage, e = why
            ctx.fail("xdsl.parser.core.Parser.parse_module", "catalogue entry in generic form no longer " + ("parses" if stage == "parse" else "verifies"),
                     {"family": "text-catalogue", "name": name, "generic_text": text},
                     f"{name}: {core.exc_name(e)}: {str(e).strip().splitlines()[-1][:200]}", None, None)
            continue
        ctx.count("text_catalogue.entries")
        ctx.nt(("text-catalogue", name))
        check_module(ctx, m, {"family": "text-catalogue", "name": name}, "text_catalogue")


if __name__ == "__main__":
    import sys

    if "--rebaseline" in sys.argv:
        print("verified chunks:", write_baseline())


def refine_signatures(f) -> list[str]:
    """function-like operations: name the decoration that the custom round trip loses or changes
    (so that a listed limitation of declarations does not hide a defect of definitions)"""
    try:
        if f.rt.stage != "diff" or f.rt.parsed is None or f.iso is None:
            return [f.signature]
        o1 = next((o for o in f.iso.walk() if o.name == f.op_name), None)
        o2 = next((o for o in f.rt.parsed.walk() if o.name == f.op_name), None)
        if o1 is None or o2 is None:
            return [f.signature]
        fields = funclike_fields(type(o1))
        if not fields:
            return [f.signature]

        def get(o, n):
            return (o.properties if fields[n] == "prop" else o.attributes).get(n)

        diffs = [n for n in fields if get(o1, n) != get(o2, n)]
        if not diffs:
            return [f.signature]
        kind = "declaration" if not any(r.blocks for r in o1.regions) else "definition"
        return [f"function-like {kind}: {n} lost or changed by the custom round trip" for n in diffs]
    except Exception:  # noqa: BLE001
        return [f.signature]
